"""C01 - the optimiser returns the best solutions it recorded.
Implementation: real optimiser runs (harness/optrun.py).  Model: coq/theories/Evo/Loop.v on top of
the archive / keeper model of C08 (agree / holds_b)."""
import json

import optrun
from common import c_Q, c_bool, c_list, c_nat, c_opt
from c06 import LABELS

REQ = ['Fitness.Fitness', 'Archive.Hof', 'Evo.History', 'Evo.Loop']
FN = 'fun o => [agree o; holds_b o; capacity_reached o]'


def fit_coq(vals, multi):
    if vals is None:
        return '(Single None [])'
    qs = [c_Q(v) for v in vals]
    if multi:
        return '(Multi %s %s)' % (c_list(qs, 'Q'), c_list([c_Q(1.0)] * len(qs), 'Q'))
    return '(Single (Some %s) %s)' % (qs[0], c_list(qs[1:], 'Q'))


def run_to_coq(rec):
    cfg = rec['cfg']
    multi = bool(cfg['objective'].get('multi'))
    h = rec['history']
    inds = h['individuals']
    uidx, cls = {}, {}

    def ui(u):
        return uidx.setdefault(u, len(uidx))

    def ci(s):
        return cls.setdefault(s, len(cls))
    gens = []
    ngs = {}
    for g in h['generations']:
        members = []
        for u in g['members']:
            r = inds[u]
            if r['native_generation'] is not None:
                ngs[ui(u)] = r['native_generation']
            members.append('{| uid := %s; fitness := %s; gclass := %s; ngen := None |}' % (
                c_nat(ui(u)), fit_coq(r['fitness'], multi), c_nat(ci(r['id']))))
        gens.append('(%s, %s)' % (LABELS.get(g['label'], 'LOther'), c_list(members, 'indiv')))
    snaps = [c_list([c_nat(ui(u)) for u in s], 'nat') for s in h['archive']]
    result = rec['result'] or []
    return ('{| or_multi := %s; or_keep := %s; or_gens := %s; or_snaps := %s; '
            'or_result := %s; or_verified := %s; or_ng := %s |}') % (
        c_bool(multi), c_nat(cfg.get('keep_n_best', 1)),
        c_list(gens, 'label * list indiv'), c_list(snaps, 'list nat'),
        c_list([c_nat(ci(r['id'])) for r in result], 'nat'), c_list([c_bool(r['verified']) for r in result], 'bool'),
        c_list(['(%s, %s)' % (c_nat(u), c_nat(n)) for u, n in sorted(ngs.items())], 'nat * nat'))


def summarise(rec):
    h = rec['history']
    return {'cfg': rec['cfg'], 'outcome': rec['outcome'],
            'generations': [(g['label'], len(g['members'])) for g in h['generations']],
            'archive_sizes': [len(a) for a in h['archive']],
            'result': rec['result']}


def configs(ctx):
    rng = ctx.rng
    n = ctx.budget(20, 400)
    kinds = list(optrun.OPTIMISERS)
    out = []
    for i in range(n):
        cfg = optrun.random_config(rng, optimiser=kinds[i % len(kinds)])
        if i % 5 == 2:
            cfg['objective']['faults'] = {'by_class': [rng.choice([3, 4]), rng.randrange(3), rng.choice(['raise', 'none', 'nan'])]}
        if i % 6 == 4:   # many trade-off points: exercises the Pareto capacity
            cfg['objective'] = {'metrics': ['size', 'neg_size', 'label'][:rng.choice([2, 3])], 'multi': True}
            cfg['keep_n_best'] = 1
        out.append(cfg)
    for j in range(ctx.budget(4, 30)):
        out.append(optrun.collapse_config(rng, optimiser=['evo', 'surrogate', 'pop_random_mutation'][j % 3]))
    for j in range(ctx.budget(4, 30)):
        out.append(optrun.strict_rule_config(rng, optimiser=['evo', 'pop_random_mutation'][j % 2]))
    for j in range(ctx.budget(4, 20)):
        out.append(optrun.invalid_initial_config(rng))
    for j in range(ctx.budget(4, 24)):
        out.append(optrun.rerun_config(rng))
    for j in range(ctx.budget(4, 24)):
        out.append(optrun.failing_start_config(rng))
    # parents passing through reproduction unchanged while (almost) every fresh graph fails evaluation
    for j in range(ctx.budget(6, 36)):
        out.append(optrun.passthrough_config(rng))
    # almost every evaluation fails after the start; a metric that re-seeds the global generators
    for j in range(ctx.budget(5, 30)):
        out.append(optrun.lucky_few_config(rng))
    for j in range(ctx.budget(6, 30)):
        out.append(optrun.reseeding_metric_config(rng))
    # objective values of large magnitude with small differences
    for j in range(ctx.budget(4, 24)):
        out.append(optrun.magnitude_config(rng))
    # container-valued node parameters edited in place by a user mutation
    for j in range(ctx.budget(3, 16)):
        out.append(optrun.container_params_config(rng))
    # user subclasses of the verifier / of the fitness class
    for j in range(ctx.budget(4, 20)):
        out.append(optrun.subclass_config(rng))
    # non-default decremental regularization with a rule that sub-graphs can violate
    for j in range(ctx.budget(4, 20)):
        out.append(optrun.regularization_config(rng))
    return out


def run(ctx):
    ctx.rule = ('real runs of the five optimiser classes over random configurations (scheme, elitism, selection, operator sets, '
                'single/multi objective incl. negated and plateau metrics, keep_n_best, sizes, generation limits, partially failing '
                'objectives, initial graphs, seeds); one case = one run (recorded generations, archive snapshots, result); distinct = '
                'distinct configuration; non-trivial = at least 2 evolved generations and the archive changed after generation 0')
    ctx.trusted_extra = ['the evolve step (which populations are produced) is an oracle: the model replays the recorded populations',
                         'graph equality classes are taken from graph.descriptive_id (property C13)',
                         'archive / keeper model and its theorems: property C08']
    cases, meta = [], []
    for cfg in configs(ctx):
        rec = optrun.run_config(cfg)
        if rec['outcome'] != 'ok':
            ctx.violate('runs', {'cfg': cfg, 'outcome': rec['outcome'], 'exception': rec.get('exception')},
                        'optimise raised %s on a fault-free or partially failing objective' % rec['outcome'])
            continue
        cases.append(run_to_coq(rec))
        meta.append(rec)
        h = rec['history']
        evolved = sum(1 for g in h['generations'] if g['label'] == '')
        changed = len({tuple(a) for a in h['archive']}) > 1
        ctx.count('runs', key=json.dumps(cfg, sort_keys=True), nontrivial=(evolved >= 2 and changed),
                  optimiser=cfg['optimiser'], multi=bool(cfg['objective'].get('multi')), keep_n_best=cfg.get('keep_n_best', 1),
                  evolved_generations=min(evolved, 6), result_size=min(len(rec['result']), 6))
    if meta:   # canary: drop the first returned graph
        bad = json.loads(json.dumps(meta[0]))
        bad['result'] = bad['result'] + bad['result'][:1]
        cases.append(run_to_coq(bad))
        ctx.canaries += 1
    res = ctx.coq_cases('runs', REQ, FN, cases, 3, shard=6)
    if meta and not res[-1][0] and not res[-1][1]:
        ctx.canaries_caught += 1
    for rec, (ag, ho, cap) in zip(meta, res):
        if not ho:
            ctx.violate('runs', summarise(rec), 'returned graphs are not the best recorded ones (final archive / last generation / '
                        'verifier / size / better or dominating recorded individual)',
                        finding_key=('C01.pareto-capacity-evicted-dominator' if cap else None))
        if not ag:
            ctx.disagree('runs', summarise(rec), 'archive snapshots or result differ from the model replay')
    for rec in meta[:3]:
        ctx.sample(summarise(rec))


def replay(ctx, payload):
    v = payload.get('violation') or payload.get('first_disagreement') or {}
    cfg = (v.get('case') or {}).get('cfg')
    if not cfg:
        return
    rec = optrun.run_config(cfg)
    if rec['outcome'] != 'ok':
        ctx.violate('replay', {'cfg': cfg, 'outcome': rec['outcome']}, 'optimise raised')
        return
    res = ctx.coq_cases('replay', REQ, FN, [run_to_coq(rec)], 3)
    ctx.count('replay', key=json.dumps(cfg, sort_keys=True), nontrivial=True)
    if not res[0][1]:
        ctx.violate('replay', summarise(rec), 'returned graphs are not the best recorded ones')
    if not res[0][0]:
        ctx.disagree('replay', summarise(rec), 'archive snapshots or result differ from the model replay')
