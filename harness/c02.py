"""C02 - variation operators never alter parents and emit only verified offspring.
Implementation: golem.core.optimisers.genetic.operators.mutation.Mutation / crossover.Crossover
(the operator wrappers), ParentOperator, Individual.
Model: coq/theories/Evo/Variation.v (agree_mut / agree_cross / holds_mut / holds_cross).

One case = one call of a real operator on a population.  Everything reachable from the population
(individuals, parent operators, graph objects, node objects) is numbered by object identity and
snapshotted before and after the call; the outputs are numbered in the same space, so that "is an
input object", "is a new object" and "shares a node object" are facts about indices.  The choices
the operator made are inferred from what the configured verifier was asked (a recording rule of
ours), from what our own operator agent / crossover callables were asked, and from the outputs."""
import hashlib
import itertools
import os
import random
import signal
import traceback
from copy import deepcopy

import numpy as np

from common import c_bool, c_opt
from common import c_str as _c_str

from golem.core.adapter import DirectAdapter, register_native
from golem.core.dag.graph_verifier import GraphVerifier
from golem.core.dag.verification_rules import DEFAULT_DAG_RULES, has_root, has_no_cycle, has_one_root
from golem.core.optimisers.adaptive.context_agents import ContextAgentTypeEnum
from golem.core.optimisers.adaptive.operator_agent import RandomAgent, MutationAgentTypeEnum
from golem.core.optimisers.genetic.gp_params import GPAlgorithmParameters
from golem.core.optimisers.genetic.operators.base_mutations import MutationTypesEnum, MutationStrengthEnum
from golem.core.optimisers.genetic.operators import crossover as crossover_module
from golem.core.optimisers.genetic.operators.crossover import Crossover, CrossoverTypesEnum
from golem.core.optimisers.genetic.operators.mutation import Mutation
from golem.core.optimisers.graph import OptGraph, OptNode
from golem.core.optimisers.opt_history_objects.individual import Individual, GraphEvalResult
from golem.core.optimisers.optimization_parameters import GraphRequirements
from golem.core.optimisers.optimizer import GraphGenerationParams
from golem.core.optimisers.random_graph_factory import RandomGrowthGraphFactory
from golem.core.optimisers.opt_node_factory import DefaultOptNodeFactory
from golem.core.optimisers.fitness import SingleObjFitness

try:        # the bandit agents fit tiny KMeans models: one BLAS / OpenMP thread is 100x cheaper on a shared machine
    from threadpoolctl import threadpool_limits
    threadpool_limits(1)
except Exception:
    pass

REQ = ['Evo.Variation']
# the case files open nat_scope / string_scope, so literals need no scope delimiters (much cheaper to elaborate)
CASE_TY = {'mutation': 'config * list (list cnode * bool) * list (list cnode) * list mchoice * observation',
           'crossover': 'config * list (list cnode * bool) * list (list (list cnode)) * list xchoice * observation'}


NCONST = 300
_STRS = {}          # string constants used by the terms printed so far: name -> text


def c_nat(n):
    """numbers below NCONST are printed as constants n<k> defined in the preamble, strings as constants named by a
    hash of their text: coqc elaborates identifiers several times faster than numeral / string notations"""
    assert isinstance(n, int) and 0 <= n < 100000, n
    return 'n%d' % n if n < NCONST else str(n)


def preamble(strs):
    out = ['Local Open Scope nat_scope.']
    out += ['Definition n%d : nat := %d.' % (k, k) for k in range(NCONST)]
    out += ['Definition %s : string := %s.' % (name, _c_str(text)) for name, text in sorted(strs.items())]
    return '\n'.join(out)


def c_list(items, ty=None):
    """explicit cons / nil: the [ ; ] notation costs coqc ~20x more time to elaborate on large terms"""
    out = '(@nil %s)' % ty if ty else 'nil'
    for x in reversed(list(items)):
        out = '(cons %s %s)' % (x, out)
    return out


def c_str(x):
    _c_str(x)       # (checks that the text is printable)
    name = 's_' + hashlib.sha1(x.encode()).hexdigest()[:12]
    _STRS[name] = x
    return name

NODE_TYPES = ['a', 'b', 'c', 'd']
MUT_TYPES = [m.name for m in MutationTypesEnum]          # the 10 built-in types
CROSS_TYPES = [c.name for c in CrossoverTypesEnum]       # the 7 built-in types
WORKERS = 4
BATCH = 3000


# ----------------------------------------------------------------------------------------
# user-supplied pieces (ours): rules, mutation functions, crossover callables, domain classes
# ----------------------------------------------------------------------------------------
def rule_max3parents(graph):
    return all(len(n.nodes_from) <= 3 for n in graph.nodes)


def rule_max6nodes(graph):
    if len(graph.nodes) > 6:
        raise ValueError('too many nodes')      # rules may signal failure by raising ValueError
    return True


def rule_no_b_sink(graph):
    return not any(str(n.content.get('name')) == 'b' for n in graph.root_nodes())


RULESETS = {
    'default': list(DEFAULT_DAG_RULES),
    'accept_all': [],
    'root_acyclic': [has_root, has_no_cycle],
    'one_root': list(DEFAULT_DAG_RULES) + [has_one_root],
    'custom': list(DEFAULT_DAG_RULES) + [rule_max3parents, rule_max6nodes, rule_no_b_sink],
    'reject_all': [lambda graph: False],
}


class DomainNode(OptNode):
    pass


class DomainGraph(OptGraph):
    pass


class HookGraph(OptGraph):
    """user graph class whose nodes-postprocessing hook is one of its own BOUND methods (stateful): every structural
    edit of THIS graph bumps its revision, is journalled, and renumbers its nodes (param 'pos')"""

    def __init__(self, nodes=()):
        super().__init__(nodes, postprocess_nodes=self._renumber)
        self.revision = 0
        self.journal = []

    def _renumber(self, graph, nodes):
        self.revision += 1
        self.journal.append(len(self.nodes))
        for pos, node in enumerate(self.nodes):
            node.content['params'] = {'pos': pos}

    def hook_state(self):
        return (self.revision, tuple(self.journal))


class _StateCell:
    """the observable state of a graph object's hook, snapshotted like a node object that belongs to the graph
    (it is not listed in graph.nodes): label '#hook-state', params = the state"""

    def __init__(self, graph):
        self.graph = graph
        self.uid = '#hook-state-%d' % id(graph)
        self.nodes_from = []

    @property
    def name(self):
        return '#hook-state'

    @property
    def content(self):
        return {'name': '#hook-state', 'state': self.graph.hook_state()}


_MLOG = []          # which of our native mutation callables was called


def _rng_node(graph):
    return random.choice(graph.nodes)


# native user mutations (receive the optimisation graph itself)
@register_native
def um_add_leaf(graph, **kwargs):
    _MLOG.append(um_add_leaf)
    n = _rng_node(graph)
    new = OptNode(random.choice(NODE_TYPES))
    graph.add_node(new)
    n.nodes_from.append(new)
    return graph


@register_native
def um_identity(graph, **kwargs):
    _MLOG.append(um_identity)
    return graph


@register_native
def um_relabel(graph, **kwargs):
    _MLOG.append(um_relabel)
    n = _rng_node(graph)
    n.content = dict(n.content, name=random.choice(NODE_TYPES))
    return graph


@register_native
def um_rebuild(graph, **kwargs):
    _MLOG.append(um_rebuild)
    """returns a NEW graph object (rebuilt copy plus a new sink on top of a random node)"""
    g2 = deepcopy(graph)
    top = OptNode(random.choice(NODE_TYPES), nodes_from=[random.choice(g2.nodes)])
    return OptGraph(list(g2.nodes) + [top])


@register_native
def um_self_loop(graph, **kwargs):
    _MLOG.append(um_self_loop)
    """always invalid for rule sets that forbid cycles"""
    n = _rng_node(graph)
    n.nodes_from.append(n)
    return graph


# domain-level user mutation (not registered native: the adapter restores / adapts around it)
def um_domain_add_leaf(graph, **kwargs):
    assert isinstance(graph, DomainGraph), type(graph)
    n = random.choice(graph.nodes)
    new = DomainNode(random.choice(NODE_TYPES))
    graph.add_node(new)
    n.nodes_from.append(new)
    return graph


def um_domain_identity(graph, **kwargs):
    return graph


_MLOG_FUNCS = (um_add_leaf, um_identity, um_relabel, um_rebuild, um_self_loop)
USER_MUT = {f.__name__: f for f in (um_add_leaf, um_identity, um_relabel, um_rebuild, um_self_loop,
                                    um_domain_add_leaf, um_domain_identity)}
NATIVE_USER_MUT = ['um_add_leaf', 'um_identity', 'um_relabel', 'um_rebuild', 'um_self_loop']
DOMAIN_USER_MUT = ['um_domain_add_leaf', 'um_domain_identity']

_XLOG = []          # which of our crossover callables was called (observation of choice(crossover_types))


def _wrap_cross(name):
    inner = getattr(crossover_module, name + '_crossover')

    @register_native
    def fn(graph_first, graph_second, max_depth=None, **kwargs):
        _XLOG.append(fn)
        return inner(graph_first, graph_second, max_depth=max_depth)
    fn.__name__ = 'uc_' + name
    return fn


@register_native
def uc_swap(graph_first, graph_second, max_depth=None, **kwargs):
    """user crossover: children are the copies in swapped order"""
    _XLOG.append(uc_swap)
    return graph_second, graph_first


USER_CROSS = {'uc_' + n: _wrap_cross(n) for n in ('subtree', 'one_point', 'exchange_edges', 'exchange_parents_one',
                                                  'exchange_parents_both', 'subgraph')}
USER_CROSS['uc_swap'] = uc_swap


def _importable(mod):
    try:
        __import__(mod)
        return True
    except Exception:
        return False


# every adaptive_mutation_type x context_agent_type the repository offers; what cannot work offline is skipped:
# neural_bandit needs torch, feather_graph needs karateclub; none_encoding hands the graph itself to the bandit
# as a context (it is meant for pre-encoded observations) and raises TypeError with contextual agents
AGENT_TYPES = [a.name for a in MutationAgentTypeEnum if a.name != 'neural_bandit' or _importable('torch')]
if not _importable('mabwiser'):
    AGENT_TYPES = [a for a in AGENT_TYPES if a in ('default', 'random')]
CONTEXT_TYPES = [c.name for c in ContextAgentTypeEnum
                 if c.name != 'none_encoding' and (c.name != 'feather_graph' or _importable('karateclub'))]
CONTEXT_FREE = ('default', 'random', 'bandit')      # agents that never look at the context encoder
SKIPPED_AGENT_COMBOS = sorted(set(a.name for a in MutationAgentTypeEnum) - set(AGENT_TYPES)) + \
    sorted(set(c.name for c in ContextAgentTypeEnum) - set(CONTEXT_TYPES))


class RecordingAgent(RandomAgent):
    """operator agent of ours: draws like RandomAgent and remembers what it drew"""

    def __init__(self, actions):
        super().__init__(actions, enable_logging=False)
        self.drawn = []

    def choose_action(self, obs):
        idx = random.randrange(len(self.actions))
        self.drawn.append(idx)
        return self.actions[idx]


# ----------------------------------------------------------------------------------------
# graphs
# ----------------------------------------------------------------------------------------
def build_graph(par, names, cls=OptGraph, ncls=OptNode):
    nodes = [ncls(names[i]) for i in range(len(par))]
    for i, ps in enumerate(par):
        nodes[i].nodes_from = [nodes[p] for p in ps]
    g = cls()
    g.nodes = list(nodes)      # listing order = index order (add_node would re-order)
    return g


def all_dags(n):
    """every labelled DAG on n nodes (parent lists ascending)"""
    rows = [[p for p in range(n) if m >> p & 1] for m in range(1 << n)]

    def acyclic(par):
        state = [0] * n

        def visit(v):
            if state[v] == 1:
                return False
            if state[v] == 2:
                return True
            state[v] = 1
            ok = all(visit(p) for p in par[v])
            state[v] = 2
            return ok
        return all(visit(v) for v in range(n))

    def rec(i, par):
        if i == n:
            if acyclic(par):
                yield [list(ps) for ps in par]
            return
        for r in rows:
            if i in r:
                continue
            par.append(r)
            yield from rec(i + 1, par)
            par.pop()
    yield from rec(0, [])


_PLAIN_DEFAULT = GraphVerifier(list(DEFAULT_DAG_RULES))
_VALID_CACHE = {}


def valid_dags(n):
    """all DAGs on exactly n nodes that pass the default rules (names a, b, c, d by index)"""
    if n not in _VALID_CACHE:
        out = []
        for par in all_dags(n):
            if _PLAIN_DEFAULT(build_graph(par, NODE_TYPES[:n])):
                out.append(par)
        _VALID_CACHE[n] = out
    return _VALID_CACHE[n]


def random_dag(r, n):
    perm = list(range(n))
    r.shuffle(perm)
    par = [[] for _ in range(n)]
    kind = r.choice(['dense', 'sparse', 'tree', 'chain', 'layers'])
    if kind in ('dense', 'sparse'):
        dens = 0.6 if kind == 'dense' else 0.25
        for a in range(n):
            for b in range(a + 1, n):
                if r.random() < dens:
                    par[perm[a]].append(perm[b])
    elif kind == 'tree':
        for a in range(1, n):
            par[perm[r.randrange(a)]].append(perm[a])
    elif kind == 'chain':
        for a in range(n - 1):
            par[perm[a]].append(perm[a + 1])
    else:
        w = r.choice([2, 3])
        layers = [perm[i:i + w] for i in range(0, n, w)]
        for la, lb in zip(layers, layers[1:]):
            for a in la:
                for b in lb:
                    if r.random() < 0.7:
                        par[a].append(b)
    for ps in par:
        r.shuffle(ps)
    return par


def random_valid_spec(r, rules_verifier, max_n=10):
    """(par, names) of a random DAG accepted by the given verifier"""
    for _ in range(200):
        n = r.choice([1, 2, 3, 4, 5, 5, 6, 6, 7, 8, 9, 10][:max(1, min(12, max_n + 2))])
        n = min(n, max_n)
        par = random_dag(r, n)
        names = [r.choice(NODE_TYPES) for _ in range(n)]
        if rules_verifier(build_graph(par, names)):
            return par, names
    return [[]], ['a']


def same_size_trees(r, rules_verifier, n, count):
    """`count` random trees on n nodes (n - 1 edges each), nodes listed in a random order"""
    out = []
    tries = 0
    while len(out) < count:
        tries += 1
        perm = list(range(n))
        r.shuffle(perm)
        par = [[] for _ in range(n)]
        for a in range(1, n):
            par[perm[r.randrange(a)]].append(perm[a])
        names = [r.choice(NODE_TYPES) for _ in range(n)]
        if rules_verifier(build_graph(par, names)) or tries > 2000:
            out.append((par, names))
    return out


# ----------------------------------------------------------------------------------------
# operators under test
# ----------------------------------------------------------------------------------------
class Recorder:
    """the rule handed to the configured verifier: evaluates the real rule set and remembers what
    it was asked and what it answered"""

    def __init__(self, rules, adapter=None):
        self.inner = GraphVerifier(rules, adapter)
        self.calls = []            # (graph content with raw uids, verdict)
        rec = self

        @register_native
        def recording_rule(graph):
            v = bool(rec.inner(graph))
            rec.calls.append((raw_content(graph), v, eq_key(graph)))
            return v
        self.rule = recording_rule


def eq_key(graph):
    """what LinkedGraph.__eq__ compares (used only to choose between otherwise equally good explanations of the
    verifier log; the model computes equality itself)"""
    try:
        return frozenset(rn.descriptive_id for rn in graph.root_nodes())
    except Exception:
        return None


def raw_content(graph):
    ns = list(graph.nodes)
    pos = {}
    for i, n in enumerate(ns):
        pos.setdefault(id(n), i)
    return [(n.uid, label_of(n), params_of(n), [pos.get(id(p), len(ns)) for p in n.nodes_from]) for n in ns]


def label_of(n):
    return n.name


def params_of(n):
    rest = sorted((str(k), repr(v)) for k, v in n.content.items() if k != 'name' and not (k == 'params' and not v))
    return repr(rest) if rest else ''


class _Spy:
    def __init__(self):
        self.drawn = []


def spy_on_agent(agent, types):
    """the repository's own agent (built by Mutation from the enum value), with choose_action of THIS instance
    wrapped so that the drawn type is known"""
    spy = _Spy()
    orig = agent.choose_action

    def choose_action(obs):
        a = orig(obs)
        spy.drawn.append(next((k for k, t in enumerate(types) if t is a or t == a), None))
        return a
    agent.choose_action = choose_action
    return spy


def make_env(cfg):
    """builds (operator, recorder, plain verifier, type table, agent) for a config dict"""
    domain = cfg.get('domain', False)
    adapter = DirectAdapter(DomainGraph, DomainNode) if domain else None
    rules = RULESETS[cfg['rules']]
    rec = Recorder(rules, adapter)
    node_factory = DefaultOptNodeFactory(NODE_TYPES)
    plain = GraphVerifier(rules, adapter)
    gg = GraphGenerationParams(adapter=adapter, rules_for_constraint=[rec.rule], node_factory=node_factory,
                               random_graph_factory=RandomGrowthGraphFactory(
                                   GraphVerifier(RULESETS['default'], adapter) if cfg['rules'] == 'reject_all' else plain,
                                   node_factory))
    req_kw = {}
    if 'static_meta' in cfg:    # static_individual_metadata: dict - also an EMPTY dict or a user's own dict
        req_kw['static_individual_metadata'] = dict(cfg['static_meta'])
    req = GraphRequirements(max_depth=cfg['max_depth'], max_arity=cfg['max_arity'], **req_kw)
    agent = None
    if cfg['op'] == 'mutation':
        types = [MutationTypesEnum[t] if t in MUT_TYPES else USER_MUT[t] for t in cfg['types']]
        table = [(t.__name__, t is MutationTypesEnum.none) for t in types]
        kw = {}
        if cfg.get('agent_type'):
            kw['adaptive_mutation_type'] = MutationAgentTypeEnum[cfg['agent_type']]
            kw['context_agent_type'] = ContextAgentTypeEnum[cfg.get('context', 'nodes_num')]
        elif cfg.get('agent'):
            agent = RecordingAgent(types)
            kw['adaptive_mutation_type'] = agent
        par = GPAlgorithmParameters(mutation_types=types, mutation_prob=cfg['prob'],
                                    max_num_of_operator_attempts=cfg['attempts'],
                                    variable_mutation_num=cfg.get('variable', True),
                                    mutation_strength=MutationStrengthEnum[cfg.get('strength', 'mean')], **kw)
        op = Mutation(par, req, gg)
        if cfg.get('agent_type'):
            agent = spy_on_agent(op.agent, types)
    else:
        types = [CrossoverTypesEnum[t] if t in CROSS_TYPES else USER_CROSS[t] for t in cfg['types']]
        table = [(str(t), t is CrossoverTypesEnum.none) for t in types]
        kw = {}
        if cfg.get('agent_type'):      # no effect on Crossover; passed to show it
            kw['adaptive_mutation_type'] = MutationAgentTypeEnum[cfg['agent_type']]
            kw['context_agent_type'] = ContextAgentTypeEnum[cfg.get('context', 'nodes_num')]
        par = GPAlgorithmParameters(crossover_types=types, crossover_prob=cfg['prob'],
                                    max_num_of_operator_attempts=cfg['attempts'], **kw)
        op = Crossover(par, req, gg)
    return op, rec, plain, table, agent, types


# ----------------------------------------------------------------------------------------
# identity-based snapshots
# ----------------------------------------------------------------------------------------
class World:
    """numbers node / graph / individual / parent-operator objects by identity, in discovery order"""

    def __init__(self):
        self.nodes, self.graphs, self.inds, self.ops = [], [], [], []
        self.nid, self.gid, self.iid, self.oid = {}, {}, {}, {}
        self.cells = []
        self.uids, self.iuids, self.fits = {}, {}, {}
        static = GraphRequirements().static_individual_metadata
        self.fresh_meta = {repr([]), repr(sorted((str(k), repr(v)) for k, v in static.items()))}

    def node(self, n):
        k = id(n)
        if k not in self.nid:
            self.nid[k] = len(self.nodes)
            self.nodes.append(n)
            for p in list(n.nodes_from):
                self.node(p)
        return self.nid[k]

    def graph(self, g):
        k = id(g)
        if k not in self.gid:
            self.gid[k] = len(self.graphs)
            self.graphs.append(g)
            for n in list(g.nodes):
                self.node(n)
            if hasattr(g, 'hook_state'):
                cell = _StateCell(g)
                self.cells.append(cell)         # (kept alive)
                self.node(cell)
        return self.gid[k]

    def op(self, po):
        k = id(po)
        if k not in self.oid:
            self.oid[k] = len(self.ops)
            self.ops.append(po)
            for p in po.parent_individuals:
                self.ind(p)
        return self.oid[k]

    def ind(self, i):
        k = id(i)
        if k not in self.iid:
            self.iid[k] = len(self.inds)
            self.inds.append(i)
            self.graph(i.graph)
            if i.parent_operator is not None:
                self.op(i.parent_operator)
        return self.iid[k]

    def sweep(self):
        """discover objects that became reachable from known ones"""
        n0 = -1
        while n0 != len(self.nodes) + len(self.graphs) + len(self.inds) + len(self.ops):
            n0 = len(self.nodes) + len(self.graphs) + len(self.inds) + len(self.ops)
            for i in list(self.inds):
                self.graph(i.graph)
                if i.parent_operator is not None:
                    self.op(i.parent_operator)
            for g in list(self.graphs):
                for n in list(g.nodes):
                    self.node(n)
            for n in list(self.nodes):
                for p in list(n.nodes_from):
                    self.node(p)
            for po in list(self.ops):
                for p in po.parent_individuals:
                    self.ind(p)

    def num(self, table, key):
        return table.setdefault(key, len(table))

    def fit_token(self, i):
        """token of the remaining fields of an Individual: fitness, native_generation, metadata; 0 = what a fresh
        individual carries (null fitness, no generation, no metadata or the static metadata of the requirements)"""
        f = i.fitness
        meta = repr(sorted((str(k), repr(v)) for k, v in i.metadata.items()))
        if not f.valid and i.native_generation is None and meta in self.fresh_meta:
            return 0
        key = (repr(tuple(getattr(f, 'values', ()))), i.native_generation, meta)
        return 1 + self.num(self.fits, key)

    def read(self):
        """the store as it is now: (nodes, graphs, inds) over the current numbering"""
        self.sweep()
        nodes = [(self.num(self.uids, n.uid), label_of(n), params_of(n), [self.nid[id(p)] for p in n.nodes_from])
                 for n in self.nodes]
        graphs = [[self.nid[id(n)] for n in g.nodes] for g in self.graphs]
        inds = []
        for i in self.inds:
            po = i.parent_operator
            pod = None
            if po is not None:
                pod = (self.oid[id(po)], str(po.type_), [str(x) for x in po.operators],
                       [self.iid[id(p)] for p in po.parent_individuals])
            inds.append((self.num(self.iuids, i.uid), self.gid[id(i.graph)], pod, self.fit_token(i)))
        return {'nodes': nodes, 'graphs': graphs, 'inds': inds}


def c_node(nd):
    u, l, p, ps = nd
    return '(mk_node %s %s %s %s)' % (c_nat(u), c_str(l), c_str(p), c_list([c_nat(x) for x in ps], 'nat'))


def c_po(po):
    i, k, names, ps = po
    return '(mk_po %s %s %s %s)' % (c_nat(i), c_str(k), c_list([c_str(x) for x in names], 'string'),
                                    c_list([c_nat(x) for x in ps], 'nat'))


def c_ind(ind, po_shift=0):
    u, g, po, f = ind
    return '(mk_ind %s %s %s %s)' % (c_nat(u), c_nat(g), c_opt(po, c_po, 'parent_operator'), c_nat(f))


def c_store(st, ctr):
    return '(mk_store (mk_mem %s %s) %s %s)' % (
        c_list([c_node(x) for x in st['nodes']], 'node'),
        c_list([c_list([c_nat(r) for r in g], 'nat') for g in st['graphs']], '(list nat)'),
        c_list([c_ind(x) for x in st['inds']], 'indiv'), c_nat(ctr))


def c_delta(before, after):
    def changed(key, pr, ty):
        b, a = before[key], after[key]
        return c_list(['(%s, %s)' % (c_nat(i), pr(a[i])) for i in range(len(b)) if a[i] != b[i]], '(nat * %s)%%type' % ty)
    c_g = lambda g: c_list([c_nat(r) for r in g], 'nat')
    return '(mk_delta %s %s %s %s %s %s)' % (
        changed('nodes', c_node, 'node'), changed('graphs', c_g, '(list nat)'), changed('inds', c_ind, 'indiv'),
        c_list([c_node(x) for x in after['nodes'][len(before['nodes']):]], 'node'),
        c_list([c_g(x) for x in after['graphs'][len(before['graphs']):]], '(list nat)'),
        c_list([c_ind(x) for x in after['inds'][len(before['inds']):]], 'indiv'))


def make_term(pc):
    obs = '(obs_of %s %s %s %s %s %s)' % (c_store(pc['before'], pc['ctr']), c_delta(pc['before'], pc['after']),
                                           c_list([c_nat(x) for x in pc['pop']], 'nat'), c_result(pc['res']),
                                           c_list([c_bool(v) for v in pc['verdicts']], 'bool'), pc['types_obs'])
    return '(%s, %s, %s, %s, %s)' % (pc['P'], pc['vt'], pc['ft'], pc['cs'], obs)


def c_content(c, uidnum):
    return c_list(['(%s, %s, %s, %s)' % (c_nat(uidnum(u)), c_str(l), c_str(p), c_list([c_nat(x) for x in ps], 'nat'))
                   for (u, l, p, ps) in c], 'cnode')


def c_result(res):
    if res[0] == 'single':
        return '(RSingle %s)' % c_nat(res[1])
    if res[0] == 'list':
        return '(RList %s)' % c_list([c_nat(x) for x in res[1]], 'nat')
    return 'RRaise'


# ----------------------------------------------------------------------------------------
# population construction from a JSON-serialisable spec
# ----------------------------------------------------------------------------------------
def seed_all(seed):
    random.seed(seed)
    np.random.seed(seed % (2 ** 31))


def make_population(spec):
    """spec['graphs']: list of {'par','names'}; spec['inds']: list of {'g': graph index, 'fit': float|None,
    'gen': int|None}; spec['pop']: list of indices into inds.
    spec['relatives'] (optional): {'ancestor': graph spec, 'steps': [...]} - individuals derived from
    one ancestor by earlier operator calls / deepcopy, so that their graphs share node uids."""
    cls, ncls = (HookGraph if spec.get('hook') else OptGraph, OptNode)
    if 'relatives' in spec:
        return make_relatives(spec)
    graphs = [build_graph(g['par'], g['names'], cls, ncls) for g in spec['graphs']]
    inds = []
    for d in spec['inds']:
        if d.get('meta') is not None:       # an individual with its OWN metadata dict (possibly empty)
            ind = Individual(graphs[d['g']], metadata=dict(d['meta']))
        else:
            ind = Individual(graphs[d['g']])
        if d.get('fit') is not None:
            ind.set_evaluation_result(SingleObjFitness(d['fit']))
        if d.get('gen') is not None:
            ind.set_native_generation(d['gen'])
        inds.append(ind)
    return [inds[k] for k in spec['pop']]


def make_relatives(spec):
    rel = spec['relatives']
    seed_all(rel['seed'])
    anc = Individual(build_graph(rel['ancestor']['par'], rel['ancestor']['names']))
    anc.set_native_generation(0)
    mcfg = {'op': 'mutation', 'types': rel.get('mut_types', ['single_add', 'single_edge', 'single_change', 'single_drop',
                                                              'simple', 'growth', 'reduce']),
            'prob': 1, 'attempts': 5, 'max_depth': 6, 'max_arity': 3,
            # the relatives must be valid DAGs AND pass the configured rules: weaker rule sets are replaced by the default one
            'rules': rel.get('rules') if rel.get('rules') in ('default', 'one_root', 'custom') else 'default'}
    xcfg = dict(mcfg, op='crossover', types=rel.get('cross_types', ['subtree', 'one_point', 'exchange_edges',
                                                                    'exchange_parents_one', 'exchange_parents_both',
                                                                    'subgraph']))
    mop = make_env(mcfg)[0]
    xop = make_env(xcfg)[0]
    pool = [anc]
    for step in rel['steps']:
        kind = step[0]
        try:
            if kind == 'copy':          # a plain copy of a graph in a new individual (e.g. loaded twice)
                pool.append(Individual(deepcopy(pool[step[1] % len(pool)].graph)))
            elif kind == 'mut':
                out = mop(pool[step[1] % len(pool)])
                if isinstance(out, Individual):
                    pool.append(out)
            elif kind == 'cross':
                a, b = pool[step[1] % len(pool)], pool[step[2] % len(pool)]
                out = xop([a, b])
                pool.extend(o for o in out if o is not a and o is not b)
        except Exception:       # the helper operators are not what is being checked here
            pass
    if len(pool) < 2:
        pool.append(Individual(deepcopy(anc.graph)))
    return [pool[k % len(pool)] for k in spec['pop']]


# ----------------------------------------------------------------------------------------
# one case
# ----------------------------------------------------------------------------------------
class Inconsistent(Exception):
    pass


def infer_mutation(pop_irefs, outs, new_info, calls, max_attempts, drawn, table, parent_keys):
    """Find per-position choices (applied?, verifier calls consumed, outcome) explaining outputs and
    verifier log.  new_info: iref -> (parents irefs, graph content) for new outputs.
    Returns a list of dicts per position, or None."""
    n = len(pop_irefs)

    def take(ci):
        """consume calls of one applied position starting at ci: returns (next ci, contents, verdicts, accepted)"""
        cs = []
        k = ci
        while k < len(calls) and len(cs) < max_attempts:
            cs.append(calls[k])
            k += 1
            if cs[-1][1]:
                return k, cs, True
        if len(cs) == max_attempts:
            return k, cs, False
        return None

    def rec(pos, oi, ci):
        if pos == n:
            return [] if (oi == len(outs) and ci == len(calls)) else None
        p = pop_irefs[pos]
        is_none = drawn[pos] is not None and table[drawn[pos]][1]
        # (A) not applied: returned as is, no verifier call
        if oi < len(outs) and outs[oi] == p:
            r = rec(pos + 1, oi + 1, ci)
            if r is not None:
                return [{'applied': False, 'calls': []}] + r
        if is_none:
            return None
        t = take(ci)
        if t is None:
            return None
        k, cs, accepted = t
        if accepted:
            # (B) new individual kept
            if oi < len(outs) and outs[oi] in new_info and new_info[outs[oi]][0] == [p] \
                    and new_info[outs[oi]][1] == cs[-1][0] and cs[-1][2] != parent_keys[pos]:
                r = rec(pos + 1, oi + 1, k)
                if r is not None:
                    return [{'applied': True, 'calls': cs}] + r
            # (C) accepted but equal to the parent graph: dropped
            if cs[-1][2] == parent_keys[pos]:
                r = rec(pos + 1, oi, k)
                if r is not None:
                    return [{'applied': True, 'calls': cs}] + r
            return None
        # (D) every attempt rejected: dropped
        r = rec(pos + 1, oi, k)
        if r is not None:
            return [{'applied': True, 'calls': cs}] + r
        return None
    return rec(0, 0, 0)


def infer_crossover(pairs, outs, new_info, calls, max_attempts, drawn, table, same_graph):
    n = len(pairs)

    def take(ci):
        """attempts of one applied pair: each attempt = [F] | [T,F] | [T,T]"""
        atts = []
        k = ci
        while len(atts) < max_attempts:
            if k >= len(calls):
                return None
            if not calls[k][1]:
                atts.append([calls[k]])
                k += 1
                continue
            if k + 1 >= len(calls):
                return None
            atts.append([calls[k], calls[k + 1]])
            k += 2
            if atts[-1][1][1]:
                return k, atts, True
        return k, atts, False

    def rec(pos, ci):
        if pos == n:
            return [] if ci == len(calls) else None
        p1, p2 = pairs[pos]
        o1, o2 = outs[2 * pos], outs[2 * pos + 1]
        is_none = drawn[pos] is not None and table[drawn[pos]][1]
        as_is = (o1 == p1 and o2 == p2)
        if as_is:
            r = rec(pos + 1, ci)
            if r is not None:
                return [{'applied': False, 'atts': []}] + r
        if is_none or same_graph[pos]:
            return None
        t = take(ci)
        if t is None:
            return None
        k, atts, accepted = t
        if accepted:
            if o1 in new_info and o2 in new_info and new_info[o1][1] == atts[-1][0][0] \
                    and new_info[o2][1] == atts[-1][1][0]:
                r = rec(pos + 1, k)
                if r is not None:
                    return [{'applied': True, 'atts': atts}] + r
            return None
        if as_is:
            r = rec(pos + 1, k)
            if r is not None:
                return [{'applied': True, 'atts': atts}] + r
        return None
    return rec(0, 0)


def run_case(spec, env=None):
    """runs one operator call; returns a dict with the Coq term and the facts for the evidence.
    env: an operator environment that is re-used (sequences of calls on ONE operator object)"""
    cfg = spec['cfg']
    _STRS.clear()
    pop = make_population(spec)
    op, rec, plain, table, agent, types = env if env is not None else make_env(cfg)
    del _XLOG[:]
    del _MLOG[:]
    del rec.calls[:]
    if agent is not None:
        del agent.drawn[:]
    w = World()
    if 'static_meta' in cfg:    # what a fresh individual carries under these requirements
        w.fresh_meta.add(repr(sorted((str(k), repr(v)) for k, v in cfg['static_meta'].items())))
    for i in pop:
        w.ind(i)
    before = w.read()
    n_in = len(before['inds'])
    pop_irefs = [w.iid[id(i)] for i in pop]
    seed_all(spec['seed'])
    raised = None
    arg = pop
    if cfg['op'] == 'mutation' and spec.get('bare') and len(pop) == 1:
        arg = pop[0]                       # Mutation accepts a bare Individual
    try:
        out = op(arg)
    except Exception as ex:     # noqa
        raised = '%s: %s' % (type(ex).__name__, ex)
        out = None
    # ---- outputs
    if raised is not None:
        outs_obj, res = [], ('raise',)
    elif isinstance(out, Individual):
        outs_obj = [out]
    else:
        outs_obj = list(out)
    out_irefs = [w.ind(o) for o in outs_obj]
    after = w.read()
    if spec.get('evaluate_new'):
        # the ordinary next step of an optimiser: every NEW individual is evaluated (fitness + result metadata).  An
        # input individual that shares state with its offspring is altered by this step; the objects that existed
        # before the call are therefore read once more AFTER the evaluation (the new objects stay as the operator
        # returned them, so that the model is compared with the operator alone)
        for k, (o, ir) in enumerate(zip(outs_obj, out_irefs)):
            if ir >= n_in and not o.fitness.valid:
                o.set_evaluation_result(GraphEvalResult(o.uid, SingleObjFitness(float(k)), o.graph,
                                                        metadata={'evaluated_as_child': k}))
        later = w.read()
        for key in ('nodes', 'graphs', 'inds'):
            after[key][:len(before[key])] = later[key][:len(before[key])]
    if raised is None:
        res = ('single', out_irefs[0]) if isinstance(out, Individual) else ('list', out_irefs)
    verdicts = [bool(plain(o.graph)) for o in outs_obj]
    # ---- python-side deep comparison of raw content dicts (beyond name / params strings)
    ctr = 1 + max([0] + [x[0] for x in after['inds']] + [x[2][0] for x in after['inds'] if x[2] is not None])
    uidnum = lambda u: w.num(w.uids, u)
    # ---- choices
    new_info = {}
    for o, ir in zip(outs_obj, out_irefs):
        if ir >= n_in:
            po = o.parent_operator
            ps = [w.iid[id(p)] for p in po.parent_individuals] if po is not None else None
            new_info[ir] = (ps, raw_content(o.graph))
    calls = rec.calls
    max_attempts = cfg['attempts']
    facts = {'agent': ('%s/%s' % (cfg['agent_type'], cfg.get('context'))) if cfg.get('agent_type') else ('recording' if cfg.get('agent') else 'default'),
             'op': cfg['op'], 'rules': cfg['rules'], 'stream': spec.get('stream', '?'), 'raised': raised,
             'n_pop': len(pop), 'n_new': len(new_info), 'n_calls': len(calls)}
    vt = {}
    for c, v, _k in calls:
        key = repr(c)
        if key in vt and vt[key][1] != v:
            facts['verifier_nondeterministic'] = True
        vt.setdefault(key, (c, v))
    vt_coq = c_list(['(%s, %s)' % (c_content(c, uidnum), c_bool(v)) for c, v in vt.values()], '(list cnode * bool)%type')
    P = '(mk_config %s %s)' % (c_nat(max_attempts), c_list(['(%s, %s)' % (c_str(nm), c_bool(nn)) for nm, nn in table],
                                                           '(string * bool)%type'))
    choice_ok = True
    if cfg['op'] == 'mutation':
        if agent is not None:
            drawn = list(agent.drawn) + [None] * (len(pop) - len(agent.drawn))
        else:
            drawn = [0 if len(types) == 1 else None] * len(pop)
        parent_keys = [eq_key(i.graph) for i in pop]
        sol = None if raised is not None else infer_mutation(pop_irefs, out_irefs, new_info, calls, max_attempts,
                                                             drawn, table, parent_keys)
        ft, cs = [], []
        if sol is None:
            choice_ok = raised is not None
            sol = [{'applied': False, 'calls': []}] * len(pop)
        # our own native mutation callables tell which function produced every attempt: it must be the drawn type
        if types and all(t in _MLOG_FUNCS for t in types):
            ml = list(_MLOG)
            for pos, sl in enumerate(sol):
                if sl['applied'] and sl['calls']:
                    fns = ml[:len(sl['calls'])]
                    del ml[:len(sl['calls'])]
                    if drawn[pos] is None or any(f is not types[drawn[pos]] for f in fns):
                        k = next((k for k, t in enumerate(types) if fns and all(f is t for f in fns)), len(types))
                        drawn[pos] = k if drawn[pos] is None else len(types)      # len(types): no configured type
        for pos, s in enumerate(sol):
            t = drawn[pos]
            if t is None:
                # unobserved draw: take the type named by the new individual, else any non-none type
                t = next((k for k, (nm, nn) in enumerate(table) if not nn), 0)
                if s['applied'] and s['calls'] and s['calls'][-1][1]:
                    cand = [o for o in out_irefs if o in new_info and new_info[o][0] == [pop_irefs[pos]]]
                    names = [after['inds'][o][2][2] for o in cand if after['inds'][o][2] is not None]
                    for nm in names:
                        for k, (tn, nn) in enumerate(table):
                            if [tn] == nm:
                                t = k
            atts = []
            for c, v, _k in s['calls']:
                atts.append([len(ft)])
                ft.append(c)
            cs.append('(mk_mchoice %s %s %s)' % (c_nat(t), c_bool(s['applied']),
                                                 c_list([c_list([c_nat(x) for x in a], 'nat') for a in atts], '(list nat)')))
        ft_coq = c_list([c_content(c, uidnum) for c in ft], '(list cnode)')
        types_obs = c_list([c_opt(d, c_nat, 'nat') for d in drawn], '(option nat)')
        n_applied = sum(1 for s in sol if s['applied'])
        n_failed = sum(1 for s in sol if s['applied'] and not (s['calls'] and s['calls'][-1][1]))
    else:
        pairs = list(zip(pop_irefs[::2], pop_irefs[1::2])) if len(pop) != 1 else []
        same_graph = [pop[2 * k].graph is pop[2 * k + 1].graph for k in range(len(pairs))]
        all_user = all(not isinstance(t, CrossoverTypesEnum) for t in types)
        if len(types) == 1:
            drawn = [0] * len(pairs)
        else:
            drawn = [None] * len(pairs)
        sol = None
        if raised is None and len(pop) != 1 and len(out_irefs) == 2 * len(pairs):
            sol = infer_crossover(pairs, out_irefs, new_info, calls, max_attempts, drawn, table, same_graph)
        elif raised is None and len(pop) == 1:
            sol = []
        if sol is None:
            choice_ok = raised is not None
            sol = [{'applied': False, 'atts': []}] * len(pairs)
        # our own crossover callables tell which type was drawn for every applied pair
        if all_user:
            xl = list(_XLOG)
            for pos, s in enumerate(sol):
                if s['applied'] and s['atts']:
                    fns = xl[:len(s['atts'])]
                    del xl[:len(s['atts'])]
                    # len(types) = "a function of no configured type made the children"
                    drawn[pos] = next((k for k, t in enumerate(types) if fns and all(f is t for f in fns)), len(types))
        ft, cs = [], []
        for pos, s in enumerate(sol):
            t = drawn[pos]
            if t is None:
                t = next((k for k, (nm, nn) in enumerate(table) if not nn), 0)
                o1 = out_irefs[2 * pos] if 2 * pos < len(out_irefs) else None
                if o1 in new_info and after['inds'][o1][2] is not None:
                    for k, (tn, nn) in enumerate(table):
                        if [tn] == after['inds'][o1][2][2]:
                            t = k
            atts = []
            for a in s['atts']:
                atts.append(len(ft))
                ft.append([a[0][0], a[1][0] if len(a) > 1 else []])
            cs.append('(mk_xchoice %s %s %s)' % (c_nat(t), c_bool(s['applied']), c_list([c_nat(x) for x in atts], 'nat')))
        ft_coq = c_list([c_list([c_content(c, uidnum) for c in pair], '(list cnode)') for pair in ft], '(list (list cnode))')
        types_obs = c_list([c_opt(d, c_nat, 'nat') for d in drawn], '(option nat)')
        n_applied = sum(1 for s in sol if s['applied'])
        n_failed = sum(1 for s in sol if s['applied'] and not (s['atts'] and len(s['atts'][-1]) == 2 and s['atts'][-1][1][1]))
    pieces = {'P': P, 'vt': vt_coq, 'ft': ft_coq, 'cs': c_list(cs, 'mchoice' if cfg['op'] == 'mutation' else 'xchoice'),
              'before': before, 'after': after, 'ctr': ctr, 'pop': pop_irefs, 'res': list(res), 'verdicts': verdicts,
              'types_obs': types_obs}
    term = make_term(pieces)
    shared_uids = len({n[0] for n in before['nodes']}) < len(before['nodes'])
    facts.update({'choice_ok': choice_ok, 'n_applied': n_applied, 'n_failed': n_failed,
                  'max_nodes': max([len(g) for g in before['graphs']] + [0]),
                  'relatives_share_uids': shared_uids,
                  'types': '+'.join(cfg['types']) if len(cfg['types']) <= 2 else 'mixed%d' % len(cfg['types']),
                  'dropped': (len(pop) - len(out_irefs)) if cfg['op'] == 'mutation' and raised is None else 0})
    detail = {'before': before, 'after': after, 'pop': pop_irefs, 'result': list(res), 'verdicts': verdicts,
              'n_verifier_calls': len(calls)}
    return {'term': term, 'facts': facts, 'detail': detail, 'pieces': pieces, 'strs': dict(_STRS)}


class Hang(BaseException):
    pass


def _alarm(signum, frame):
    raise Hang()


CASE_TIMEOUT = 40       # seconds of CPU time; an operator call takes milliseconds


def type_objects(op_name, names):
    if op_name == 'mutation':
        return [MutationTypesEnum[t] if t in MUT_TYPES else USER_MUT[t] for t in names]
    return [CrossoverTypesEnum[t] if t in CROSS_TYPES else USER_CROSS[t] for t in names]


def reconfigure(op, op_name, objs, how):
    """changes the configured types of a LIVE operator object the ways the code base allows"""
    import dataclasses
    field = 'mutation_types' if op_name == 'mutation' else 'crossover_types'
    if how == 'update':                 # Operator.update_requirements with a new parameters object
        op.update_requirements(parameters=dataclasses.replace(op.parameters, **{field: list(objs)}))
    elif how == 'inplace' and isinstance(getattr(op.parameters, field), list):
        getattr(op.parameters, field)[:] = list(objs)       # the list object itself is edited
    else:                               # assignment on the live parameters object
        setattr(op.parameters, field, list(objs))


def run_sequence(spec):
    """ONE operator object applied repeatedly, its types reconfigured between the calls; every call is a case of its
    own.  spec['sequence']: list of {'types': [...], 'how': 'update' | 'assign' | 'inplace'}"""
    cfg0 = dict(spec['cfg'], types=spec['sequence'][0]['types'])
    env = list(make_env(cfg0))
    op, op_name = env[0], cfg0['op']
    out = []
    for k, step in enumerate(spec['sequence']):
        objs = type_objects(op_name, step['types'])
        if k > 0:
            reconfigure(op, op_name, objs, step['how'])
        if op_name == 'mutation':
            # Mutation draws through its operator agent, which keeps its own list of actions (made at construction)
            objs = list(op.agent.actions)
            env[3] = [(t.__name__, t is MutationTypesEnum.none) for t in objs]
        else:
            objs = list(op.parameters.crossover_types)
            env[3] = [(str(t), t is CrossoverTypesEnum.none) for t in objs]
        env[5] = objs
        step_spec = dict(spec, cfg=dict(spec['cfg'], types=list(step['types'])), seed=spec['seed'] + k)
        r = run_case(step_spec, env=tuple(env))
        r['facts']['stream'] = 'reconfigured' if k > 0 else 'reconfigured-first'
        r['spec'] = dict(spec, step=k)
        out.append(r)
    return out


def run_case_safe(spec):
    # CPU-time timer (SIGVTALRM): does not interfere with the SIGALRM wall-clock watchdog of common.run_check and
    # is insensitive to machine load; a non-terminating operator call burns CPU and is interrupted
    old = signal.signal(signal.SIGVTALRM, _alarm)
    signal.setitimer(signal.ITIMER_VIRTUAL, CASE_TIMEOUT)
    try:
        if 'sequence' in spec:
            return {'multi': run_sequence(spec), 'spec': spec}
        r = run_case(spec)
        r['spec'] = spec
        return r
    except Hang:
        return {'hang': True, 'spec': spec}
    except Exception as ex:       # the harness could not drive the implementation on this case
        return {'error': '%s: %s\n%s' % (type(ex).__name__, ex, traceback.format_exc()[-1500:]), 'spec': spec}
    finally:
        signal.setitimer(signal.ITIMER_VIRTUAL, 0)
        signal.signal(signal.SIGVTALRM, old)


# ----------------------------------------------------------------------------------------
# case generation
# ----------------------------------------------------------------------------------------
def base_cfg(r, op, types, rules=None, prob=None):
    return {'op': op, 'types': types,
            'prob': r.choice([0, 0.5, 1, 1]) if prob is None else prob,
            'attempts': r.choice([1, 2, 3, 5, 8]),
            'rules': rules or r.choice(['default', 'default', 'default', 'accept_all', 'root_acyclic', 'one_root', 'custom']),
            'max_depth': r.choice([2, 3, 4, 6]), 'max_arity': r.choice([2, 3, 4]),
            'variable': r.random() < 0.5, 'strength': r.choice(['weak', 'mean', 'strong'])}


def plain_spec(graphs, pop, cfg, seed, stream, inds=None, bare=False):
    inds = inds or [{'g': k} for k in range(len(graphs))]
    return {'graphs': [{'par': p, 'names': nm} for p, nm in graphs], 'inds': inds, 'pop': pop, 'cfg': cfg,
            'seed': seed, 'stream': stream, 'bare': bare}


def gen_specs(ctx):
    r = ctx.rng
    specs = []
    sd = lambda: r.randrange(1 << 30)
    small = [(par, NODE_TYPES[:len(par)]) for n in (1, 2, 3) for par in valid_dags(n)]
    four = [(par, NODE_TYPES[:4]) for par in valid_dags(4)]
    thorough = ctx.tier == 'thorough'
    # --- exhaustive stream: every valid DAG x every built-in mutation type (population of one)
    exh_graphs = small + (four if thorough else r.sample(four, ctx.budget(40, 0)))
    for g in exh_graphs:
        for t in MUT_TYPES:
            for prob in ([1, 0.5] if thorough and r.random() < 0.4 else [1]):
                cfg = base_cfg(r, 'mutation', [t], rules='default', prob=prob)
                if r.random() < 0.3:
                    cfg['attempts'] = 100          # the default of GPAlgorithmParameters
                specs.append(plain_spec([g], [0], cfg, sd(), 'exhaustive', bare=r.random() < 0.5))
    # --- exhaustive stream: ordered pairs of valid DAGs <= 3 nodes x every built-in crossover type
    pairs = list(itertools.product(small, small))
    if not thorough:
        pairs = r.sample(pairs, ctx.budget(70, 0))
    for g1, g2 in pairs:
        for t in CROSS_TYPES:
            cfg = base_cfg(r, 'crossover', [t], rules='default', prob=1)
            if r.random() < 0.3:
                cfg['attempts'] = 100
            specs.append(plain_spec([g1, g2], [0, 1], cfg, sd(), 'exhaustive'))
    for _ in range(ctx.budget(0, 6000)):           # pairs involving 4-node DAGs (sampled)
        g1, g2 = r.choice(four), r.choice(four + small)
        if r.random() < 0.5:
            g1, g2 = g2, g1
        cfg = base_cfg(r, 'crossover', [r.choice(CROSS_TYPES)], rules='default', prob=1)
        specs.append(plain_spec([g1, g2], [0, 1], cfg, sd(), 'exhaustive4'))
    # --- random stream
    for _ in range(ctx.budget(900, 10000)):
        op = r.choice(['mutation', 'crossover'])
        if op == 'mutation':
            k = r.choice([1, 1, 2, 3])
            types = r.sample(MUT_TYPES, k)
            cfg = base_cfg(r, op, types)
            cfg['agent'] = (k > 1) or r.random() < 0.3
            npop = r.choice([0, 1, 1, 1, 2, 2, 3, 3, 4, 5])
        else:
            k = r.choice([1, 1, 2, 3])
            types = r.sample(CROSS_TYPES, k)
            cfg = base_cfg(r, op, types)
            npop = r.choice([0, 1, 2, 2, 3, 4, 5, 6])
        ver = GraphVerifier(RULESETS[cfg['rules']])
        ngraphs = max(1, npop - (1 if r.random() < 0.2 else 0))
        graphs = [random_valid_spec(r, ver) for _ in range(ngraphs)]
        inds = [{'g': k, 'fit': r.choice([None, 0.5, 1.0, 2.0]), 'gen': r.choice([None, 0, 3])} for k in range(ngraphs)]
        pop = [min(k, ngraphs - 1) for k in range(npop)]
        if ngraphs < npop and r.random() < 0.5:
            inds.append({'g': ngraphs - 1})          # two individuals holding ONE graph object
            pop[-1] = len(inds) - 1
        if r.random() < 0.15:
            r.shuffle(pop)
        specs.append(plain_spec(graphs, pop, cfg, sd(), 'random', inds=inds, bare=r.random() < 0.5))
    # --- relatives stream: parents derived from one ancestor (shared node uids)
    for _ in range(ctx.budget(800, 8000)):
        op = r.choice(['crossover', 'crossover', 'crossover', 'mutation'])
        rules = r.choice(['default', 'default', 'accept_all', 'root_acyclic', 'custom'])
        if op == 'crossover':
            types = r.sample(CROSS_TYPES[:2] + CROSS_TYPES[3:], r.choice([1, 1, 1, 2]))
            npop = r.choice([2, 2, 2, 3, 4, 6])
        else:
            types = r.sample(MUT_TYPES, r.choice([1, 2]))
            npop = r.choice([1, 2, 3])
        cfg = base_cfg(r, op, types, rules=rules, prob=r.choice([1, 1, 0.5]))
        if op == 'mutation':
            cfg['agent'] = True
        ver = GraphVerifier(RULESETS[rules])
        anc = random_valid_spec(r, ver, max_n=8)
        steps = []
        for _ in range(r.randint(1, 6)):
            kind = r.choice(['copy', 'mut', 'mut', 'cross'])
            steps.append([kind, r.randrange(8), r.randrange(8)])
        spec = {'relatives': {'ancestor': {'par': anc[0], 'names': anc[1]}, 'steps': steps, 'seed': sd(), 'rules': rules},
                'pop': [r.randrange(1, 8) for _ in range(npop)], 'cfg': cfg, 'seed': sd(), 'stream': 'relatives',
                'bare': False}
        specs.append(spec)
    # --- agents stream: every adaptive_mutation_type x context_agent_type that works offline (the agent reads the
    #     PARENT graph in choose_action, before the copy is made)
    combos = [(a, c) for a in AGENT_TYPES for c in (CONTEXT_TYPES if a not in CONTEXT_FREE else CONTEXT_TYPES[:2])]
    for k in range(ctx.budget(330, 3000)):
        a, c = combos[k % len(combos)]
        op = 'mutation' if k % 5 else 'crossover'
        if op == 'mutation':
            types = r.sample(MUT_TYPES[:9], r.choice([2, 3]))
            npop = r.choice([1, 2, 3, 4])
        else:
            types = r.sample(CROSS_TYPES, r.choice([1, 2]))
            npop = r.choice([2, 4])
        cfg = base_cfg(r, op, types, rules=r.choice(['default', 'default', 'accept_all', 'custom']), prob=r.choice([1, 1, 0.5]))
        cfg['agent_type'], cfg['context'] = a, c
        ver = GraphVerifier(RULESETS[cfg['rules']])
        if c == 'labeled_edges' and a not in CONTEXT_FREE:
            # this encoder yields one number pair per edge and the contextual bandit insists on contexts of one
            # length (>= 1): the unchanged tree raises ValueError from KMeans otherwise (reported, see docs/C02.md);
            # the members are therefore trees with one common node count
            graphs = same_size_trees(r, ver, r.choice([2, 3, 4, 5, 6]), npop)
        else:
            graphs = [random_valid_spec(r, ver, max_n=8) for _ in range(npop)]
        inds = [{'g': j, 'fit': r.choice([None, 1.0]), 'gen': r.choice([None, 2])} for j in range(npop)]
        specs.append(plain_spec(graphs, list(range(npop)), cfg, sd(), 'agents', inds=inds))
    # --- hook stream: parents are graphs of a user OptGraph subclass with a stateful bound-method postprocess hook;
    #     the state of the hook (revision, journal) is part of the snapshot
    for _ in range(ctx.budget(260, 2500)):
        op = r.choice(['mutation', 'mutation', 'crossover'])
        if op == 'mutation':
            types = r.sample(['single_change', 'simple', 'single_drop', 'single_add', 'single_edge', 'reduce', 'growth',
                              'um_relabel', 'um_add_leaf'], r.choice([1, 1, 2]))
            npop = r.choice([1, 2, 3])
        else:
            types = r.sample(CROSS_TYPES[:2] + CROSS_TYPES[3:], r.choice([1, 2]))
            npop = r.choice([2, 4])
        cfg = base_cfg(r, op, types, rules=r.choice(['default', 'default', 'accept_all']), prob=1)
        if op == 'mutation':
            cfg['agent'] = True
        ver = GraphVerifier(RULESETS[cfg['rules']])
        graphs = [random_valid_spec(r, ver, max_n=7) for _ in range(npop)]
        sp = plain_spec(graphs, list(range(npop)), cfg, sd(), 'hook-graphs')
        sp['hook'] = True
        specs.append(sp)
    # --- reconfiguration stream: ONE operator object, types changed between calls (each call = one case)
    for _ in range(ctx.budget(90, 800)):
        op = r.choice(['crossover', 'crossover', 'mutation'])
        if op == 'crossover':
            names = sorted(USER_CROSS) if r.random() < 0.75 else CROSS_TYPES[:2] + CROSS_TYPES[3:]
            npop = r.choice([2, 2, 4])
        else:
            names = NATIVE_USER_MUT[:4] if r.random() < 0.6 else MUT_TYPES[:9]
            npop = r.choice([1, 2, 3])
        seq = []
        cur = r.sample(names, r.choice([1, 1, 2, 3]))
        for k in range(r.choice([2, 3, 4])):
            seq.append({'types': list(cur), 'how': r.choice(['update', 'assign', 'inplace'])})
            if r.random() < 0.35 and len(cur) > 1:
                cur = list(reversed(cur))                       # same types, reordered
            else:
                cur = r.sample(names, r.choice([1, 1, 2, 3]))   # other types
        cfg = base_cfg(r, op, seq[0]['types'], rules=r.choice(['default', 'accept_all']), prob=1)
        if op == 'mutation':
            cfg['agent'] = True
        ver = GraphVerifier(RULESETS[cfg['rules']])
        graphs = [random_valid_spec(r, ver, max_n=7) for _ in range(npop)]
        sp = plain_spec(graphs, list(range(npop)), cfg, sd(), 'reconfigured')
        sp['sequence'] = seq
        specs.append(sp)
    # --- user-supplied functions stream: mutation callables (native and domain-level), crossover callables
    for _ in range(ctx.budget(300, 2500)):
        op = r.choice(['mutation', 'mutation', 'crossover'])
        if op == 'mutation':
            domain = r.random() < 0.3
            names = (DOMAIN_USER_MUT + ['um_add_leaf']) if domain else NATIVE_USER_MUT + MUT_TYPES[:2]
            types = r.sample(names, r.choice([1, 1, 2, 3]))
            cfg = base_cfg(r, op, types, rules=r.choice(['default', 'accept_all', 'custom', 'reject_all']))
            cfg['domain'] = domain
            cfg['agent'] = True
            npop = r.choice([1, 2, 3])
        else:
            types = r.sample(sorted(USER_CROSS), r.choice([1, 2, 3]))
            cfg = base_cfg(r, op, types, rules=r.choice(['default', 'accept_all', 'custom', 'reject_all']), prob=1)
            npop = r.choice([2, 2, 4, 5])
        ver = GraphVerifier(RULESETS[cfg['rules'] if cfg['rules'] != 'reject_all' else 'default'])
        graphs = [random_valid_spec(r, ver, max_n=7) for _ in range(npop)]
        specs.append(plain_spec(graphs, list(range(npop)), cfg, sd(), 'user-functions'))
    # --- static-metadata stream (round 8): requirements whose static_individual_metadata is EMPTY or the user's own
    #     dict, members with their own (empty / non-empty) metadata dicts; the new individuals are evaluated afterwards
    #     and the members are read again (shared state between a member and its offspring shows up there)
    for k in range(ctx.budget(120, 1000)):
        op = 'crossover' if k % 3 else 'mutation'
        if op == 'crossover':
            types = r.sample(CROSS_TYPES[:2] + CROSS_TYPES[3:], r.choice([1, 1, 2]))
            npop = r.choice([2, 2, 3, 4])
        else:
            types = r.sample(MUT_TYPES[:9], r.choice([1, 2]))
            npop = r.choice([1, 2, 3])
        cfg = base_cfg(r, op, types, rules=r.choice(['default', 'default', 'accept_all']), prob=1)
        if op == 'mutation':
            cfg['agent'] = True
        cfg['static_meta'] = r.choice([{}, {}, {'tag': 'run7'}])
        ver = GraphVerifier(RULESETS[cfg['rules']])
        graphs = [random_valid_spec(r, ver, max_n=7) for _ in range(npop)]
        inds = [{'g': j, 'fit': r.choice([None, None, 1.0]), 'gen': r.choice([None, 2]),
                 'meta': r.choice([None, {}, {'origin': 'initial', 'slot': j}])} for j in range(npop)]
        sp = plain_spec(graphs, list(range(npop)), cfg, sd(), 'static-metadata', inds=inds)
        sp['evaluate_new'] = True
        specs.append(sp)
    return specs


def evaluate(ctx, results, group_prefix=''):
    by_op = {'mutation': [], 'crossover': []}
    results = [x for res in results for x in (res['multi'] if 'multi' in res else [res])]
    for res in results:
        if 'hang' in res:
            g = group_prefix + res['spec']['cfg']['op']
            ctx.count(g, key=repr(res['spec']), nontrivial=True, stream=res['spec'].get('stream'), raised='hang')
            ctx.violate(g, {'spec': res['spec']}, 'the operator did not return within %d s on a population of valid '
                        'individuals' % CASE_TIMEOUT, finding_key='C02.operator-hangs')
            continue
        if 'error' in res:
            ctx.error('driver', res['error'] + '\nspec: %r' % (res['spec'],))
            continue
        by_op[res['facts']['op']].append(res)
    for opname, rs in by_op.items():
        if not rs:
            continue
        group = group_prefix + opname
        fn = ('fun c => match c with (P, vt, ft, cs, o) => [agree_mut P vt ft cs o; holds_mut P o] end'
              if opname == 'mutation' else
              'fun c => match c with (P, vt, ft, cs, o) => [agree_cross P vt ft cs o; holds_cross P o] end')
        strs = {}
        for x in rs:
            strs.update(x['strs'])
        out = ctx.coq_cases(group, REQ, fn, [x['term'] for x in rs], 2, shard=250, case_ty=CASE_TY[opname],
                            preamble=preamble(strs))
        for x, (ag, ho) in zip(rs, out):
            f = x['facts']
            spec = x['spec']
            key = (repr(spec.get('graphs') or spec.get('relatives')), repr(spec['pop']), repr(sorted(spec['cfg'].items())),
                   spec['seed'])
            nontrivial = f['n_applied'] > 0
            ctx.count(group, key=key, nontrivial=nontrivial, stream=f['stream'], rules=f['rules'], n_pop=f['n_pop'],
                      new_outputs=min(f['n_new'], 4), applied=f['n_applied'] > 0, all_attempts_failed=f['n_failed'] > 0,
                      dropped=f['dropped'] > 0, relatives_share_uids=f['relatives_share_uids'],
                      types=f['types'] if f['stream'].startswith('exhaustive') else 'n/a',
                      raised=bool(f['raised']), agent=f.get('agent', 'n/a'))
            case = {'spec': spec, 'observed': x['detail'], 'raised': f['raised']}
            if not ho:
                what, fkey = explain(x)
                ctx.violate(group, case, what, finding_key=fkey)
            if f['raised'] and not (f['op'] == 'mutation' and f['n_pop'] == 0):
                ctx.violate(group, case, 'the operator raised %s on a population of valid individuals' % f['raised'],
                            finding_key='C02.operator-raises')
            elif not ag:
                ctx.disagree(group, case, 'model and implementation differ' +
                             ('' if f['choice_ok'] else ' (no choice of the model explains the verifier log and the outputs)'))
    return by_op


def explain(x):
    """python-side diagnosis of a holds_b failure (wording + finding key); the verdict itself is Coq's"""
    d = x['detail']
    b, a = d['before'], d['after']
    n_nodes, n_graphs, n_inds = len(b['nodes']), len(b['graphs']), len(b['inds'])
    if a['nodes'][:n_nodes] != b['nodes'] or a['graphs'][:n_graphs] != b['graphs'] or a['inds'][:n_inds] != b['inds']:
        return 'an input individual, graph or node was modified by the operator', 'C02.parent-modified'
    outs = d['result'][1] if d['result'][0] == 'list' else ([d['result'][1]] if d['result'][0] == 'single' else [])
    for o, v in zip(outs, d['verdicts']):
        if o < n_inds:
            continue
        u, g, po, f = a['inds'][o]
        ns = a['graphs'][g]
        if g < n_graphs or any(r < n_nodes or any(p < n_nodes for p in a['nodes'][r][3]) for r in ns):
            return 'a new output shares node objects with an input graph', 'C02.shared-nodes'
        uids = [a['nodes'][r][0] for r in ns]
        if len(set(uids)) != len(uids):
            return 'a new output graph contains two nodes with one uid', 'C02.duplicate-uid'
        if len(set(ns)) != len(ns) or any(p not in ns or a['nodes'][r][3].count(p) > 1 for r in ns for p in a['nodes'][r][3]):
            return 'a new output graph is not well-formed (duplicate node / dangling parent / duplicate link)', 'C02.malformed-offspring'
        if not v:
            return 'a new output does not pass the configured verifier', 'C02.unverified-offspring'
        if po is None:
            return 'a new output has no parent operator', 'C02.parent-operator'
    return 'parent operator data or output structure violates the property', 'C02.parent-operator'


def run(ctx):
    ctx.rule = ('one case = one call of the real Mutation / Crossover operator on a population; streams: exhaustive '
                '(every default-valid DAG <= 3 nodes [thorough: <= 4] x 10 mutation types; ordered pairs of valid DAGs <= 3 '
                'nodes x 7 crossover types), random (DAGs <= 10 nodes, populations 0..6, mixed types, probabilities 0/0.5/1, '
                'max_depth, arity, attempts, 6 rule sets, shared graph objects, repeated individuals), relatives (parents '
                'derived from one ancestor by earlier operator calls / deepcopy: shared node uids), user functions (native and '
                'domain-level mutation callables with a DirectAdapter, crossover callables), agents (every adaptive_mutation_type x '
                'context_agent_type importable offline), static-metadata (requirements with an empty / own '
                'static_individual_metadata, members with own metadata dicts; new individuals are evaluated afterwards and the '
                'members read again); the snapshot keeps the ORDER of graph.nodes and of every nodes_from, uids, '
                'content, and every field of the individuals; distinct = distinct (population, '
                'configuration, seed); non-trivial = the operator was applied to at least one member / pair')
    ctx.trusted_extra = [
        'copy.deepcopy is modelled (allocation of an isomorphic fresh sub-heap, uids kept), not verified',
        'the mutation / crossover FUNCTIONS are parameters of the theorems, constrained by the footprint hypothesis '
        '(they touch only the fresh copies they are given and what they allocate); for the built-in ones this is observed '
        'on every case of this check (snapshots), not proved here',
        'the verifier is modelled as a pure function of the graph it is given (rules that mutate graphs are out of scope)',
        'operator agents (random, bandit, contextual bandit x context encoders) are modelled as the draw of a type; that they '
        'leave the parent graph they observe untouched is checked by the snapshots (agents stream), not proved; skipped '
        'offline: ' + (', '.join(SKIPPED_AGENT_COMBOS) or 'nothing'),
    ]
    specs = gen_specs(ctx)
    picked = 0
    canaries_done = False
    pool = None
    if ctx.tier == 'thorough' and len(specs) > 2000:
        import concurrent.futures
        pool = concurrent.futures.ProcessPoolExecutor(max_workers=WORKERS)
    try:
        # batches keep the memory bounded (a result carries its Coq term and both snapshots)
        for k in range(0, len(specs), BATCH):
            chunk = specs[k:k + BATCH]
            if pool is not None:
                results = list(pool.map(run_case_safe, chunk, chunksize=100))
            else:
                results = [run_case_safe(s) for s in chunk]
            by_op = evaluate(ctx, results)
            if not canaries_done and all(any(x['facts']['n_new'] > 0 and not x['facts']['raised'] for x in by_op.get(o, []))
                                         for o in ('mutation', 'crossover')):
                plant_canaries(ctx, by_op)
                canaries_done = True
            for opname in ('mutation', 'crossover'):
                for x in by_op.get(opname, []):
                    if x['facts']['n_new'] > 0 and x['facts']['stream'] in ('relatives', 'exhaustive') and picked < 4:
                        ctx.sample({'spec': x['spec'], 'observed': x['detail'], 'facts': x['facts']})
                        picked += 1
                        break
            del results, by_op
    finally:
        if pool is not None:
            pool.shutdown()
    if not canaries_done:
        ctx.canaries += 1          # no case offered a place for the canaries: fail closed
    ctx.set_exhaustive('mutation', False)
    ctx.set_exhaustive('crossover', False)


def plant_canaries(ctx, by_op):
    """deliberately wrong observations that Coq must flag"""
    for opname, fnname in (('mutation', 'mut'), ('crossover', 'cross')):
        rs = [x for x in by_op.get(opname, []) if x['facts']['n_new'] > 0 and not x['facts']['raised']]
        if not rs:
            continue
        x = rs[0]
        fn = ('fun c => match c with (P, vt, ft, cs, o) => [agree_%s P vt ft cs o; holds_%s P o] end' % (fnname, fnname))
        # canary A: a parent's node carries another name after the call (must break holds_b)
        pa = deepcopy(x['pieces'])
        u, l, p, ps = pa['after']['nodes'][0]
        pa['after']['nodes'][0] = (u, 'CANARY', p, ps)
        # canary B: the operator recorded in a new individual names another type (must break agree and holds_b)
        pb = deepcopy(x['pieces'])
        k = next(i for i in range(len(pb['before']['inds']), len(pb['after']['inds'])) if pb['after']['inds'][i][2] is not None)
        iu, g, po, f = pb['after']['inds'][k]
        pb['after']['inds'][k] = (iu, g, (po[0], po[1], ['canary'], po[3]), f)
        ctx.canaries += 2
        _STRS.clear()
        terms = [make_term(pa), make_term(pb)]
        out = ctx.coq_cases('canary', REQ, fn, terms, 2, case_ty=CASE_TY[opname], preamble=preamble(dict(x['strs'], **_STRS)))
        if out[0][1] is False:
            ctx.canaries_caught += 1
        if out[1] == (False, False):
            ctx.canaries_caught += 1


def replay(ctx, payload):
    v = payload.get('violation') or payload.get('first_disagreement') or payload
    case = v.get('case') if isinstance(v, dict) else None
    if not case or 'spec' not in case:
        return
    spec = case['spec']
    # node uids come from uuid4 and set iteration order depends on them: re-run under several seeds
    bases = [spec]
    if spec['cfg'].get('agent_type'):       # a case about operator agents is replayed with every context encoder
        bases = [dict(spec, cfg=dict(spec['cfg'], context=c)) for c in CONTEXT_TYPES]
    specs = [dict(b, seed=spec['seed'] + k) for b in bases for k in range(25 // len(bases) + 1)]
    evaluate(ctx, [run_case_safe(s) for s in specs], group_prefix='replay-')
