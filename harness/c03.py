"""C03 - the verifier accepts exactly the graphs that satisfy every configured rule.
Implementation: golem.core.dag.graph_verifier.GraphVerifier, golem.core.dag.verification_rules,
BaseOptimizationAdapter.adapt_func / AdaptRegistry.is_native (IdentityAdapter, DirectAdapter,
BaseNetworkxAdapter).  Model: coq/theories/Graph/Rules.v (agree / holds_b / check_case)."""
import concurrent.futures
import contextlib
import functools
import hashlib
import itertools
import logging
import os
import pickle
import random
import re
from copy import deepcopy

import networkx as nx

from common import CoqEvalError

from golem.core.adapter import register_native
from golem.core.adapter.adapt_registry import AdaptRegistry
from golem.core.adapter.adapter import IdentityAdapter, DirectAdapter
from golem.core.adapter.nx_adapter import BaseNetworkxAdapter
from golem.core.dag import verification_rules as vr
from golem.core.dag.graph_verifier import GraphVerifier, VerificationError
from golem.core.optimisers.graph import OptGraph, OptNode

REQ = ['Graph.QueriesSpec', 'Graph.Rules']
FN = 'check_case'
CASE_TY = 'dg * list run'
# short names keep the generated files small (thorough prints ~800k runs)
PREAMBLE = '''Local Open Scope nat_scope.
Definition b0 := CB BHasRoot. Definition b1 := CB BHasOneRoot. Definition b2 := CB BNoCycle.
Definition b3 := CB BNoIsoComponents. Definition b4 := CB BNoSelfCycled. Definition b5 := CB BNoIsoNodes.
Definition dflt := map CB default_dag_rules.
Definition R (ad : adapter) (rf : bool) (rules : list crule) (v : verdict) (cl : list (nat * arg)) : run :=
  (ad, rf, rules, {| ob_verdict := v; ob_calls := cl |}).
Definition O (v : verdict) (cl : list (nat * arg)) : obs := {| ob_verdict := v; ob_calls := cl |}.
Definition M (o : obs) (f : dg) (r : bool) : mobs := {| mo_obs := o; mo_final := f; mo_renamed := r |}.
Notation Acc := Accept (only parsing). Notation Rej := Reject (only parsing).
Notation RV := RaiseVerification (only parsing). Notation RO := RaiseOther (only parsing).
Notation I := AdIdentity (only parsing). Notation Dr := AdDirect (only parsing). Notation X := AdNx (only parsing).
Notation T := true (only parsing). Notation F := false (only parsing).
'''

BUILTIN_NAMES = ['has_root', 'has_one_root', 'has_no_cycle', 'has_no_isolated_components',
                 'has_no_self_cycled_nodes', 'has_no_isolated_nodes']   # index = bK of the preamble
MUTATIONS = {'drop': 'MDropLast', 'cut': 'MCutFirst', 'rename': 'MRename'}
BUILTIN_CTORS = ['HasRoot', 'HasOneRoot', 'NoCycle', 'NoIsoComponents', 'NoSelfCycled', 'NoIsoNodes']
class DomainGraph(OptGraph):
    """a domain graph class of a user: an OptGraph with a domain API"""

    def domain_size(self):
        return self.length


class DomainNode(OptNode):
    """a domain node class of a user"""


class DomainDiGraph(nx.DiGraph):
    """a user's own NetworkX graph class"""


class SubIdentityAdapter(IdentityAdapter):
    """user adapter: the optimiser works on the graphs as they are, domain code sees DomainGraph copies"""

    def _restore(self, opt_graph, metadata=None):
        obj = deepcopy(opt_graph)
        obj.__class__ = DomainGraph
        return obj


class SubDirectAdapter(DirectAdapter):
    """user adapter derived from DirectAdapter: configures its classes itself and overrides both directions"""

    def __init__(self):
        super().__init__(base_graph_class=DomainGraph, base_node_class=DomainNode)

    def _restore(self, opt_graph, metadata=None):
        obj = super()._restore(opt_graph, metadata)
        obj.restored_by = 'SubDirectAdapter'
        return obj

    def _adapt(self, adaptee):
        return super()._adapt(adaptee)


class SubNxAdapter(BaseNetworkxAdapter):
    """user adapter derived from the NetworkX adapter: hands out / takes in the user's DiGraph subclass"""

    def _restore(self, opt_graph, metadata=None):
        return DomainDiGraph(super()._restore(opt_graph, metadata))

    def _adapt(self, adaptee):
        return super()._adapt(nx.DiGraph(adaptee))


def _direct_with_classes():
    return DirectAdapter(base_graph_class=DomainGraph, base_node_class=DomainNode)


ADAPTERS = {'I': IdentityAdapter, 'Dr': DirectAdapter, 'X': BaseNetworkxAdapter,
            'IdS': SubIdentityAdapter, 'DrC': _direct_with_classes, 'DrS': SubDirectAdapter, 'XS': SubNxAdapter}
# the adapter of the model each of them corresponds to (restore = same object / structural copy / DiGraph)
COQ_AD = {'I': 'I', 'Dr': 'Dr', 'X': 'X', 'IdS': 'Dr', 'DrC': 'Dr', 'DrS': 'Dr', 'XS': 'X'}
# classes of the restored domain graph and of its nodes
EXPECT = {'I': (OptGraph, OptNode), 'Dr': (OptGraph, OptNode), 'IdS': (DomainGraph, OptNode),
          'DrC': (DomainGraph, DomainNode), 'DrS': (DomainGraph, DomainNode)}
EXPECT_NX = {'X': nx.DiGraph, 'XS': DomainDiGraph}
TRAVELS = ['deepcopy', 'pickle', 'pickle-adapter', 'deepcopy-adapter']
OUTCOMES = ['RTrue', 'RFalse', 'RNone', 'RValueError', 'ROther']
_adapters = {}


def adapter_of(tag):
    if tag not in _adapters:
        _adapters[tag] = ADAPTERS[tag]()
    return _adapters[tag]


def builtin(i):
    return getattr(vr, BUILTIN_NAMES[i])


# ----------------------------------------------------------------------------------------
# graphs
# ----------------------------------------------------------------------------------------
def build(par, names=None):
    """arbitrary digraph (cyclic, disconnected, self-loops): par[i] = parent indices of node i;
    names[i] = the node's name (equal names make different graphs share a descriptive_id)"""
    nodes = [OptNode(names[i] if names else 'n%d' % i) for i in range(len(par))]
    for i, ps in enumerate(par):
        nodes[i].nodes_from = [nodes[p] for p in ps]
    g = OptGraph()
    g.nodes = list(nodes)
    return g


def structure(g):
    pos = {id(n): i for i, n in enumerate(g.nodes)}
    return [[pos.get(id(p), 99999) for p in n.nodes_from] for n in g.nodes]


def decode(n, code):
    """bit (c * n + p) of code set <=> p is a parent of c"""
    return [[p for p in range(n) if (code >> (c * n + p)) & 1] for c in range(n)]


def random_graph(rng):
    n = rng.randint(4, 7)
    kind = rng.choice(['digraph', 'dag', 'dag', 'tree', 'dag+defect', 'components'])
    par = [[] for _ in range(n)]
    if kind == 'digraph':
        p = rng.choice([0.08, 0.15, 0.3, 0.5])
        loops = rng.random() < 0.3
        for c in range(n):
            for q in range(n):
                if (q != c or loops) and rng.random() < p:
                    par[c].append(q)
    else:
        order = list(range(n))
        rng.shuffle(order)            # order[k] may only have parents among order[k+1:]
        if kind == 'tree':
            for k in range(1, n):
                child = order[rng.randrange(0, k)]
                par[child].append(order[k])
        else:
            p = rng.choice([0.25, 0.4, 0.6])
            for k in range(n):
                for j in range(k + 1, n):
                    if rng.random() < p:
                        par[order[k]].append(order[j])
            if kind == 'components':
                cut = rng.randrange(1, n)
                left = set(order[:cut])
                for c in range(n):
                    par[c] = [q for q in par[c] if (q in left) == (c in left)]
            if kind == 'dag+defect':
                d = rng.choice(['self', 'back', 'isolate', 'two-cycle'])
                v = rng.randrange(n)
                if d == 'self':
                    par[v].append(v)
                elif d == 'back':
                    a, b = sorted(rng.sample(range(n), 2))
                    if order[b] not in par[order[a]]:
                        par[order[a]].append(order[b])
                    if order[a] not in par[order[b]]:
                        par[order[b]].append(order[a])
                elif d == 'isolate':
                    par[v] = []
                    for c in range(n):
                        par[c] = [q for q in par[c] if q != v]
                else:
                    w = (v + 1) % n
                    for a, b in ((v, w), (w, v)):
                        if b not in par[a]:
                            par[a].append(b)
        for c in range(n):
            rng.shuffle(par[c])
    return par


# ----------------------------------------------------------------------------------------
# rule configurations
# ----------------------------------------------------------------------------------------
# a rule is ('b', k) built-in number k | ('u', native, behaviour); behaviour = ('const', outcome)
# | ('edges', k, fail_outcome).  The special rule list 'DEFAULT' is vr.DEFAULT_DAG_RULES itself.
# harness-level refinement of the outcome RValueError: raise golem's own VerificationError (a ValueError
# subclass, what a nested verifier with raise_on_failure=True raises); printed as RValueError for the model
FAILS = ['RFalse', 'RValueError', 'RVerificationError']


def rand_behaviour(rng, n_edges):
    """['const', outcome] | ['edges', k, fail outcome] | ['nested', [built-in numbers]]: the rule delegates to
    an inner GraphVerifier(built-in rules, raise_on_failure=True) and returns its answer / lets its
    VerificationError escape"""
    x = rng.random()
    if x < 0.5:
        return ['const', rng.choice(OUTCOMES + ['RVerificationError'])]
    if x < 0.75:
        return ['nested', rng.sample(range(6), rng.randint(1, 3))]
    k = max(0, n_edges + rng.choice([-2, -1, 0, 0, 1]))
    return ['edges', k, rng.choice(FAILS + FAILS + ['ROther'])]


def rand_subset(rng):
    k = rng.randint(2, 6)
    return [['b', i] for i in rng.sample(range(6), k)]


# how a user rule is presented to the verifier (not part of the model: a rule is whatever can be called with the
# graph; AdaptRegistry.is_native unwraps partials and bound methods, callable objects carry the flag themselves)
FORMS = ['function', 'lambda', 'partial', 'method', 'partial-registered', 'method-registered',
         'object', 'object', 'partial-of-object']


def rand_user_config(rng, n_edges):
    """a user rule is ['u', native, behaviour, form]; form = how the callable is presented to the verifier
    (plain function / lambda / functools.partial / bound method / callable object / partial of a callable object)
    and which object was registered native (the underlying function or object, or the partial / bound method
    itself) - not part of the model: is_native unwraps"""
    rules = [['b', i] for i in rng.sample(range(6), rng.randint(0, 3))]
    for _ in range(rng.choice([1, 1, 2])):
        rules.insert(rng.randint(0, len(rules)),
                     ['u', rng.random() < 0.4, rand_behaviour(rng, n_edges), rng.choice(FORMS)])
    return rules


def rand_family_config(rng, par):
    """2-3 rules that unpack to ONE underlying function (partials of one function with different bound arguments, or
    bound methods of different instances of one class) - all domain-level or all native, since the native flag sits
    on the function - in an order that matters (loose / tight limits, pass / fail), mixed with built-in (native)
    rules and possibly an unrelated user rule"""
    n, n_edges = len(par), sum(len(q) for q in par)
    form = rng.choice(['family-partial', 'family-method'])
    native = rng.random() < 0.25
    kind = rng.choice(['nodes', 'edges', 'const', 'mixed'])
    fail = rng.choice(FAILS)
    if kind == 'nodes':
        specs = [['nodes', n + 1, fail], ['nodes', max(0, n - 1), fail]]
    elif kind == 'edges':
        specs = [['edges', n_edges + 1, fail], ['edges', max(0, n_edges - 1), fail]]
    elif kind == 'const':
        specs = [['const', rng.choice(['RTrue', 'RNone'])], ['const', fail]]
    else:
        specs = [['nodes', n, fail], ['const', fail], ['nested', rng.sample(range(6), 2)]]
    if rng.random() < 0.5:
        specs.reverse()
    if kind != 'mixed' and rng.random() < 0.3:
        specs.append(list(rng.choice(specs)))
    rules = [['u', native, b, form] for b in specs]
    for _ in range(rng.randint(0, 2)):
        rules.insert(rng.randint(0, len(rules)), ['b', rng.randrange(6)])
    if rng.random() < 0.25:
        rules.insert(rng.randint(0, len(rules)), ['u', not native, rand_behaviour(rng, n_edges), rng.choice(FORMS)])
    return rules


def configs_for(rng, par, all_subsets, n_subsets, n_user, gid):
    n_edges = sum(len(p) for p in par)
    ads = ['I', 'Dr', 'X']
    out = []
    for i in range(6):
        out.append(('single', ads[(gid + i) % 3], bool((gid + i) % 2), [['b', i]]))
    out.append(('default', rng.choice(ads), False, 'DEFAULT'))
    if all_subsets:
        for i in range(6):
            out.append(('single', ads[(gid + i + 1) % 3], not bool((gid + i) % 2), [['b', i]]))
        out.append(('default', rng.choice(ads), True, 'DEFAULT'))
        for mask in range(64):
            if bin(mask).count('1') != 1:
                out.append(('subset', rng.choice(ads), rng.random() < 0.5,
                            [['b', i] for i in range(6) if (mask >> i) & 1]))
    for _ in range(n_subsets):
        out.append(('subset', rng.choice(ads), rng.random() < 0.5, rand_subset(rng)))
    for _ in range(n_user):
        out.append(('user', rng.choice(ads), rng.random() < 0.5, rand_user_config(rng, n_edges)))
    for _ in range(3 if all_subsets else 1):
        out.append(('same-function', rng.choice(ads), rng.random() < 0.4, rand_family_config(rng, par)))
    # how the verifier is obtained: GraphVerifier(rules, adapter, raise_on_failure) directly, or the verifier of
    # GraphGenerationParams(adapter, rules_for_constraint=<list | tuple | argument omitted>) (flag off only)
    full = []
    for kind, ad, rf, rules in out:
        # round 8: the rule collection need not be a list / tuple -- a dict values view (rules kept by name) or a
        # numpy object array denote the same abstract rule list (the model is fed the materialised list)
        via = rng.choice(['direct', 'direct', 'direct', 'direct-values', 'direct-ndarray'])
        if not rf:
            via = rng.choice(['direct', 'direct', 'params-list', 'params-tuple', 'direct-values', 'direct-ndarray',
                              'params-values', 'params-ndarray'] +
                             (['params-default', 'params-default'] if rules == 'DEFAULT' else []))
        full.append((kind, ad, rf, rules, via))
    full = [c + ('none',) for c in full]
    # user adapters (subclasses overriding _restore / _adapt), DirectAdapter with the user's classes, and verifiers /
    # adapters that went through pickle or deepcopy before use (rules then are module-level picklable objects)
    for k in range(6 if all_subsets else 1):
        if all_subsets:
            ad = ['IdS', 'DrC', 'DrS', 'XS', 'DrC', 'IdS'][(gid + k) % 6] if k % 2 == 0 else rng.choice(list(ADAPTERS))
            travel = rng.choice(['none'] + TRAVELS) if k % 2 == 0 else rng.choice(TRAVELS)
        else:
            ad = rng.choice(['IdS', 'DrC', 'DrS', 'XS', 'DrC', 'IdS'] + list(ADAPTERS))
            travel = rng.choice(['none'] + TRAVELS + TRAVELS)
        rules = rand_user_config(rng, n_edges)
        if travel == 'pickle':
            rules = [r if r[0] == 'b' else [r[0], r[1], r[2], 'picklable'] for r in rules]
        full.append(('adapter-variant', ad, rng.random() < 0.4, rules, 'direct', travel))
    # the boundary value: an explicitly EMPTY rule collection
    for via in (['params-list', 'params-tuple', 'direct', 'direct-values', 'params-values', 'direct-ndarray']
                if all_subsets else [['params-list', 'params-tuple', 'direct-values', 'params-ndarray'][gid % 4]]):
        full.append(('no-rules', rng.choice(ads), False, [], via, 'none'))
    return full


# ----------------------------------------------------------------------------------------
# running the implementation
# ----------------------------------------------------------------------------------------
class _Custom(ValueError):
    pass


def _emit(outcome, idx):
    if outcome == 'RTrue':
        return True
    if outcome == 'RFalse':
        return False
    if outcome == 'RNone':
        return None
    if outcome == 'RValueError':
        raise (ValueError if idx % 2 == 0 else _Custom)('user rule %d fails' % idx)
    if outcome == 'RVerificationError':
        raise VerificationError('user rule %d fails' % idx)
    raise (TypeError, KeyError, RuntimeError)[idx % 3]('user rule %d is broken' % idx)


def describe(x, graph, tag='I'):
    """what a user rule saw: ['opt', is-the-verified-object, structure] for the internal graph or a restored
    graph of the adapter's domain classes, ['nx', n, edges] for the adapter's NetworkX class, else ['other', type]"""
    if isinstance(x, nx.DiGraph):
        if type(x) is not EXPECT_NX.get(tag):
            return ['other', type(x).__name__]
        pos = {n.uid: i for i, n in enumerate(graph.nodes)}
        nodes = [pos.get(u, 99999) for u in x.nodes]
        edges = sorted((pos.get(a, 99999), pos.get(b, 99999)) for a, b in x.edges)
        if sorted(nodes) != list(range(len(nodes))):
            return ['nx', 99999, []]
        return ['nx', x.number_of_nodes(), [list(e) for e in edges]]
    if x is graph:
        return ['opt', True, structure(x)]
    if isinstance(x, OptGraph):
        graph_cls, node_cls = EXPECT.get(tag, (None, None))
        if type(x) is graph_cls and all(type(n) is node_cls for n in x.nodes):
            return ['opt', False, structure(x)]
        return ['other', '%s of %s' % (type(x).__name__, sorted({type(n).__name__ for n in x.nodes}))]
    return ['other', type(x).__name__]


def count_edges(x):
    if isinstance(x, nx.DiGraph):
        return x.number_of_edges()
    return len(x.get_edges())


def mutate_arg(x, how):
    """a rule 'working on its copy': drop the last node / cut the parents of the first node / rename all nodes
    of the graph object the rule was handed (OptGraph or networkx.DiGraph)"""
    if isinstance(x, nx.DiGraph):
        nodes = list(x.nodes)
        if not nodes:
            return
        if how == 'drop':
            x.remove_node(nodes[-1])
        elif how == 'cut':
            x.remove_edges_from(list(x.in_edges(nodes[0])))
        else:
            for u in nodes:
                x.nodes[u]['name'] = 'renamed'
        return
    nodes = x.nodes
    if not nodes:
        return
    if how == 'drop':
        last = nodes[-1]
        for n in nodes:
            if last in n.nodes_from:
                n.nodes_from.remove(last)
        nodes.remove(last)
    elif how == 'cut':
        nodes[0].nodes_from = []
    else:
        for n in nodes:
            n.content['name'] = 'renamed'


def apply_behaviour(idx, behaviour, x):
    if behaviour[0] == 'const':
        return _emit(behaviour[1], idx)
    if behaviour[0] == 'nested':
        # composite rule: an inner verifier that raises on failure; a domain rule written for NetworkX graphs
        # first adapts its argument back to an optimisation graph
        inner = GraphVerifier([builtin(i) for i in behaviour[1]], raise_on_failure=True)
        return inner(adapter_of('X').adapt(nx.DiGraph(x)) if isinstance(x, nx.DiGraph) else x)
    if behaviour[0] == 'mutate':
        mutate_arg(x, behaviour[1])
        return _emit(behaviour[2], idx)
    if behaviour[0] == 'nodes':
        size = x.number_of_nodes() if isinstance(x, nx.DiGraph) else x.length
    else:
        size = count_edges(x)
    if size <= behaviour[1]:
        return True
    return _emit(behaviour[2], idx)


# the calls of the user rules of the session in progress (module level, so that rules that went through pickle
# still report here) and [the graph being verified, the adapter tag]
CALL_LOG = []
CURRENT = [None, 'I']


class PicklableRule:
    """a module-level rule object: survives pickle.dumps / loads together with its native flag"""

    def __init__(self, idx, behaviour):
        self.idx, self.behaviour = idx, behaviour

    def __call__(self, x):
        CALL_LOG.append([self.idx, describe(x, CURRENT[0], CURRENT[1])])
        return apply_behaviour(self.idx, self.behaviour, x)


def make_user_rule(idx, native, behaviour, log, cur, form='function', family=None):
    """cur[0] = the graph being verified (a verifier instance may be used for several graphs); family = the
    session's shared function / class for the 'family-*' presentations"""
    family = {} if family is None else family
    def body(x):
        log.append([idx, describe(x, cur[0], cur[1])])
        return apply_behaviour(idx, behaviour, x)

    if form == 'picklable':
        presented = underlying = PicklableRule(idx, behaviour)
    elif form.startswith('partial') and not form.endswith('object'):
        def inner(x, unused=None):
            return body(x)
        presented = functools.partial(inner, unused=idx)
        underlying = inner
    elif form.startswith('method'):
        class Holder:
            def check(self, x):
                return body(x)
        presented = Holder().check
        underlying = Holder.check
    elif form == 'lambda':
        presented = underlying = lambda x: body(x)        # noqa: E731
    elif form.endswith('object'):
        class RuleObject:
            """class-based rule: an instance with __call__ (no __name__, no __func__)"""

            def __init__(self, tag):
                self.tag = tag

            def __call__(self, x, unused=None):
                return body(x)
        underlying = RuleObject(idx)
        presented = functools.partial(underlying, unused=idx) if form.startswith('partial') else underlying
    elif form == 'family-partial':
        # several rules of one verifier are functools.partial objects of ONE function with different bound arguments
        if 'fn' not in family:
            def family_rule(x, spec):
                return spec(x)
            family['fn'] = family_rule
        underlying = family['fn']
        presented = functools.partial(underlying, spec=body)
    elif form == 'family-method':
        # several rules of one verifier are bound methods of different instances of ONE class
        if 'cls' not in family:
            class FamilyRule:
                def __init__(self, spec):
                    self.spec = spec

                def check(self, x):
                    return self.spec(x)
            family['cls'] = FamilyRule
        underlying = family['cls'].check
        presented = family['cls'](body).check
    else:
        presented = underlying = body
    if native:
        target = presented if form.endswith('-registered') else underlying
        if not AdaptRegistry.is_native(target):
            register_native(target)
    return presented


@contextlib.contextmanager
def golem_logging_at_debug(on):
    """run the block with the GOLEM logger at DEBUG (Log().reset_logging_level(logging.DEBUG), the switch the API's
    logging_level parameter uses); the records are really created and handed to the handlers, a filter on each
    handler drops them so that nothing is written; level, handler levels and logging.disable are restored"""
    if not on:
        yield
        return
    from golem.core.log import Log
    log = Log()
    prev_disable = logging.root.manager.disable
    prev_level = log.logger.level
    prev_handlers = [(h, h.level) for h in log.handlers]

    def drop(record):
        return False
    logging.disable(logging.NOTSET)
    log.reset_logging_level(logging.DEBUG)
    for h, _ in prev_handlers:
        h.addFilter(drop)
    try:
        yield
    finally:
        for h, level in prev_handlers:
            h.removeFilter(drop)
        log.reset_logging_level(prev_level)
        for h, level in prev_handlers:
            h.setLevel(level)
        logging.disable(prev_disable)


def as_collection(real, via):
    """the same rules, in the same order, held in another kind of collection"""
    how = via.split('-', 1)[1]
    if how == 'list':
        return list(real)
    if how == 'tuple':
        return tuple(real)
    if how == 'values':
        return {'rule_%d' % i: f for i, f in enumerate(real)}.values()
    if how == 'ndarray':
        import numpy as np
        arr = np.empty(len(real), dtype=object)
        for i, f in enumerate(real):
            arr[i] = f
        return arr
    raise ValueError(via)


class Session:
    """ONE GraphVerifier instance (one adapter instance, one list of rule objects) that can be called on
    several graphs; close() unregisters the native user rules"""

    def __init__(self, ad, raise_flag, rules, fresh_adapter=False, via='direct', travel='none'):
        self.log, self.made, self.cur, self.family = CALL_LOG, [], CURRENT, {}
        del CALL_LOG[:]
        CURRENT[1] = ad
        if rules == 'DEFAULT':
            real = vr.DEFAULT_DAG_RULES
        else:
            real = []
            for idx, r in enumerate(rules):
                if r[0] == 'b':
                    real.append(builtin(r[1]))
                else:
                    f = make_user_rule(idx, r[1], r[2], self.log, self.cur, r[3] if len(r) > 3 else 'function',
                                       self.family)
                    self.made.append(f)
                    real.append(f)
        adapter = ADAPTERS[ad]() if (fresh_adapter or travel != 'none') else adapter_of(ad)
        # the adapter / the whole verifier travels: to a worker process (pickle) or with a deep copy of its owner
        if travel == 'pickle-adapter':
            adapter = pickle.loads(pickle.dumps(adapter))
        elif travel == 'deepcopy-adapter':
            adapter = deepcopy(adapter)
        if via == 'direct':
            self.verifier = GraphVerifier(real, adapter=adapter, raise_on_failure=raise_flag)
        elif via.startswith('direct-'):
            self.verifier = GraphVerifier(as_collection(real, via), adapter=adapter, raise_on_failure=raise_flag)
        else:
            # the standard way to configure the verifier of an optimiser
            from golem.core.optimisers.optimizer import GraphGenerationParams
            assert not raise_flag, 'GraphGenerationParams builds its verifier without raise_on_failure'
            if via == 'params-default':
                assert rules == 'DEFAULT'
                params = GraphGenerationParams(adapter=adapter)
            else:
                params = GraphGenerationParams(adapter=adapter, rules_for_constraint=as_collection(real, via))
            self.verifier = params.verifier

    def travel(self, how):
        if how == 'pickle':
            self.verifier = pickle.loads(pickle.dumps(self.verifier))
        elif how == 'deepcopy':
            self.verifier = deepcopy(self.verifier)

    def call(self, graph):
        """returns {'verdict': ..., 'calls': [[idx, arg description]]} for this call"""
        self.cur[0] = graph
        del self.log[:]
        try:
            res = self.verifier(graph)
            verdict = 'Acc' if res is True else 'Rej' if res is False else 'RO'
            extra = None if isinstance(res, bool) else 'returned %r' % (res,)
        except VerificationError:
            verdict, extra = 'RV', None
        except Exception as ex:
            verdict, extra = 'RO', type(ex).__name__
        o = {'verdict': verdict, 'calls': list(self.log)}
        if extra:
            o['extra'] = extra
        return o

    def close(self):
        reg = AdaptRegistry()
        for f in self.made:
            reg.unregister_native(f)


def observe(graph, ad, raise_flag, rules, via='direct', debug=False, travel='none'):
    """a fresh GraphVerifier called once (debug: with the GOLEM logger at DEBUG; travel: the verifier or its
    adapter went through pickle / deepcopy before use)"""
    with golem_logging_at_debug(debug):
        sess = Session(ad, raise_flag, rules, via=via, travel=travel)
        try:
            sess.travel(travel)
            return sess.call(graph)
        finally:
            sess.close()


# ----------------------------------------------------------------------------------------
# printing
# ----------------------------------------------------------------------------------------
def c_dg(par):
    return '[' + ';'.join('[' + ';'.join(str(p) for p in ps) + ']' for ps in par) + ']'


def c_arg(a):
    if a[0] == 'nx':
        return '(ANx %d [%s])' % (a[1], ';'.join('(%d,%d)' % (e[0], e[1]) for e in a[2]))
    if a[0] == 'opt':
        return '(AOpt %s %s)' % ('T' if a[1] else 'F', c_dg(a[2]))
    return '(ANx 99999 [])'     # neither an OptGraph nor a networkx.DiGraph: matches nothing


def c_outcome(o):
    return 'RValueError' if o == 'RVerificationError' else o


def c_behaviour(b):
    if b[0] == 'const':
        return '(UConst %s)' % c_outcome(b[1])
    if b[0] == 'nested':
        return '(UNested [%s])' % ';'.join('B%s' % BUILTIN_CTORS[i] for i in b[1])
    if b[0] == 'mutate':
        return '(UMutate %s %s)' % (MUTATIONS[b[1]], c_outcome(b[2]))
    if b[0] == 'nodes':
        return '(UNodesLe %d %s)' % (b[1], c_outcome(b[2]))
    return '(UEdgesLe %d %s)' % (b[1], c_outcome(b[2]))


def c_rules(rules):
    if rules == 'DEFAULT':
        return 'dflt'
    return '[' + ';'.join('b%d' % r[1] if r[0] == 'b' else '(CU %s %s)' % ('T' if r[1] else 'F', c_behaviour(r[2]))
                          for r in rules) + ']'


def c_run(ad, rf, rules, o):
    return 'R %s %s %s %s [%s]' % (COQ_AD[ad], 'T' if rf else 'F', c_rules(rules), o['verdict'],
                                   ';'.join('(%d,%s)' % (c[0], c_arg(c[1])) for c in o['calls']))


def c_case(par, runs):
    return '(%s,\n [%s])' % (c_dg(par), ';\n  '.join(runs))


# ----------------------------------------------------------------------------------------
# one graph -> one Coq case + statistics
# ----------------------------------------------------------------------------------------
def graph_rng(seed, gid):
    return random.Random((seed * 1000003 + gid) * 2654435761 % (1 << 61))


def do_graph(seed, par, gid, all_subsets, n_subsets, n_user):
    """returns (case text, list of run descriptions, stats).  Deterministic in (seed, par, gid)."""
    rng = graph_rng(seed, gid)
    g = build(par)
    runs, texts = [], []
    configs = configs_for(rng, par, all_subsets, n_subsets, n_user, gid)
    drng = graph_rng(seed, gid + (1 << 30))
    for kind, ad, rf, rules, via, travel in configs:
        debug = drng.random() < 0.25          # a quarter of all runs with the GOLEM logger at DEBUG
        o = observe(g, ad, rf, rules, via, debug, travel)
        runs.append({'kind': kind, 'adapter': ad, 'raise': rf, 'rules': rules, 'via': via, 'debug': debug,
                     'travel': travel, 'observed': o})
        texts.append(c_run(ad, rf, rules, o))
    if structure(g) != [list(p) for p in par]:
        raise RuntimeError('verification changed the graph %r into %r' % (par, structure(g)))
    return c_case(par, texts), runs


def stats_of(par, runs, acc):
    """tally the runs of one graph into acc = {'n': int, 'keys': set, 'dist': {fact: {value: count}}}"""
    n = len(par)
    gkey = repr(par)
    for r in runs:
        acc['n'] += 1
        nontrivial = n >= 2 and (r['rules'] == 'DEFAULT' or len(r['rules']) > 0 or r.get('via', 'direct') != 'direct')
        if nontrivial:
            key = repr((gkey, r['adapter'], r['raise'], r['rules'], r.get('via', 'direct'), bool(r.get('debug')),
                        r.get('travel', 'none')))
            acc['keys'].add(hashlib.sha1(key.encode()).hexdigest()[:16])
        facts = [('nodes', n), ('config', r['kind']), ('adapter', r['adapter']), ('verifier_from', r.get('via', 'direct')),
                 ('logger_at_debug', bool(r.get('debug'))), ('verifier_travelled', r.get('travel', 'none')),
                 ('raise_on_failure', r['raise']), ('verdict', r['observed']['verdict'])]
        if r['rules'] != 'DEFAULT':
            for q in r['rules']:
                if q[0] == 'u':
                    b = q[2]
                    shape = b[1] if b[0] == 'const' else 'nested-verifier' if b[0] == 'nested' else b[0] + '/' + b[2]
                    facts.append(('user_rule', '%s %s' % ('native' if q[1] else 'domain', shape)))
                    facts.append(('user_rule_form', q[3] if len(q) > 3 else 'function'))
        for fact, val in facts:
            d = acc['dist'].setdefault(fact, {})
            d[str(val)] = d.get(str(val), 0) + 1


def new_acc():
    return {'n': 0, 'keys': set(), 'dist': {}}


def merge_acc(ctx, group, acc):
    g = ctx.group(group)
    g['evaluations'] += acc['n']
    g['nontrivial_keys'] |= acc['keys']
    for fact, d in acc['dist'].items():
        t = g['distribution'].setdefault(fact, {})
        for k, v in d.items():
            t[k] = t.get(k, 0) + v


def _worker(args):
    seed, n, codes, all_subsets, n_subsets, n_user = args
    import logging
    logging.disable(logging.CRITICAL)
    acc = new_acc()
    texts = []
    for code in codes:
        par = decode(n, code)
        gid = (n << 20) + code
        text, runs = do_graph(seed, par, gid, all_subsets, n_subsets, n_user)
        texts.append(text)
        stats_of(par, runs, acc)
    return texts, acc


# ----------------------------------------------------------------------------------------
# evaluation of a batch in Coq and reporting
# ----------------------------------------------------------------------------------------
def evaluate(ctx, group, items, shard):
    """items: list of (par, gid, params, case text).  Flags disagreements / violations per run."""
    texts = [it[3] for it in items]
    try:
        res = ctx.coq_cases(group, REQ, FN, texts, 2, shard=shard, case_ty=CASE_TY, preamble=PREAMBLE, timeout=1500)
    except CoqEvalError as ex:
        # a coqc process that dies without output was killed from outside (out-of-memory killer on the shared
        # machine): evaluate once more with smaller files; a genuine failure fails again and is reported
        if not str(ex).rstrip().endswith('):'):
            raise
        ctx.notes.append('coqc died without output on a %s shard; evaluated again with smaller shards' % group)
        res = ctx.coq_cases(group, REQ, FN, texts, 2, shard=max(20, shard // 4), case_ty=CASE_TY, preamble=PREAMBLE,
                            timeout=1500)
        kept = re.search(r'\(kept as ([^)]+)\)', str(ex))
        if kept and os.path.basename(kept.group(1)).startswith('cases_') and os.path.exists(kept.group(1)):
            os.remove(kept.group(1))      # the copy of the killed shard is of no use once the retry succeeded
    bad = [it for it, (ag, ho) in zip(items, res) if not (ag and ho)]
    # regenerate the runs of the flagged graphs (deterministic) and evaluate them one by one
    singles, owners = [], []
    for par, gid, params, _ in bad[:25]:
        text, runs = do_graph(ctx.seed, par, gid, *params)
        for r in runs:
            singles.append(c_case(par, [c_run(r['adapter'], r['raise'], r['rules'], r['observed'])]))
            owners.append((par, r))
    rr = ctx.coq_cases(group + '-pinpoint', REQ, FN, singles, 2, case_ty=CASE_TY, preamble=PREAMBLE) if singles else []
    hit = set()
    for (par, r), (ag, ho) in zip(owners, rr):
        case = {'graph': par, 'adapter': r['adapter'], 'raise_on_failure': r['raise'], 'rules': r['rules'],
                'via': r.get('via', 'direct'), 'debug': bool(r.get('debug')), 'travel': r.get('travel', 'none'),
                'observed': r['observed']}
        if not ho:
            hit.add(repr(par))
            ctx.violate(group, case, 'verdict / rule argument contradicts the structural conditions of the '
                                     'configured rules (independent oracle)')
        if not ag:
            hit.add(repr(par))
            ctx.disagree(group, case, 'model and implementation differ')
    for par, gid, params, _ in bad[:25]:
        if repr(par) not in hit:
            ctx.disagree(group, {'graph': par}, 'batch evaluation flagged this graph but no single run reproduces it '
                                                '(implementation not deterministic?)')
    if len(bad) > 25:
        ctx.disagree(group, None, '%d further graphs flagged' % (len(bad) - 25))
    return res


# ----------------------------------------------------------------------------------------
# sequences of graphs on ONE verifier instance
# ----------------------------------------------------------------------------------------
SEQ_FN = 'check_seq'
SEQ_TY = 'seq_case'


def split_node(par, names, v, child):
    """unfold: duplicate node v (same name, same parents) and let `child` use the copy instead of v.
    When v keeps another child the unfolded graph has the SAME descriptive_id as the original."""
    par2 = [list(p) for p in par] + [list(par[v])]
    par2[child] = [len(par) if q == v else q for q in par2[child]]
    return par2, list(names) + [names[v]]


def children_of(par, v):
    return [c for c, ps in enumerate(par) if v in ps]


def random_twins(rng):
    """a DAG with few distinct names and 1-2 unfoldings of it (descriptive-id twins)"""
    n = rng.randint(3, 6)
    order = list(range(n))
    rng.shuffle(order)
    par = [[] for _ in range(n)]
    p = rng.choice([0.35, 0.5, 0.7])
    for k in range(n):
        for j in range(k + 1, n):
            if rng.random() < p:
                par[order[k]].append(order[j])
    alphabet = rng.choice([['x'], ['a', 'b'], ['a', 'b', 'c']])
    names = [rng.choice(alphabet) for _ in range(n)]
    pool = [(par, names)]
    cur = (par, names)
    for _ in range(rng.choice([1, 1, 2])):
        shared = [v for v in range(len(cur[0])) if len(children_of(cur[0], v)) >= 2]
        if not shared or len(cur[0]) >= 8:
            break
        v = rng.choice(shared)
        cur = split_node(cur[0], cur[1], v, rng.choice(children_of(cur[0], v)))
        pool.append(cur)
    return pool


def seq_rules(rng, base_nodes, n_edges):
    x = rng.random()
    fail = rng.choice(FAILS)
    size_rule = ['u', rng.random() < 0.5, ['nodes', base_nodes, fail], rng.choice(FORMS)]
    if x < 0.3:
        return 'DEFAULT'
    if x < 0.55:
        return [['b', 0], ['b', 2], ['b', 3], ['b', 4], ['b', 5], size_rule]
    if x < 0.7:
        return [size_rule, ['b', 1]]
    if x < 0.85:
        return rand_subset(rng)
    return rand_user_config(rng, n_edges)


def random_sequence(rng):
    pool = random_twins(rng)
    k = rng.randint(2, 4)
    seq = []
    for _ in range(k):
        i = rng.randrange(len(pool))
        # obj: graphs with the same obj key are the same Python object; otherwise fresh nodes (new uids)
        seq.append({'graph': pool[i][0], 'names': pool[i][1], 'obj': rng.choice([i, i, 10 + len(seq)])})
    base = pool[0][0]
    return {'sequence': seq, 'adapter': rng.choice(['I', 'Dr', 'X']), 'raise_on_failure': rng.random() < 0.4,
            'debug': rng.random() < 0.25,
            'rules': seq_rules(rng, len(base), sum(len(q) for q in base))}


def crafted_sequences():
    """descriptive-id twins that differ in validity, both orders, every adapter, flag off and on"""
    fork = ([[], [0], [0]], ['a', 'r1', 'r2'])                 # a -> r1, a -> r2   (accepted by DEFAULT_DAG_RULES)
    fork2 = split_node(fork[0], fork[1], 0, 2)                  # a -> r1, a' -> r2  (two components)
    diamond = ([[], [0], [0], [1, 2]], ['a', 'b', 'c', 'r'])    # a -> b, a -> c, b -> r, c -> r
    tree = split_node(diamond[0], diamond[1], 0, 2)             # the unfolded tree: 5 nodes
    chain = ([[1], []], ['x', 'x'])
    out = []
    for ad in ('I', 'Dr', 'X'):
        for rf in (False, True):
            for a, b, rules in (
                    (fork, fork2, 'DEFAULT'),
                    (fork, fork2, [['b', 3]]),
                    (diamond, tree, [['b', 0], ['b', 2], ['b', 3], ['b', 4], ['b', 5],
                                     ['u', False, ['nodes', 4, 'RFalse'], 'function']]),
                    (diamond, tree, [['u', True, ['nodes', 4, 'RValueError'], 'method'], ['b', 1]]),
                    (diamond, tree, [['b', 0], ['u', False, ['nodes', 4, 'RValueError'], 'object']]),
                    (chain, chain, 'DEFAULT')):
                for first, second in ((a, b), (b, a)):
                    seq = [{'graph': first[0], 'names': first[1], 'obj': 0},
                           {'graph': second[0], 'names': second[1], 'obj': 1},
                           {'graph': first[0], 'names': first[1], 'obj': 0},
                           {'graph': second[0], 'names': second[1], 'obj': 2}]
                    out.append({'sequence': seq, 'adapter': ad, 'raise_on_failure': rf, 'rules': rules})
    return out


def observe_sequence(case):
    """one GraphVerifier instance and one adapter instance for the whole sequence"""
    objs, obs, ids = {}, [], []
    stack = contextlib.ExitStack()
    stack.enter_context(golem_logging_at_debug(bool(case.get('debug'))))
    sess = Session(case['adapter'], case['raise_on_failure'], case['rules'], fresh_adapter=True)
    try:
        for item in case['sequence']:
            g = objs.get(item['obj'])
            if g is None or structure(g) != item['graph']:
                g = objs[item['obj']] = build(item['graph'], item['names'])
            ids.append(g.descriptive_id)
            obs.append(sess.call(g))
            if structure(g) != [list(q) for q in item['graph']]:
                raise RuntimeError('verification changed the graph %r' % (item['graph'],))
    finally:
        sess.close()
        stack.close()
    return obs, ids


def c_seq(case, obs):
    return '(%s, %s, %s,\n [%s])' % (
        COQ_AD[case['adapter']], 'T' if case['raise_on_failure'] else 'F', c_rules(case['rules']),
        ';\n  '.join('(%s, O %s [%s])' % (c_dg(item['graph']), o['verdict'],
                                         ';'.join('(%d,%s)' % (c[0], c_arg(c[1])) for c in o['calls']))
                     for item, o in zip(case['sequence'], obs)))


def run_sequences(ctx, group, cases):
    texts, metas = [], []
    for case in cases:
        obs, ids = observe_sequence(case)
        texts.append(c_seq(case, obs))
        metas.append((case, obs, ids))
    res = ctx.coq_cases(group, ['Graph.QueriesSpec', 'Graph.Rules'], SEQ_FN, texts, 2, shard=300, case_ty=SEQ_TY,
                        preamble=PREAMBLE)
    for (case, obs, ids), (ag, ho) in zip(metas, res):
        verdicts = [o['verdict'] for o in obs]
        twins = any(ids[i] == ids[j] and case['sequence'][i]['graph'] != case['sequence'][j]['graph']
                    for i in range(len(ids)) for j in range(i))
        differ = any(ids[i] == ids[j] and verdicts[i] != verdicts[j] for i in range(len(ids)) for j in range(i))
        skey = repr((case['sequence'], case['adapter'], case['raise_on_failure'], case['rules']))
        for i, o in enumerate(obs):
            ctx.count(group, key=(skey, i), nontrivial=twins, position=i, verdict=o['verdict'], adapter=case['adapter'],
                      sequence_has_same_id_twins=twins, twins_with_different_verdicts=differ,
                      logger_at_debug=bool(case.get('debug')))
        full = dict(case)
        full['observed'] = obs
        if not ho:
            ctx.violate(group, full, 'a call on a reused verifier instance contradicts the structural conditions of the '
                                     'configured rules for that graph (verdicts: %s)' % verdicts)
        if not ag:
            ctx.disagree(group, full, 'model (stateless verifier) and implementation differ on a reused instance')
    return metas


def sequence_canary(ctx):
    # the duplicated-ancestor twin "accepted" after the valid fork on the same instance: must be flagged
    case = crafted_sequences()[0]
    obs, _ = observe_sequence(case)
    obs[1] = {'verdict': 'Acc', 'calls': []}
    ctx.canaries += 1
    res = ctx.coq_cases('canary', ['Graph.QueriesSpec', 'Graph.Rules'], SEQ_FN, [c_seq(case, obs)], 2, case_ty=SEQ_TY,
                        preamble=PREAMBLE)
    if res[0] == (False, False):
        ctx.canaries_caught += 1


# ----------------------------------------------------------------------------------------
# rules that modify the graph they are given; the same graph verified twice
# ----------------------------------------------------------------------------------------
MUT_FN = 'check_mut'
MUT_TY = 'mcase'


def mutation_case(rng, par):
    """rules = [0-2 built-ins] + [a rule that modifies its argument and answers] + [1-3 further rules]"""
    n_edges = sum(len(q) for q in par)
    rules = [['b', i] for i in rng.sample(range(6), rng.randint(0, 2))]
    ret = rng.choice(['RTrue', 'RTrue', 'RTrue', 'RNone', 'RFalse', 'RValueError'])
    rules.append(['u', rng.random() < 0.35, ['mutate', rng.choice(['drop', 'drop', 'cut', 'rename']), ret],
                  rng.choice(FORMS)])
    for _ in range(rng.randint(1, 3)):
        x = rng.random()
        if x < 0.5:
            rules.append(['b', rng.randrange(6)])
        elif x < 0.7:
            rules.append(['u', rng.random() < 0.4, ['nodes', max(0, len(par) - rng.choice([0, 1])), rng.choice(FAILS)],
                          rng.choice(FORMS)])
        elif x < 0.8:
            rules.append(['u', rng.random() < 0.4, ['edges', max(0, n_edges - rng.choice([0, 1])), rng.choice(FAILS)],
                          rng.choice(FORMS)])
        elif x < 0.9:
            rules.append(['u', rng.random() < 0.4, ['nested', rng.sample(range(6), 2)], rng.choice(FORMS)])
        else:
            rules.append(['u', rng.random() < 0.35, ['mutate', rng.choice(['drop', 'cut', 'rename']), 'RTrue'],
                          rng.choice(FORMS)])
    rf = rng.random() < 0.3
    return {'kind': 'mutating', 'graph': par, 'adapter': rng.choice(['I', 'Dr', 'Dr', 'X']), 'raise_on_failure': rf,
            'debug': rng.random() < 0.25,
            'rules': rules, 'via': 'direct' if rf else rng.choice(['direct', 'params-list', 'params-tuple'])}


def crafted_mutation_cases():
    chain = [[1], [2], []]           # 2 -> 1 -> 0 : accepted by the default rules
    fork = [[1, 2], [], []]
    out = []
    for ad in ('I', 'Dr', 'X'):
        for native in (False, True):
            for how in ('drop', 'cut', 'rename'):
                for g in (chain, fork):
                    out.append({'kind': 'mutating', 'graph': g, 'adapter': ad, 'raise_on_failure': False, 'via': 'direct',
                                'rules': [['u', native, ['mutate', how, 'RTrue'], 'function'], ['b', 0], ['b', 5], ['b', 3],
                                          ['u', False, ['nodes', 3, 'RFalse'], 'object']]})
    return out


def protected(case):
    return all(not (r[0] == 'u' and r[2][0] == 'mutate' and (r[1] or case['adapter'] == 'I'))
               for r in case['rules'])


def observe_mutation(case, calls=2):
    """a fresh graph, ONE verifier, the same graph object verified `calls` times; after each call the structure of
    the verified graph and whether one of its nodes was renamed"""
    g = build(case['graph'])
    stack = contextlib.ExitStack()
    stack.enter_context(golem_logging_at_debug(bool(case.get('debug'))))
    sess = Session(case['adapter'], case['raise_on_failure'], case['rules'], fresh_adapter=True,
                   via=case.get('via', 'direct'))
    obs = []
    try:
        for _ in range(calls):
            o = sess.call(g)
            o['final'] = structure(g)
            o['renamed'] = any(n.content.get('name') == 'renamed' for n in g.nodes)
            obs.append(o)
    finally:
        sess.close()
        stack.close()
    return obs


def c_mut(case, obs):
    return '(%s, %s, %s, %s,\n [%s])' % (
        c_dg(case['graph']), COQ_AD[case['adapter']], 'T' if case['raise_on_failure'] else 'F', c_rules(case['rules']),
        ';\n  '.join('M (O %s [%s]) %s %s' % (o['verdict'], ';'.join('(%d,%s)' % (c[0], c_arg(c[1])) for c in o['calls']),
                                             c_dg(o['final']), 'T' if o['renamed'] else 'F') for o in obs))


def run_mutations(ctx, group, cases):
    texts, metas = [], []
    for case in cases:
        obs = observe_mutation(case)
        texts.append(c_mut(case, obs))
        metas.append((case, obs))
    res = ctx.coq_cases(group, ['Graph.QueriesSpec', 'Graph.Rules'], MUT_FN, texts, 2, shard=400, case_ty=MUT_TY,
                        preamble=PREAMBLE)
    for (case, obs), (ag, ho) in zip(metas, res):
        prot = protected(case)
        mut = next(r for r in case['rules'] if r[0] == 'u' and r[2][0] == 'mutate')
        key = repr((case['graph'], case['adapter'], case['raise_on_failure'], case['rules'], case.get('via')))
        for i, o in enumerate(obs):
            ctx.count(group, key=(key, i), nontrivial=len(case['graph']) >= 2, call=i, verdict=o['verdict'],
                      adapter=case['adapter'], modifying_rule='%s %s' % ('native' if mut[1] else 'domain', mut[2][1]),
                      rule_gets_own_copy=prot, verified_graph_changed=o['final'] != case['graph'] or o['renamed'],
                      verifier_from=case.get('via', 'direct'), logger_at_debug=bool(case.get('debug')))
        full = dict(case)
        full['observed'] = obs
        if not ho:
            ctx.violate(group, full, 'a domain rule that modifies the restored graph it was given changed the verified graph '
                                     'or the verdict (every modifying rule here works under a copying adapter)')
        if not ag:
            ctx.disagree(group, full, 'model (graph state threaded through the rule loop) and implementation differ')
    return metas


def mutation_canary(ctx):
    # DirectAdapter, domain rule drops a node of "its copy", observed: the verified graph lost the node and the run
    # was rejected - what a shallow restore would do; must be flagged
    case = {'kind': 'mutating', 'graph': [[1], [2], []], 'adapter': 'Dr', 'raise_on_failure': False, 'via': 'direct',
            'rules': [['u', False, ['mutate', 'drop', 'RTrue'], 'function'], ['u', False, ['nodes', 2, 'RFalse'], 'function']]}
    obs = observe_mutation(case)
    obs[0]['final'] = [[1], []]
    ctx.canaries += 1
    res = ctx.coq_cases('canary', ['Graph.QueriesSpec', 'Graph.Rules'], MUT_FN, [c_mut(case, obs)], 2, case_ty=MUT_TY,
                        preamble=PREAMBLE)
    if res[0] == (False, False):
        ctx.canaries_caught += 1


def canary(ctx):
    # a self-loop "accepted" by has_no_cycle: Coq must flag both agree and holds_b
    text = c_case([[0]], ['R I F [b2] Acc []'])
    ctx.canaries += 1
    res = ctx.coq_cases('canary', REQ, FN, [text], 2, case_ty=CASE_TY, preamble=PREAMBLE)
    if res[0] == (False, False):
        ctx.canaries_caught += 1
    # and a domain rule that was handed the internal graph although the adapter is NetworkX
    text = c_case([[1], []], ['R X F [(CU F (UConst RTrue))] Acc [(0,(AOpt T [[1];[]]))]'])
    ctx.canaries += 1
    res = ctx.coq_cases('canary', REQ, FN, [text], 2, case_ty=CASE_TY, preamble=PREAMBLE)
    if res[0] == (False, False):
        ctx.canaries_caught += 1


def run(ctx):
    ctx.rule = ('per graph a list of verifier runs (adapter x raise_on_failure x rule list): all digraphs on <= 3 nodes '
                '(self-loops, empty graph) x all 64 subsets of the built-in rules + DEFAULT_DAG_RULES + random orders + '
                'user rules (constant True/False/None/ValueError/other exception, or an edge-count predicate; native '
                'and domain-level); thorough adds all 65,536 digraphs on 4 nodes; structured random graphs on 4-7 '
                'nodes (digraphs, DAGs, trees, DAG+defect, several components); distinct = distinct (graph, adapter, '
                'raise flag, rule list); non-trivial = graph with >= 2 nodes and a non-empty rule list.  Group reused-instance: '
                'ONE GraphVerifier instance (one adapter instance) called on 2-4 graphs in order: crafted and random '
                'descriptive-id twins (a DAG and its unfoldings, equal node names) that differ in validity, in both orders, '
                'same structure with new uids, the same object twice; every call must equal the fresh-verifier verdict; '
                'non-trivial = the sequence contains two different graphs with the same descriptive_id.  Group modifying-rules: '
                'a fresh graph verified twice by one verifier whose rule list contains a user rule that drops / reconnects / '
                'renames nodes of its argument (native and domain-level, all adapters); non-trivial = graph with >= 2 nodes.  '
                'Verifiers are built as GraphVerifier(...) or through GraphGenerationParams (list / tuple / default / EMPTY '
                'rule collection); a quarter of all runs with the GOLEM logger at DEBUG; config same-function = two or three user '
                'rules of one verifier unpacking to ONE underlying function (partials / bound methods), both orders; config '
                'adapter-variant = user adapter subclasses / DirectAdapter with user classes, verifier or adapter pickled or '
                'deep-copied before use')
    ctx.trusted_extra = [
        'NetworkX: DiGraph / Graph adjacency and isolates are modelled by their documented meaning (degree 0), the '
        'breadth-first search of is_connected by a hand-copied literal model (Graph/RulesBfs.v); both are tied to the '
        'code only by the correspondence',
        'graph_has_cycle, root_nodes, node_children, get_edges: the C12 models of Graph/Queries.v (imported)',
        'user rules are the harness\'s own callables; "raises something else" is sampled with TypeError, KeyError, '
        'RuntimeError',
    ]
    seed = ctx.seed
    thorough = ctx.tier == 'thorough'
    # ---- exhaustive small scope: n <= 3, all 64 subsets
    items = []
    acc = new_acc()
    params = (True, 2, ctx.budget(4, 6))
    for n in range(0, 4):
        for code in range(1 << (n * n)):
            par = decode(n, code)
            gid = (n << 20) + code
            text, runs = do_graph(seed, par, gid, *params)
            items.append((par, gid, params, text))
            stats_of(par, runs, acc)
            if code in (0, 5, 300) and n in (0, 2, 3):
                r = runs[-1]
                ctx.sample({'graph': par, 'adapter': r['adapter'], 'raise_on_failure': r['raise'],
                            'rules': r['rules'], 'observed': r['observed']})
    merge_acc(ctx, 'exhaustive<=3', acc)
    ctx.set_exhaustive('exhaustive<=3', True)
    evaluate(ctx, 'exhaustive<=3', items, shard=40)
    canary(ctx)
    # ---- one verifier instance used for several graphs (descriptive-id twins, same structure / new uids)
    seqs = crafted_sequences() + [random_sequence(ctx.rng) for _ in range(ctx.budget(1200, 8000))]
    metas = run_sequences(ctx, 'reused-instance', seqs)
    ctx.set_exhaustive('reused-instance', False)
    ctx.sample({'sequence': metas[0][0]['sequence'], 'adapter': metas[0][0]['adapter'], 'rules': metas[0][0]['rules'],
                'observed': metas[0][1]})
    sequence_canary(ctx)
    # ---- rules that modify their argument, the same graph verified twice by one verifier
    cases = crafted_mutation_cases()
    for n in range(0, 4):
        for code in range(1 << (n * n)):
            r = graph_rng(seed, (7 << 20) + (n << 10) + code)
            cases += [mutation_case(r, decode(n, code)) for _ in range(3 if n == 3 else 6)]
    for k in range(ctx.budget(500, 4000)):
        cases.append(mutation_case(ctx.rng, random_graph(ctx.rng)))
    metas = run_mutations(ctx, 'modifying-rules', cases)
    ctx.set_exhaustive('modifying-rules', False)
    ctx.sample({'graph': metas[40][0]['graph'], 'adapter': metas[40][0]['adapter'], 'rules': metas[40][0]['rules'],
                'observed': metas[40][1]})
    mutation_canary(ctx)
    # ---- structured random graphs on 4..7 nodes
    items = []
    acc = new_acc()
    params = (False, 3, 3)
    rng = ctx.rng
    for k in range(ctx.budget(2000, 6000)):
        par = random_graph(rng)
        gid = (9 << 20) + k
        text, runs = do_graph(seed, par, gid, *params)
        items.append((par, gid, params, text))
        stats_of(par, runs, acc)
        if k < 2:
            r = runs[-1]
            ctx.sample({'graph': par, 'adapter': r['adapter'], 'raise_on_failure': r['raise'],
                        'rules': r['rules'], 'observed': r['observed']})
    merge_acc(ctx, 'random4-7', acc)
    ctx.set_exhaustive('random4-7', False)
    evaluate(ctx, 'random4-7', items, shard=ctx.pick(200, 500))
    # ---- all digraphs on 4 nodes (thorough), a sample of them in the quick tier
    params = (False, ctx.pick(3, 1), 2)
    if thorough and ctx.scale == 1:
        codes = list(range(1 << 16))
    else:
        codes = sorted(rng.sample(range(1 << 16), min(1 << 16, ctx.budget(1000, 1 << 16))))
    chunks = [codes[i:i + 2048] for i in range(0, len(codes), 2048)]
    items = []
    acc = new_acc()
    if len(chunks) > 1:
        with concurrent.futures.ProcessPoolExecutor(max_workers=4) as ex:
            results = list(ex.map(_worker, [(seed, 4, ch, *params) for ch in chunks]))
    else:
        results = [_worker((seed, 4, ch, *params)) for ch in chunks]
    for ch, (texts, a) in zip(chunks, results):
        for code, text in zip(ch, texts):
            items.append((decode(4, code), (4 << 20) + code, params, text))
        acc['n'] += a['n']
        acc['keys'] |= a['keys']
        for fact, d in a['dist'].items():
            t = acc['dist'].setdefault(fact, {})
            for k2, v in d.items():
                t[k2] = t.get(k2, 0) + v
    group = 'all-n4' if len(codes) == 1 << 16 else 'sample-n4'
    merge_acc(ctx, group, acc)
    ctx.set_exhaustive(group, len(codes) == 1 << 16)
    evaluate(ctx, group, items, shard=ctx.pick(250, 1024))


def replay(ctx, payload):
    """payload: a replay file written by run_check (one failing run) or a corpus file {'cases': [run, ...]}"""
    if isinstance(payload, dict) and 'cases' in payload:
        todo = payload['cases']
    else:
        v = payload.get('violation') or payload.get('first_disagreement') or payload
        case = v.get('case') if isinstance(v, dict) else None
        todo = [case] if case and 'rules' in case else []
    mut_todo = [c for c in todo if c and c.get('kind') == 'mutating']
    todo = [c for c in todo if c and c.get('kind') != 'mutating']
    if mut_todo:
        run_mutations(ctx, 'replay-modifying', [{k: c[k] for k in ('kind', 'graph', 'adapter', 'raise_on_failure', 'rules', 'via', 'debug')
                                                 if k in c} for c in mut_todo])
    seq_todo = [c for c in todo if c and 'sequence' in c]
    todo = [c for c in todo if c and 'sequence' not in c]
    if seq_todo:
        run_sequences(ctx, 'replay-sequence', [{k: c[k] for k in ('sequence', 'adapter', 'raise_on_failure', 'rules', 'debug') if k in c}
                                               for c in seq_todo])
    texts, done = [], []
    for case in todo:
        par = case['graph']
        o = observe(build(par), case['adapter'], case['raise_on_failure'], case['rules'], case.get('via', 'direct'),
                    bool(case.get('debug')), case.get('travel', 'none'))
        texts.append(c_case(par, [c_run(case['adapter'], case['raise_on_failure'], case['rules'], o)]))
        c = dict(case)
        c['observed'] = o
        done.append(c)
    if not texts:
        return
    res = ctx.coq_cases('replay', REQ, FN, texts, 2, case_ty=CASE_TY, preamble=PREAMBLE)
    for c, (ag, ho) in zip(done, res):
        ctx.count('replay', key=repr((c['graph'], c['adapter'], c['raise_on_failure'], c['rules'])), nontrivial=True)
        if not ho:
            ctx.violate('replay', c, 'verdict / rule argument contradicts the structural conditions of the configured rules')
        if not ag:
            ctx.disagree('replay', c, 'model and implementation differ')
