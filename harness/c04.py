"""C04 - graph editing operations keep graphs well-formed and follow their specification.

Implementation: golem.core.optimisers.graph.OptGraph (= GraphDelegate over LinkedGraph) and OptNode.
Model: coq/theories/Graph/{Heap,Ops,OpsSpec}.v  (run_op / agree / holds_b / check).

Every editing step of every generated operation sequence is one case: the OBSERVED state before
the step (all node objects known so far as a heap of references + the `nodes` list), the
operation, and the observed state after it (or the kind of exception).  The model is run from the
observed before-state, so the steps of a sequence are checked in lock-step.
"""
import hashlib
import itertools
import signal
from copy import deepcopy

import numpy as np
from common import c_bool, c_list

from golem.core.dag.graph import ReconnectType
from golem.core.optimisers.graph import OptGraph, OptNode
from golem.utilities.data_structures import UniqueList

REQ = ['Graph.OpsSpec', 'Graph.OpsSpecPlain']
PRE = 'From GolemV Require Import Graph.Heap Graph.Ops.\nLocal Open Scope nat_scope.'
FN = 'fun c => match c with (h, g, o, ob) => check2 (h, g) o ob end'
K = 9
# the clean-up flag of disconnect_nodes as callers produce it: a plain bool, the result of a numpy comparison,
# an int (every form denotes the same abstract boolean: its truth value)
FLAG_FORMS = {'bool': bool, 'npbool': np.bool_, 'int': int}
MODES = {'none': ('RNone', ReconnectType.none), 'single': ('RSingle', ReconnectType.single),
         'all': ('RAll', ReconnectType.all)}


# ------------------------------------------------------------------------------------------
# user-defined node classes (public GraphNode interface, parents in an ordinary list)
# ------------------------------------------------------------------------------------------
from golem.core.dag.graph_node import GraphNode  # noqa: E402


class PlainNode(GraphNode):
    """implements the abstract interface itself; nodes_from is a plain list"""

    def __init__(self, name, nodes_from=None):
        super().__init__()
        self.content = {'name': name}
        self._parents = list(nodes_from or [])

    @property
    def nodes_from(self):
        return self._parents

    @nodes_from.setter
    def nodes_from(self, nodes):
        self._parents = list(nodes or [])

    @property
    def name(self):
        return self.content['name']

    def __str__(self):
        return str(self.content['name'])

    def __hash__(self):
        return hash(self.uid)


class TupleNode(PlainNode):
    """the setter rebuilds the container through a tuple (a new list object on every assignment)"""

    @PlainNode.nodes_from.setter
    def nodes_from(self, nodes):
        self._parents = list(tuple(nodes or ()))


NODE_CLASSES = {'opt': OptNode, 'plain': PlainNode, 'tuple': TupleNode}


class CallbackState:
    """postprocess_nodes callbacks: 'validate' raises KeyError when the node list it is given is not
    parent-closed / lists a node twice; 'record' only notes that it has seen such a state"""

    def __init__(self, kind):
        self.kind = kind
        self.calls = 0
        self.bad = None

    def __call__(self, graph, nodes):
        self.calls += 1
        ids = {id(n) for n in nodes}
        problem = None
        if len(ids) != len(nodes):
            problem = 'a node is listed twice'
        for n in nodes:
            for p in n.nodes_from:
                if id(p) not in ids:
                    problem = 'parent %s of member %s is not among the nodes' % (p, n)
        if problem:
            self.bad = problem
            if self.kind == 'validate':
                raise KeyError(problem)


# ------------------------------------------------------------------------------------------
# the python side: node objects <-> references
# ------------------------------------------------------------------------------------------
class World:
    """All node objects met so far; reference = position in `objs` (kept alive, so id() is stable)."""

    def __init__(self):
        self.objs = []
        self.ref = {}
        self.uids = {}
        self.next_label = 100

    def reg(self, node):
        r = self.ref.get(id(node))
        if r is None:
            r = len(self.objs)
            self.ref[id(node)] = r
            self.objs.append(node)
        return r

    def uid(self, u):
        return self.uids.setdefault(u, len(self.uids))

    node_cls = OptNode
    callback = None

    def fresh(self, parents=()):
        n = self.node_cls(str(self.next_label), nodes_from=list(parents))
        self.next_label += 1
        self.reg(n)
        return n

    def snap(self, graph):
        """(heap, g): heap[i] = (uid number, label, parent refs in order, is UniqueList)"""
        g = [self.reg(n) for n in graph.nodes]
        heap = []
        i = 0
        while i < len(self.objs):       # objects discovered on the way are appended and visited too
            n = self.objs[i]
            ps = [self.reg(p) for p in n.nodes_from]
            heap.append((self.uid(n.uid), int(n.content['name']), tuple(ps), isinstance(n.nodes_from, UniqueList)))
            i += 1
        return tuple(heap), tuple(g)

    def unknown_reachable(self, graph):
        out, seen = [], set()
        stack = list(graph.nodes)
        while stack:
            n = stack.pop()
            if id(n) in seen:
                continue
            seen.add(id(n))
            if id(n) not in self.ref:
                out.append(n)
            stack.extend(n.nodes_from)
        return out


def preorder(heap, r):
    """objects reachable from r in the order a memoised pre-order walk meets them"""
    seen, out = set(), []

    def go(x):
        if x in seen:
            return
        seen.add(x)
        out.append(x)
        for p in heap[x][2]:
            go(p)
    go(r)
    return out


def register_copy(world, heap, src, copy_root):
    """Register the objects of a deep copy of `src` so that the copy of the i-th object of the
    pre-order walk from src becomes reference len(heap)+i (the model's allocation rule).
    The correspondence original -> copy is positional (same index in the parent lists)."""
    order = preorder(heap, src)
    m = {}

    def walk(r, obj):
        if r in m:
            return m[r] is obj
        m[r] = obj
        ps = heap[r][2]
        if len(ps) != len(obj.nodes_from):
            return False
        return all(walk(p, q) for p, q in zip(ps, obj.nodes_from))
    ok = walk(src, copy_root) and len(m) == len(order) and all(id(o) not in world.ref for o in m.values())
    if ok:
        for r in order:
            world.reg(m[r])
    return ok


# ------------------------------------------------------------------------------------------
# start graphs and inserted shapes
# ------------------------------------------------------------------------------------------
def build(gspec):
    """gspec = (parent index lists per node, order of the constructor arguments[, container sources]).
    container sources: triples (b, a, form) - node b takes its parents from the nodes_from OBJECT of
    node a: form 'ctor' = OptNode(.., nodes_from=a.nodes_from), 'setter' = b.nodes_from = a.nodes_from
    (a == b: self-assignment).  The documented meaning copies the list: every node owns its container."""
    plists, order = gspec[0], gspec[1]
    share = tuple(gspec[2]) if len(gspec) > 2 else ()
    opts = dict(gspec[3]) if len(gspec) > 3 else {}
    OptNode = NODE_CLASSES[opts.get('cls', 'opt')]      # noqa: N806 (node class of this graph)
    ctor_src = {b: a for (b, a, form) in share if form == 'ctor'}
    w = World()
    w.node_cls = OptNode
    nodes = []
    topological = all(p < i for i, ps in enumerate(plists) for p in ps)
    for i, ps in enumerate(plists):
        if i in ctor_src and ctor_src[i] < i and topological:
            n = OptNode(str(i), nodes_from=nodes[ctor_src[i]].nodes_from)
        elif topological:
            n = OptNode(str(i), nodes_from=[nodes[p] for p in ps])
        else:
            n = OptNode(str(i))
        nodes.append(n)
    if not topological:                 # parents may have any index (cyclic start graphs are possible)
        for i, ps in enumerate(plists):
            nodes[i].nodes_from = [nodes[p] for p in ps]
    for (b, a, form) in share:
        if form == 'setter':
            nodes[b].nodes_from = nodes[a].nodes_from
    for n in nodes:
        w.reg(n)
    if opts.get('cb'):
        w.callback = CallbackState(opts['cb'])
        graph = OptGraph([nodes[i] for i in order], postprocess_nodes=w.callback)
    else:
        graph = OptGraph([nodes[i] for i in order])
    return w, graph


def make_shape(w, heap, shape):
    """creates the node objects of an inserted shape, returns the root object"""
    kind = shape[0]
    if kind == 'single':
        return w.fresh()
    if kind == 'chain2':
        return w.fresh([w.fresh()])
    if kind == 'two_fresh':
        a = w.fresh()
        b = w.fresh()
        return w.fresh([a, b])
    if kind == 'diamond':
        z = w.fresh()
        x = w.fresh([z])
        y = w.fresh([z])
        return w.fresh([x, y])
    if kind == 'on_members':
        return w.fresh([w.objs[r] for r in shape[1]])
    if kind == 'member':
        return w.objs[shape[1]]
    if kind == 'like':                  # a new node constructed from the parent container OBJECT of a member
        n = w.node_cls(str(w.next_label), nodes_from=w.objs[shape[1]].nodes_from)
        w.next_label += 1
        w.reg(n)
        return n
    if kind == 'copy':                  # relatives: a deep copy of a subtree of the same graph (shares uids)
        c = deepcopy(w.objs[shape[1]])
        if not register_copy(w, heap, shape[1], c):
            raise RuntimeError('deepcopy of a node is not positionally isomorphic to its source')
        return c
    raise ValueError(shape)


class StepTimeout(BaseException):
    """an editing operation did not return (reported as an exception of the operation)"""


class Watchdog:
    def __init__(self, seconds):
        self.seconds = seconds

    def _fire(self, signum, frame):
        raise StepTimeout('operation did not return within %.0f s' % self.seconds)

    def __enter__(self):
        self.old = signal.signal(signal.SIGALRM, self._fire)
        signal.setitimer(signal.ITIMER_REAL, self.seconds)

    def __exit__(self, *a):
        signal.setitimer(signal.ITIMER_REAL, 0)
        signal.signal(signal.SIGALRM, self.old)
        return False


def exn_kind(ex):
    if isinstance(ex, ValueError):
        return 'ValueError'
    if isinstance(ex, KeyError):
        return 'KeyError'
    if isinstance(ex, IndexError):
        return 'IndexError'
    return 'OtherError'


def py_wf(heap, g):
    if len(set(g)) != len(g):
        return False
    if len({heap[r][0] for r in g}) != len(g):
        return False
    gs = set(g)
    for r in g:
        ps = heap[r][2]
        if len(set(ps)) != len(ps) or not set(ps) <= gs or not heap[r][3]:
            return False
    return True


def step(w, graph, desc):
    """performs one operation on the real graph; returns the case record"""
    heap0, _ = w.snap(graph)
    kind = desc[0]
    root = None
    if kind in ('add', 'updnode', 'updsub'):
        root = make_shape(w, heap0, desc[-1])
    heap, g = w.snap(graph)
    o = w.objs
    if kind == 'add':
        rr = w.ref[id(root)]
        coq = '(OAdd %d)' % rr
        call = lambda: graph.add_node(root)
    elif kind == 'del':
        coq = '(ODelete %d %s)' % (desc[1], MODES[desc[2]][0])
        call = lambda: graph.delete_node(o[desc[1]], MODES[desc[2]][1])
    elif kind == 'delsub':
        coq = '(ODelSub %d)' % desc[1]
        call = lambda: graph.delete_subtree(o[desc[1]])
    elif kind == 'updnode':
        rr = w.ref[id(root)]
        coq = '(OUpdNode %d %d)' % (desc[1], rr)
        call = lambda: graph.update_node(o[desc[1]], root)
    elif kind == 'updsub':
        rr = w.ref[id(root)]
        coq = '(OUpdSub %d %d)' % (desc[1], rr)
        call = lambda: graph.update_subtree(o[desc[1]], root)
    elif kind == 'conn':
        coq = '(OConnect %d %d)' % (desc[1], desc[2])
        call = lambda: graph.connect_nodes(o[desc[1]], o[desc[2]])
    elif kind == 'disc':
        coq = '(ODisconnect %d %d %s)' % (desc[1], desc[2], c_bool(desc[3]))
        form = desc[4] if len(desc) > 4 else 'bool'
        flag = FLAG_FORMS[form](desc[3])
        assert bool(flag) == bool(desc[3])
        if len(desc) > 5 and desc[5] == 'positional':
            call = lambda: graph.disconnect_nodes(o[desc[1]], o[desc[2]], flag)
        else:
            call = lambda: graph.disconnect_nodes(o[desc[1]], o[desc[2]], clean_up_leftovers=flag)
    else:
        raise ValueError(desc)
    rec = {'heap': heap, 'g': g, 'op': coq, 'kind': kind, 'desc': desc}
    try:
        with Watchdog(3.0):
            call()
    except (Exception, StepTimeout) as ex:  # noqa
        rec['raise'] = exn_kind(ex)
        rec['msg'] = '%s: %s' % (type(ex).__name__, str(ex)[:80])
        try:
            rec['wf_after_raise'] = py_wf(*w.snap(graph))
        except Exception:  # noqa
            rec['wf_after_raise'] = False
        return rec
    if w.callback is not None and w.callback.bad:
        # the user's callback was handed an ill-formed intermediate state: an observable failure of the operation
        rec['raise'] = 'OtherError'
        rec['msg'] = 'postprocess_nodes callback saw an ill-formed graph: %s' % w.callback.bad
        w.callback.bad = None
        rec['wf_after_raise'] = py_wf(*w.snap(graph))
        return rec
    note = ''
    if kind == 'updsub':
        unk = w.unknown_reachable(graph)
        if unk:
            ids = {id(x) for x in unk}
            inner = {id(p) for x in unk for p in x.nodes_from if id(p) in ids}
            roots = [x for x in unk if id(x) not in inner]
            if len(roots) != 1 or not register_copy(w, heap, rr, roots[0]):
                note = 'copy not matched structurally'
    h1, g1 = w.snap(graph)
    rec['after'] = (h1, g1)
    rec['note'] = note
    return rec


def c_heap(heap):
    return c_list(['mkNode %d %d %s %s' % (u, l, c_list([str(p) for p in ps], 'nat'), c_bool(q))
                   for (u, l, ps, q) in heap], 'node')


def c_case(rec):
    if 'raise' in rec:
        ob = '(ORaise %s)' % rec['raise']
    else:
        h1, g1 = rec['after']
        ob = '(OOk %s %s)' % (c_heap(h1), c_list([str(r) for r in g1], 'nat'))
    return '(%s, %s, %s, %s)' % (c_heap(rec['heap']), c_list([str(r) for r in rec['g']], 'nat'), rec['op'], ob)


# ------------------------------------------------------------------------------------------
# enumeration of the operations applicable in a state
# ------------------------------------------------------------------------------------------
def shapes_for(g, op, target=None, rich=True):
    out = [('single',), ('chain2',), ('two_fresh',)]
    if rich:
        out.append(('diamond',))
    if g:
        out.append(('on_members', (g[0],)))
        if len(g) >= 2:
            out.append(('on_members', (g[0], g[-1])))
        if op != 'updsub':
            out.append(('like', g[0]))
        if op == 'add':
            out.append(('member', g[-1]))
            out.append(('copy', g[0]))
        elif op == 'updnode':
            out.append(('copy', target))
            out.append(('member', g[0]))          # outside the domain (new is a member)
        else:
            for r in dict.fromkeys([target, g[0], g[-1]]):
                out.append(('copy', r))           # relatives
                out.append(('member', r))         # new_subtree is a live member of the graph
    return out


def applicable(heap, g, rich=True):
    """rich: True = full alphabet of inserted shapes, False = without the diamond,
    'min' = one fresh node and one relatives copy only"""
    ops = []

    def shapes(op, target):
        if rich == 'min':
            return [('single',)] + ([('copy', target if target is not None else g[0])] if g else []) + \
                ([('like', g[-1])] if g and op != 'updsub' else [])
        return shapes_for(g, op, target, rich)
    for s in shapes('add', None):
        ops.append(('add', s))
    for r in g:
        for m in ('none', 'single', 'all'):
            ops.append(('del', r, m))
        ops.append(('delsub', r))
        for s in shapes('updnode', r):
            ops.append(('updnode', r, s))
        for s in shapes('updsub', r):
            ops.append(('updsub', r, s))
    for p in g:
        for c in g:
            ops.append(('conn', p, c))
            # a non-edge is a no-op whatever the flag: try it once
            for fl in ((False, True) if p in heap[c][2] else (False,)):
                ops.append(('disc', p, c, fl))
    return ops


def dags(n, descending=False):
    """all DAGs on n nodes whose labelling is topological (parents have smaller index); the parent
    lists are ascending or descending (the order of nodes_from is observable by the operations)"""
    slots = [[tuple(reversed(c)) if descending else tuple(c)
              for k in range(i + 1) for c in itertools.combinations(range(i), k)] for i in range(n)]
    return [tuple(p) for p in itertools.product(*slots)] if n else [()]


def play(gspec, descs):
    """runs a sequence from scratch; returns (world, graph, records); stops at the first exception
    or when the observed graph stops being well-formed"""
    w, graph = build(gspec)
    recs = []
    alive = True
    for d in descs:
        rec = step(w, graph, d)
        recs.append(rec)
        if 'raise' in rec or not py_wf(*rec['after']):
            alive = False
            break
    return w, graph, recs, alive


class Collector:
    """collects the distinct steps; evaluates them in batches (keeps the memory footprint flat)"""
    BATCH = 15000

    def __init__(self, ctx):
        self.ctx = ctx
        self.seen = set()
        self.recs = []
        self.canary_done = False
        self.sampled = False

    def add(self, group, gspec, descs, rec):
        # the construction history of the containers is part of the identity of a case (aliasing is invisible
        # in the snapshot)
        key = hashlib.sha1(repr((rec['heap'], rec['g'], rec['op'], gspec[2:], tuple(rec['desc'][4:]) if rec['kind'] == 'disc' else (),
                                 [d for d in descs if d and isinstance(d[-1], tuple) and d[-1][:1] == ('like',)])).encode()).digest()
        if key in self.seen:
            return False
        self.seen.add(key)
        rec['group'] = group
        rec['replay'] = {'graph': [list(map(list, gspec[0])), list(gspec[1])] + ([jsonable(gspec[2])] if len(gspec) > 2 else []) +
                                  ([[list(kv) for kv in gspec[3]]] if len(gspec) > 3 else []),
                         'ops': jsonable(descs)}
        self.recs.append(rec)
        if len(self.recs) >= self.BATCH:
            self.flush()
        return True

    def flush(self):
        if self.recs:
            evaluate(self.ctx, self)
            self.recs = []


def jsonable(x):
    if isinstance(x, (tuple, list)):
        return [jsonable(y) for y in x]
    return x


def untuple(x):
    if isinstance(x, list):
        return tuple(untuple(y) for y in x)
    return x


def explore(col, group, gspec, depth, rich, rng=None, width=None, kinds=None):
    """all sequences of length <= depth from gspec (width: number of sampled continuations per
    state beyond the first step)"""
    def rec_explore(prefix, d):
        w, graph, recs, alive = play(gspec, prefix)
        if prefix:
            col.add(group, gspec, prefix, recs[-1])
        if not alive or d == 0:
            return
        heap, g = w.snap(graph)
        ops = applicable(heap, g, rich)
        if kinds is not None:
            ops = [o for o in ops if o[0] in kinds]
        if prefix and width is not None and len(ops) > width:
            ops = rng.sample(ops, width)
        for o in ops:
            rec_explore(prefix + [o], d - 1)
    rec_explore([], depth)


def random_gspec(rng, n):
    plists = []
    share = []
    for i in range(n):
        if i >= 2 and rng.random() < 0.15:      # built from the parent container of an earlier node
            a = rng.randrange(1, i)
            plists.append(plists[a])
            share.append((i, a, rng.choice(['ctor', 'setter'])))
            continue
        k = min(i, rng.choice([0, 1, 1, 2, 2, 3]))
        plists.append(tuple(rng.sample(range(i), k)))
    order = list(range(n))
    rng.shuffle(order)
    return tuple(plists), tuple(order), tuple(share)


def random_sequence(col, group, rng, n, length):
    gspec = random_gspec(rng, n)
    descs = []
    for _ in range(length):
        w, graph, recs, alive = play(gspec, descs)
        if descs:
            col.add(group, gspec, list(descs), recs[-1])
        if not alive:
            return
        heap, g = w.snap(graph)
        if not g:
            ops = applicable(heap, g, True)
        else:
            # uniform over operation kinds, then over arguments
            byk = {}
            for o in applicable(heap, g, True):
                byk.setdefault(o[0], []).append(o)
            ops = byk[rng.choice(sorted(byk))]
            if ops[0][0] == 'disc' and rng.random() < 0.7:     # prefer real edges
                real = [o for o in ops if o[1] in heap[o[2]][2]]
                ops = real or ops
        op = rng.choice(ops)
        if op[0] == 'disc':             # the flag in one of its forms (chosen without touching the random stream)
            op = op + (('bool', 'npbool', 'int')[(len(descs) + op[1] + op[2]) % 3],)
        descs.append(op)
    w, graph, recs, alive = play(gspec, descs)
    col.add(group, gspec, list(descs), recs[-1])


# ------------------------------------------------------------------------------------------
def evaluate(ctx, col):
    recs = col.recs
    cases = [c_case(r) for r in recs]
    # canary: an observation with one parent link dropped must be flagged by the model
    canary = None
    for r in ([] if col.canary_done else recs):
        if 'after' in r and r['kind'] == 'conn':
            h1, g1 = r['after']
            tgt = r['desc'][2]
            if r['desc'][1] in h1[tgt][2] and r['desc'][1] not in r['heap'][tgt][2]:
                bad = list(h1)
                u, l, ps, q = bad[tgt]
                bad[tgt] = (u, l, tuple(p for p in ps if p != r['desc'][1]), q)
                canary = dict(r)
                canary['after'] = (tuple(bad), g1)
                break
    if canary:
        cases.append(c_case(canary))
        ctx.canaries += 1
        col.canary_done = True
    res = ctx.coq_cases('steps', REQ, FN, cases, K, shard=500, preamble=PRE)
    if canary:
        ag, ho = res[-1][0], res[-1][1]
        if not ag and not ho:
            ctx.canaries_caught += 1
        res = res[:-1]
    for r, (ag, ho, dom, hwf, hspec, hacy, decl, hplain, domplain) in zip(recs, res):
        case = dict(r['replay'])
        case['step'] = {'heap': jsonable(r['heap']), 'g': list(r['g']), 'op': r['op'],
                        'observed': r.get('raise') or jsonable(r['after']), 'msg': r.get('msg', '')}
        changed = ('raise' in r) or (r['after'] != (r['heap'], r['g']))
        ctx.count(r['group'], key=(r['heap'], r['g'], r['op'], r['replay']['graph'][2:]) + tuple(r['desc'][4:] if r['kind'] == 'disc' else ()),
                  nontrivial=bool((dom or domplain) and changed),
                  op=r['kind'], in_domain=dom, in_plain_list_domain=domplain, model_declined=decl, members=len(r['g']),
                  outcome=r.get('raise', 'ok' if changed else 'no-change'))
        if not ho or not hplain:
            what = []
            if 'raise' in r:
                what.append('raises %s inside the domain%s' % (
                    r.get('msg'), '' if r.get('wf_after_raise', True) else ' and leaves an ill-formed graph behind'))
            elif not hplain and ho:
                what.append('user node class with a plain parent list: result not well-formed or differs from the '
                            'documented meaning')
            else:
                if not hwf:
                    what.append('result not well-formed')
                if not hspec:
                    what.append('node/edge/label sets differ from the documented meaning')
                if not hacy:
                    what.append('acyclic graph became cyclic')
            ctx.violate(r['group'], case, '%s: %s' % (r['op'], '; '.join(what)))
        if not ag:
            ctx.disagree(r['group'], case, 'model and implementation differ on %s %s' % (r['op'], r.get('note', '')))
    for r in ([] if col.sampled else recs[:1] + recs[len(recs) // 3:len(recs) // 3 + 1] + recs[-2:]):
        ctx.sample({'replay': r['replay'], 'op': r['op'], 'members_before': list(r['g']),
                    'observed': r.get('raise') or {'members': list(r['after'][1])}})
    col.sampled = True


def run(ctx):
    ctx.rule = ('one case per distinct (observed state before, operation): every step of every generated sequence; '
                'exhaustive: all topologically labelled DAGs <= 4 nodes (two constructor orders) x every operation with '
                'every member argument / reconnect mode / clean-up flag / inserted shape (single, chain of 2, two fresh '
                'parents, diamond, node on members, live member, deep copy of a member subtree = relatives), '
                'sequences of length <= 2 (quick, sampled second step) / <= 3 (thorough); random DAGs <= 12 nodes x '
                'sequences <= 8; non-trivial = inside the domain (well-formed start, member arguments, fresh '
                'insertions) and the step changes the graph or raises')
    ctx.trusted_extra = [
        'graph_has_cycle (used by sort_nodes) is modelled by its meaning on parent-closed graphs (C12 proves the code '
        'against it); copy.deepcopy is modelled as allocation of an isomorphic sub-heap keeping uids; uuid4 as a '
        'fresh number; harness matches copies created inside update_subtree positionally to their originals',
        'delete_subtree / update_subtree raise ValueError by design when the subtree contains a cycle: the domain of '
        'the no-raise clause excludes those arguments']
    col = Collector(ctx)
    rng = ctx.rng
    thorough = ctx.tier == 'thorough'
    # 1. exhaustive single steps on all DAGs <= 4 nodes; constructor order x order of the parent lists
    #    (quick, 4 nodes: full alphabet on forward/ascending, reduced alphabet on reverse/descending)
    for n in range(0, 5):
        for desc in ((False, True) if n > 2 else (False,)):
            for pl in dags(n, desc):
                fwd, rev = tuple(range(n)), tuple(reversed(range(n)))
                if n <= 1:
                    variants = [(fwd, True)]
                elif thorough or n < 4:
                    variants = [(fwd, True), (rev, True)]
                else:
                    variants = [(rev, 'min')] if desc else [(fwd, True)]
                for order, rich in variants:
                    explore(col, 'exhaustive-1', (pl, order), 1, rich)
    ctx.set_exhaustive('exhaustive-1', True)
    # 1b. nodes built from / assigned another member's nodes_from object (constructor form, setter form,
    #     self-assignment): every node must still own its parent container
    for n in range(2, 5):
        k = 0
        for pl in dags(n):
            pairs = [(b, a) for b in range(n) for a in range(b) if pl[a] == pl[b]]
            for (b, a) in pairs:
                forms = ('ctor', 'setter') if (thorough or n < 4) else (('ctor', 'setter')[k % 2],)
                k += 1
                if n == 4 and not thorough and k % 3 and not pl[a]:
                    continue            # quick: a third of the 4-node pairs that share an empty container
                for form in forms:
                    explore(col, 'shared-source', (pl, tuple(range(n)), ((b, a, form),)), 1,
                            True if thorough else 'min')
            if n == 3 or thorough:
                explore(col, 'shared-source', (pl, tuple(range(n)), tuple((i, i, 'setter') for i in range(n))), 1, 'min')
    # ... followed by a second operation
    for n in (2, 3):
        for pl in dags(n):
            for (b, a) in [(b, a) for b in range(n) for a in range(b) if pl[a] == pl[b]]:
                for form in ('ctor', 'setter'):
                    explore(col, 'shared-source', (pl, tuple(range(n)), ((b, a, form),)), 2, 'min', rng,
                            ctx.budget(3, 12))
    ctx.set_exhaustive('shared-source', False)
    # 1c. user node classes that implement GraphNode with an ordinary list (operations whose model does not
    #     depend on the class's own nodes_from setter)
    user_kinds = ('conn', 'disc', 'del', 'add', 'updnode')
    for cls in ('plain', 'tuple'):
        opt = (('cls', cls),)
        for n in range(1, 5 if thorough else 4):
            for pl in dags(n):
                explore(col, 'user-nodes', (pl, tuple(range(n)), (), opt), 1, 'min', kinds=user_kinds)
        for n in (2, 3):
            for pl in dags(n):
                explore(col, 'user-nodes', (pl, tuple(range(n)), (), opt), 2, 'min', rng, ctx.budget(2, 8),
                        kinds=user_kinds)
        if not thorough:
            for pl in rng.sample(dags(4), 10):
                explore(col, 'user-nodes', (pl, tuple(range(4)), (), opt), 1, 'min', kinds=user_kinds)
    ctx.set_exhaustive('user-nodes', False)
    # 1d. graphs built with a postprocess_nodes callback that validates (or records) the state it is handed
    for cb in ('validate', 'record'):
        opt = (('cb', cb),)
        for n in range(1, 4):
            for pl in dags(n):
                explore(col, 'callbacks', (pl, tuple(range(n)), (), opt), 1, False)
                explore(col, 'callbacks', (pl, tuple(range(n)), (), opt), 2, 'min', rng, ctx.budget(2, 8))
        for pl in (dags(4) if thorough else rng.sample(dags(4), 12)):
            explore(col, 'callbacks', (pl, tuple(range(4)), (), opt), 1, 'min')
    ctx.set_exhaustive('callbacks', False)
    # 1e. the clean-up flag of disconnect given as a numpy bool (result of a comparison) or an int, by keyword or
    #     positionally: every edge of every DAG <= 4 nodes (same abstract operation as with the plain bool)
    for n in range(2, 5):
        for pl in dags(n):
            gspec = (pl, tuple(range(n)))
            for c in range(n):
                for p in pl[c]:
                    for fl in (False, True):
                        for form in ('npbool', 'int'):
                            for how in ('keyword', 'positional'):
                                d = [('disc', p, c, fl, form, how)]
                                col.add('flag-forms', gspec, d, play(gspec, d)[2][-1])
    ctx.set_exhaustive('flag-forms', True)
    # 2. sequences of length 2 (and 3)
    if thorough:
        for n in range(1, 4):
            for pl in dict.fromkeys(dags(n) + dags(n, True)):
                explore(col, 'sequences', (pl, tuple(range(n))), 2, False, rng, 20)
        for pl in dags(4):
            explore(col, 'sequences', (pl, tuple(range(4))), 2, False, rng, 6)
        for n in range(1, 4):
            for pl in dags(n):
                explore(col, 'sequences', (pl, tuple(reversed(range(n)))), 3, False, rng, 4)
    else:
        w2 = ctx.budget(3, 3)
        for n in range(1, 4):
            for pl in dags(n):
                explore(col, 'sequences', (pl, tuple(range(n))), 2, False, rng, w2)
        for pl in rng.sample(dags(4), 12):
            explore(col, 'sequences', (pl, tuple(range(4))), 2, False, rng, 2)
    ctx.set_exhaustive('sequences', False)
    # 3. random larger graphs, longer sequences
    for _ in range(ctx.budget(100, 3000)):
        random_sequence(col, 'random', rng, rng.randint(3, 12), rng.randint(3, 8))
    ctx.set_exhaustive('random', False)
    col.flush()
    if not col.canary_done:
        ctx.error('canary', 'no step suitable for planting the canary was generated')


def replay(ctx, payload):
    v = payload.get('violation') or payload.get('first_disagreement') or payload
    case = v.get('case') if isinstance(v, dict) else None
    if not case or 'graph' not in case:
        return
    gspec = (tuple(tuple(p) for p in case['graph'][0]), tuple(case['graph'][1])) + \
        ((untuple(case['graph'][2]),) if len(case['graph']) > 2 else ()) + \
        ((untuple(case['graph'][3]),) if len(case['graph']) > 3 else ())
    descs = [untuple(d) for d in case['ops']]
    col = Collector(ctx)
    w, graph, recs, alive = play(gspec, descs)
    for i, r in enumerate(recs):
        col.add('replay', gspec, descs[:i + 1], r)
    col.canary_done = True      # replays carry no canary
    col.flush()
    col.canary_done = False
