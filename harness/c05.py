"""C05 - evaluation gives exactly the evaluable individuals their objective value.
Implementation: golem.core.optimisers.genetic.evaluation (MultiprocessingDispatcher,
SequentialDispatcher, DelegateEvaluator), objective.Objective / to_fitness, Individual.
Model: coq/theories/Evo/Evaluation.v (agree / holds_b / same_assignment_b).

Everything the real code calls back into (metrics, post-evaluation callback, delegate evaluator,
fake timer) is a top-level class of this module, so joblib can pickle it; metric and callback
calls are appended to a side file because with n_jobs > 1 they run in worker processes."""
import datetime
import gc
import os
import shutil
import tempfile
import time

from common import c_bool, c_list, c_nat, c_opt, c_Q

from golem.core.adapter import DirectAdapter
from golem.core.optimisers.fitness import MultiObjFitness, SingleObjFitness
from golem.core.optimisers.genetic.evaluation import (BaseGraphEvaluationDispatcher, DelegateEvaluator,
                                                      MultiprocessingDispatcher, ObjectiveEvaluationDispatcher,
                                                      SequentialDispatcher)
from golem.core.optimisers.fitness import null_fitness
from golem.core.optimisers.opt_history_objects.individual import GraphEvalResult
from golem.core.optimisers.graph import OptGraph, OptNode
from golem.core.optimisers.objective import Objective
from golem.core.optimisers.objective.objective_eval import ObjectiveEvaluate
from golem.core.optimisers.opt_history_objects.individual import Individual
from golem.core.optimisers.timer import OptimisationTimer, Timer

REQ = ['Evo.Evaluation']
CLAUSES = ['no exception', 'sound (only input individuals, valid fitness = objective of the evaluated graph)',
           'pre-evaluated passed through', 'no objective call on other graphs (no re-evaluation)',
           'not evaluable => left out', 'evaluable: returned iff it reached the objective, evaluated once',
           'generous limit cuts nobody off', 'one callback per objective call', 'expired limit: forced evaluation',
           'enabled delegate evaluator asked about every newly evaluated individual']
FN = ('fun co => match co with (c, ob) => [agree c ob; holds_b c ob; negb (o_raised ob); clause_sound c ob; '
      'clause_passthrough c ob; clause_no_reevaluation c ob; clause_left_out c ob; clause_exactly c ob; '
      'clause_generous c ob; clause_callback ob; clause_expired c ob; clause_delegate c ob] end')
NB = 2 + len(CLAUSES)
NOT_A_NUMBER = 987654321.0


# ----------------------------------------------------------------------------------------
# what the real code calls back into
# ----------------------------------------------------------------------------------------
def label_of(graph):
    return int(graph.nodes[0].name)


def make_graph(label):
    return OptGraph(OptNode({'name': str(label)}))


def _append(path, text):
    fd = os.open(path, os.O_WRONLY | os.O_APPEND | os.O_CREAT)
    try:
        os.write(fd, text.encode())
    finally:
        os.close(fd)


class Metric:
    """metric number k: behaviour per graph label from a table; logs every call"""

    def __init__(self, k, table, delays, path, oid=0):
        self.k, self.table, self.delays, self.path, self.oid = k, table, delays, path, oid

    def __call__(self, graph, scale=1.0, offset=0.0):
        # scale / offset arrive as keyword arguments of an ObjectiveEvaluate(objective, scale=..., offset=...)
        g = label_of(graph)
        _append(self.path, 'm %d %d %d\n' % (self.k, g, self.oid))      # oid tells objectives apart
        d = self.delays.get(g, 0) if self.k == 0 else 0
        if d:
            time.sleep(d)
        b = self.table[g][self.k]      # KeyError for an unknown label = the metric raises
        if b == 'raise':
            raise RuntimeError('metric failure injected by the C05 harness')
        if b == 'none':
            return None
        if b == 'nan':
            return float('nan')
        return scale * float(b) + offset


class Callback:
    """post-evaluation callback; `tag` tells the callbacks of a session apart in the side file"""

    def __init__(self, path, tag='c'):
        self.path, self.tag = path, tag

    def __call__(self, graph):
        _append(self.path, '%s %d\n' % (self.tag, label_of(graph)))


class EvaluationAborted(Exception):
    """raised by AbortingCallback: escapes evaluate_single and aborts the whole evaluation"""


class AbortingCallback(Callback):
    """post-evaluation callback that raises on its fail_at-th call (a fault outside the metrics)"""

    def __init__(self, path, tag='c', fail_at=1):
        super().__init__(path, tag)
        self.fail_at, self.calls = fail_at, 0

    def __call__(self, graph):
        super().__call__(graph)
        self.calls += 1
        if self.calls >= self.fail_at:
            raise EvaluationAborted('evaluation aborted by the C05 harness')


class Delegate(DelegateEvaluator):
    """compute_graphs returns modified copies: label add + mul*position + g, last `drop` missing"""

    def __init__(self, add, mul, drop, enabled):
        self.add, self.mul, self.drop, self.enabled = add, mul, drop, enabled
        self.calls = []

    @property
    def is_enabled(self):
        return self.enabled

    def compute_graphs(self, graphs):
        gin = [label_of(g) for g in graphs]
        gout = delegate_images(self.add, self.mul, self.drop, gin)
        self.calls.append((gin, gout))
        return [make_graph(g) for g in gout]


def delegate_images(add, mul, drop, gin):
    out = [add + mul * p + g for p, g in enumerate(gin)]
    return out[:max(0, len(gin) - drop)]


def permuted(items, mode, seed=0):
    """the order in which an as-completed backend hands the results over"""
    items = list(items)
    if mode == 'reversed':
        return items[::-1]
    if mode == 'rotated':
        return items[1:] + items[:1]
    if mode == 'shuffled':
        import random
        random.Random(seed).shuffle(items)
        return items
    return items


class AsCompletedDispatcher(BaseGraphEvaluationDispatcher):
    """a dispatcher built from the public pieces of the base class whose backend returns the results in
    completion order (reversed / rotated / shuffled), not in submission order"""

    def __init__(self, adapter, completion, seed=0, delegate_evaluator=None):
        super().__init__(adapter, delegate_evaluator=delegate_evaluator)
        self.completion, self.seed = completion, seed

    def evaluate_population(self, individuals):
        to_evaluate, to_skip = self.split_individuals_to_evaluate(individuals)
        self._remote_compute_cache(individuals)
        results = [self.evaluate_single(ind.graph, ind.uid, cache_key=ind.uid) for ind in to_evaluate]
        self._reset_eval_cache()
        evaluated = self.apply_evaluation_results(to_evaluate, permuted(results, self.completion, self.seed))
        return evaluated + to_skip


class FakeTimer:
    """answers is_time_limit_reached by call index (only used in-process, n_jobs = 1)"""

    def __init__(self, pattern, rest):
        self.pattern, self.rest, self.calls = list(pattern), rest, 0

    def is_time_limit_reached(self, *args, **kwargs):
        k = self.calls
        self.calls += 1
        return self.pattern[k] if k < len(self.pattern) else self.rest


# ----------------------------------------------------------------------------------------
# scenario -> real objects -> observation
# ----------------------------------------------------------------------------------------
def build_population(sc):
    """individuals of the scenario; 'rep' = the same pre-evaluated object again, 'dup' = another
    object with the uid of an earlier not-yet-evaluated one (outside the property's quantifier)"""
    pop = []
    for d in sc['pop']:
        if d['kind'] == 'new':
            pop.append(Individual(make_graph(d['label'])))
        elif d['kind'] == 'pre':
            fit = MultiObjFitness(values=tuple(d['pre']), weights=1.) if d['pre_multi'] else SingleObjFitness(*d['pre'])
            pop.append(Individual(make_graph(d['label']), fitness=fit))
        elif d['kind'] == 'inplace':
            # default-constructed individual whose (already known) fitness is stored through the public
            # in-place API of Fitness
            ind = Individual(make_graph(d['label']))
            ind.fitness.values = tuple(d['pre'])
            pop.append(ind)
        elif d['kind'] == 'rep':
            pop.append(pop[d['ref']])
        elif d['kind'] == 'dup':
            pop.append(Individual(make_graph(d['label']), uid=pop[d['ref']].uid))
        else:
            raise ValueError(d['kind'])
    return pop


def intended_fitness(sc):
    """the fitness every individual of a freshly built population has by construction: none for a
    default-constructed one nothing was assigned to (NOT read back from the objects - an Individual that reports
    a fitness nobody gave it is a fault of the code under test, not part of the input)"""
    out = []
    for d in sc['pop']:
        if d['kind'] in ('new', 'dup'):
            out.append(['N', []])
        elif d['kind'] == 'pre':
            out.append(['M' if d['pre_multi'] else 'S', [float(v) for v in d['pre']]])
        elif d['kind'] == 'inplace':
            out.append(['S', [float(v) for v in d['pre']]])
        else:
            out.append(out[d['ref']])
    return out


def canon_fit(f):
    """('N',) | ('S', values) | ('M', values)"""
    if not f.valid:
        return ['N', []]
    # a value that is not a finite number (NaN in a "valid" fitness) is shown to Coq as a sentinel
    # no table contains, so that the oracle flags the individual instead of the printer failing
    vals = [float(v) if isinstance(v, (int, float)) and v == v and abs(v) != float('inf') else NOT_A_NUMBER
            for v in f.values]
    return ['M' if isinstance(f, MultiObjFitness) else 'S', vals]


SHARED_BUDGET_S = 600


def make_timer(t, shared=None):
    kind = t['kind']
    if kind == 'shared_opt':
        # ONE OptimisationTimer object (10 minutes) re-entered in every round of the session; elapsed time is
        # simulated by moving the start set by __enter__ into the past (no waiting)
        shared.__enter__()
        if t['phase'] == 'expired':
            shared.start -= datetime.timedelta(seconds=SHARED_BUDGET_S + 1)
        elif t['phase'] == 'left_after_estimate':
            shared.start -= datetime.timedelta(seconds=0.6 * SHARED_BUDGET_S)
            # one more iteration like the first would not fit: the caller is told to stop iterating ...
            t['estimate_said_reached'] = bool(shared.is_time_limit_reached(iteration_num=1))
            # ... and evaluates its final candidates in the 40 % of the budget that are left
        return shared, shared
    if kind == 'none':
        return None, None
    if kind == 'fake':
        return FakeTimer(t['pattern'], t['rest']), None
    if kind == 'expired':
        tm = Timer(timeout=datetime.timedelta(0))
    elif kind == 'expired_opt':
        tm = OptimisationTimer(timeout=datetime.timedelta(0))
    elif kind == 'tiny':
        tm = Timer(timeout=datetime.timedelta(milliseconds=1))
        tm.__enter__()
        time.sleep(0.005)           # the limit has passed before the first evaluation starts
        return tm, tm
    elif kind == 'generous':
        tm = Timer(timeout=datetime.timedelta(minutes=30))
    elif kind == 'generous_opt':
        tm = OptimisationTimer(timeout=datetime.timedelta(minutes=30))
    else:
        raise ValueError(kind)
    tm.__enter__()
    return tm, tm


def timer_pattern(t):
    if t['kind'] == 'fake':
        return list(t['pattern']), bool(t['rest'])
    if t['kind'].startswith('expired') or t['kind'] == 'tiny' or (t['kind'] == 'shared_opt' and t['phase'] == 'expired'):
        return [], True
    return [], False


WRONG_CALLBACK = 50000      # a call of a callback that is not the one currently set is shown as this + label


def make_dispatcher(run, dg, adapter=None):
    adapter = adapter or DirectAdapter()
    delegate = Delegate(dg['add'], dg['mul'], dg['drop'], dg['enabled']) if dg else None
    if run.get('completion'):
        disp = AsCompletedDispatcher(adapter, run['completion'], run.get('seed', 0), delegate_evaluator=delegate)
    elif run['par']:
        disp = MultiprocessingDispatcher(adapter, n_jobs=run['n_jobs'], delegate_evaluator=delegate)
    else:
        disp = SequentialDispatcher(adapter, delegate_evaluator=delegate)
    return disp, delegate


_OBJECTIVE_IDS = [0]


def dispatch_step(disp, sc, run, tmpdir, cb_tag='c', abort_at=None, shared_timer=None):
    """set the callback and dispatch(objective, timer) on `disp`; returns what run_step needs"""
    path = os.path.join(tmpdir, 'events.log')
    table = {int(k): v for k, v in sc['table'].items()}
    delays = {int(k): v for k, v in run.get('delays', {}).items()}
    _OBJECTIVE_IDS[0] += 1
    oid = _OBJECTIVE_IDS[0]
    metrics = {'m%d' % k: Metric(k, table, delays, path, oid) for k in range(sc['nmetrics'])}
    objective = Objective(metrics, is_multi_objective=sc['multi'])
    if sc.get('objective_kwargs'):
        # the objective handed to dispatch() is an ObjectiveEvaluate whose keyword arguments reach the metrics
        objective = ObjectiveEvaluate(objective, **sc['objective_kwargs'])
    disp.set_graph_evaluation_callback(AbortingCallback(path, cb_tag, abort_at) if abort_at else Callback(path, cb_tag))
    timer, entered = make_timer(sc['timer'], shared_timer)
    h = {'sc': sc, 'path': path, 'oid': oid, 'cb_tag': cb_tag, 'entered': entered, 'evaluator': None, 'raised': None}
    try:
        h['evaluator'] = disp.dispatch(objective, timer)
    except Exception as ex:  # noqa
        h['raised'] = '%s: %s' % (type(ex).__name__, ex)
    return h


def run_step(h, delegate, pop=None):
    """one evaluation with the operator a dispatch_step returned; canonical observation and the population"""
    sc, path, cb_tag = h['sc'], h['path'], h['cb_tag']
    if os.path.exists(path):
        os.remove(path)
    fresh = pop is None
    if fresh:
        pop = build_population(sc)
    if delegate is not None and sc.get('delegate'):
        delegate.enabled = bool(sc['delegate']['enabled'])        # is_enabled is read at every evaluation
    # canonical uid: position of the first individual of the input carrying that uid string
    first = {}
    for j, ind in enumerate(pop):
        first.setdefault(ind.uid, j)
    uids_in = [first[ind.uid] for ind in pop]
    pre_in = intended_fitness(sc) if fresh else [canon_fit(ind.fitness) for ind in pop]
    labels_in = [label_of(ind.graph) for ind in pop]
    calls_before = len(delegate.calls) if delegate else 0
    raised = h['raised']
    out = []
    try:
        if raised is None:
            result = h['evaluator'](pop)
            for x in result:
                j = next((j for j, ind in enumerate(pop) if ind is x), None)   # must BE an input object
                out.append([uids_in[j] if j is not None else 9000 + first.get(x.uid, 999),
                            canon_fit(x.fitness), label_of(x.graph)])
    except Exception as ex:  # noqa
        raised = '%s: %s' % (type(ex).__name__, ex)
    log = []
    if os.path.exists(path):
        for ln in open(path).read().split('\n'):
            w = ln.split()
            if not w:
                continue
            if w[0] == 'm':
                # a metric of an objective that is not the one dispatched last on this dispatcher, or a callback
                # that is not the one set on it, is shown as a call on an unknown graph
                log.append(['m', int(w[1]), int(w[2]) if int(w[3]) == h['oid'] else WRONG_CALLBACK + int(w[2])])
            else:
                log.append(['c', int(w[1]) if w[0] == cb_tag else WRONG_CALLBACK + int(w[1])])
    ob = {'uids': uids_in, 'pre': pre_in, 'labels': labels_in, 'raised': raised, 'out': out, 'log': log,
          'deleg': [[list(a), list(b)] for a, b in (delegate.calls[calls_before:] if delegate else [])]}
    return ob, pop


def close_step(h):
    if h.get('entered') is not None:
        try:
            h['entered'].__exit__(None, None, None)
        except Exception:  # noqa
            pass
        h['entered'] = None


def evaluate_step(disp, delegate, sc, run, tmpdir, pop=None, cb_tag='c', abort_at=None, shared_timer=None):
    """dispatch(objective, timer) + set callback + one evaluation on `disp`; canonical observation.
    Returns (observation, population objects)."""
    h = dispatch_step(disp, sc, run, tmpdir, cb_tag, abort_at, shared_timer)
    try:
        return run_step(h, delegate, pop)
    finally:
        close_step(h)


def observe(sc, run, tmpdir):
    """one dispatcher call on a fresh dispatcher and fresh objects; returns the canonical observation"""
    disp, delegate = make_dispatcher(run, sc.get('delegate'))
    return evaluate_step(disp, delegate, sc, run, tmpdir)[0]


def observe_session(ses, tmpdir):
    """several dispatch + evaluate rounds on ONE dispatcher object; a list of (scenario, run, observation)"""
    run = {'par': ses['par'], 'n_jobs': ses['n_jobs']}
    disp, delegate = make_dispatcher(run, ses.get('delegate'))
    out, pop = [], None
    shared = OptimisationTimer(timeout=datetime.timedelta(seconds=SHARED_BUDGET_S)) if ses.get('shared_timer') else None
    for st in ses['steps']:
        ob, pop = evaluate_step(disp, delegate, st['sc'], run, tmpdir, pop=pop if st.get('reuse') else None,
                                cb_tag=st.get('cb', 'c'), abort_at=st.get('abort_at'), shared_timer=shared)
        ob['aborted'] = bool(st.get('abort_at'))
        out.append((st['sc'], run, ob))
    return out


# ----------------------------------------------------------------------------------------
# printing cases as Coq terms
# ----------------------------------------------------------------------------------------
def coq_fit(f):
    kind, vals = f
    if kind == 'N':
        return 'Null'
    return '(%s %s)' % ('FMulti' if kind == 'M' else 'FSingle', c_list([c_Q(v) for v in vals], 'Q'))


def coq_ind(u, f, g):
    return '{| uid := %s; fitness := %s; gr := %s |}' % (c_nat(u), coq_fit(f), c_nat(g))


def coq_mres(b):
    return {'raise': 'MRaise', 'none': 'MNone', 'nan': 'MNaN'}.get(b) or '(MVal %s)' % c_Q(b)


def coq_ev(e):
    return '(EvMetric %s %s)' % (c_nat(e[1]), c_nat(e[2])) if e[0] == 'm' else '(EvCallback %s)' % c_nat(e[1])


def coq_graphs(gs):
    return c_list([c_nat(g) for g in gs], 'nat')


def coq_case(sc, run, ob):
    pattern, rest = timer_pattern(sc['timer'])
    dg = sc.get('delegate')
    dspec = None
    if dg and dg['enabled']:
        dspec = '{| d_add := %s; d_mul := %s; d_drop := %s |}' % (c_nat(dg['add']), c_nat(dg['mul']), c_nat(dg['drop']))
    pop = c_list([coq_ind(u, f, g) for u, f, g in zip(ob['uids'], ob['pre'], ob['labels'])], 'ind')
    kw = sc.get('objective_kwargs') or {}
    scale, offset = kw.get('scale', 1.0), kw.get('offset', 0.0)

    def eff(b):      # the objective is the ObjectiveEvaluate: metric value = scale * table value + offset
        return b if isinstance(b, str) else scale * float(b) + offset
    tbl = c_list(['(%s, %s)' % (c_nat(int(g)), c_list([coq_mres(eff(b)) for b in row], 'mres'))
                  for g, row in sorted(sc['table'].items(), key=lambda kv: int(kv[0]))], '(graph * list mres)')
    case = ('{| c_par := %s; c_ordered := %s; c_pop := %s; c_tbl := %s; c_nmetrics := %s; c_multi := %s; '
            'c_timer := %s; c_timer_rest := %s; c_delegate := %s |}') % (
        c_bool(run['par']), c_bool((not run['par']) or run['n_jobs'] == 1), pop, tbl, c_nat(sc['nmetrics']),
        c_bool(sc['multi']), c_list([c_bool(b) for b in pattern], 'bool'), c_bool(rest),
        c_opt(dspec, str, 'dspec'))
    obs = '{| o_raised := %s; o_out := %s; o_log := %s; o_deleg := %s |}' % (
        c_bool(ob['raised'] is not None),
        c_list([coq_ind(u, f, g) for u, f, g in ob['out']], 'ind'),
        c_list([coq_ev(e) for e in ob['log']], 'ev'),
        c_list(['(%s, %s)' % (coq_graphs(a), coq_graphs(b)) for a, b in ob['deleg']], '(list graph * list graph)'))
    return '(%s, %s)' % (case, obs)


# ----------------------------------------------------------------------------------------
# scenario generation
# ----------------------------------------------------------------------------------------
VALUES = [-2.0, -0.75, 0.0, 0.25, 0.5, 1.0, 1.5, 3.0]
FAILS = ['raise', 'none', 'nan']
PRE_VALUES = [-3.0, -1.25, 0.125, 0.75, 2.5, 4.0]      # fitness given beforehand: no metric returns these


def gen_row(rng, nmetrics, p_fail):
    row = [rng.choice(VALUES) for _ in range(nmetrics)]
    if rng.random() < p_fail:
        row[rng.randrange(nmetrics)] = rng.choice(FAILS)
        if nmetrics > 1 and rng.random() < 0.3:
            row[rng.randrange(nmetrics)] = rng.choice(FAILS)
    return row


def gen_scenario(rng, n, allow_fake_timer=True, allow_delegate=True, force=None):
    force = force or {}
    nmetrics = force.get('nmetrics', rng.choice([1, 1, 2, 3]))
    multi = force.get('multi', rng.random() < 0.4)
    p_pre = force.get('p_pre', rng.choice([0.0, 0.0, 0.25, 0.5]))
    p_fail = force.get('p_fail', rng.choice([0.0, 0.3, 0.6, 1.0]))
    share_label = force.get('share', True) and rng.random() < 0.08          # two individuals with equal graphs
    pop = []
    for j in range(n):
        pres = [k for k, d in enumerate(pop) if d['kind'] in ('pre', 'inplace')]
        r = rng.random()
        label = j
        if share_label and j > 0 and rng.random() < 0.3:
            label = rng.randrange(j)
        if r < p_pre:
            if pres and rng.random() < 0.35:
                k = rng.choice(pres)
                pop.append({'kind': 'rep', 'ref': k, 'label': pop[k]['label']})
            else:
                pm = rng.random() < 0.3
                if not pm and rng.random() < 0.45:
                    pop.append({'kind': 'inplace', 'label': label, 'pre': [rng.choice(PRE_VALUES) for _ in range(rng.choice([1, 2]))]})
                else:
                    pop.append({'kind': 'pre', 'label': label, 'pre_multi': pm,
                                'pre': [rng.choice(PRE_VALUES) for _ in range(2 if pm else rng.choice([1, 2]))]})
        else:
            pop.append({'kind': 'new', 'label': label})
    if force.get('dup') and n >= 2:
        news = [k for k, d in enumerate(pop) if d['kind'] == 'new']
        if news:
            k = rng.choice(news)
            pop.append({'kind': 'dup', 'ref': k, 'label': n})
    # time limit
    tk = force.get('timer')
    if tk is None:
        tk = rng.choice(['none', 'generous', 'generous_opt', 'expired', 'expired_opt', 'fake', 'fake', 'fake']
                        if allow_fake_timer else ['none', 'generous', 'generous_opt', 'expired', 'expired_opt'])
    timer = {'kind': tk}
    if tk == 'fake':
        style = rng.choice(['random', 'monotone', 'all', 'none'])
        m = len(pop) + 1
        if style == 'random':
            pat = [rng.random() < 0.5 for _ in range(m)]
        elif style == 'monotone':
            cut = rng.randrange(m + 1)
            pat = [k >= cut for k in range(m)]
        else:
            pat = [style == 'all'] * m
        timer.update(pattern=pat, rest=bool(pat[-1]) if style != 'random' else rng.random() < 0.5)
    # delegate evaluator
    delegate = force.get('delegate')
    if delegate is None and allow_delegate and rng.random() < 0.35:
        delegate = {'add': 100, 'mul': rng.choice([0, 20]), 'drop': rng.choice([0, 0, 0, 1, 2]),
                    'enabled': rng.random() < 0.85}
    if delegate and share_label:
        # equal graphs must get equal images: "the graph computed for it" is looked up by label
        delegate['mul'], delegate['drop'] = 0, 0
    labels = sorted({d['label'] for d in pop})
    table = {str(g): gen_row(rng, nmetrics, p_fail) for g in labels}
    if delegate:
        # the parallel dispatcher hands the reversed population to the delegate, the sequential one the input order
        for gin in ([d['label'] for d in reversed(pop)], [d['label'] for d in pop]):
            for g in delegate_images(delegate['add'], delegate['mul'], 0, gin):
                table.setdefault(str(g), gen_row(rng, nmetrics, p_fail))
    sc = {'pop': pop, 'table': table, 'nmetrics': nmetrics, 'multi': multi, 'timer': timer, 'delegate': delegate}
    if rng.random() < 0.3:
        sc['objective_kwargs'] = {'scale': rng.choice([2.0, 0.5, 4.0, -1.0]), 'offset': rng.choice([0.0, 1.0, -0.5])}
    return sc


def gen_session(rng, par, n_jobs):
    """one dispatcher object, 2..4 rounds of dispatch(objective, timer) + evaluate; the objective, the timer and
    the callback change between the rounds; a round may re-evaluate the population objects of the previous one"""
    free = ['none', 'none', 'generous', 'generous_opt']
    if rng.random() < 0.3:
        # a round with an ENABLED delegate is aborted by an exception escaping the evaluation (raising callback);
        # then the delegate is switched off (mostly) and the same, still unevaluated individuals are evaluated again
        dg = {'add': 100, 'mul': rng.choice([0, 20]), 'drop': 0, 'enabled': True}
        while True:
            sc0 = gen_scenario(rng, rng.choice([1, 2, 3, 4, 6]), allow_fake_timer=False, allow_delegate=False,
                               force={'timer': rng.choice(free), 'delegate': dict(dg), 'share': False,
                                      'p_pre': rng.choice([0.0, 0.0, 0.25])})
            news = sum(1 for d in sc0['pop'] if d['kind'] == 'new')
            if news:
                break
        steps = [{'sc': sc0, 'cb': rng.choice(['c', 'k']), 'reuse': False, 'abort_at': rng.choice([1, min(2, news)]) if n_jobs == 1 else 1}]   # the counter is per worker process
        sc1 = dict(sc0, timer={'kind': rng.choice(free)}, delegate=dict(dg, enabled=rng.random() < 0.25),
                   table={g: gen_row(rng, sc0['nmetrics'], rng.choice([0.0, 0.0, 0.3])) for g in sc0['table']})
        steps.append({'sc': sc1, 'cb': rng.choice(['c', 'k']), 'reuse': True})
        if rng.random() < 0.4:
            sc2 = gen_scenario(rng, rng.choice([1, 2, 4]), allow_fake_timer=False, allow_delegate=False,
                               force={'timer': rng.choice(free), 'delegate': dict(dg, enabled=rng.random() < 0.5), 'share': False})
            steps.append({'sc': sc2, 'cb': rng.choice(['c', 'k']), 'reuse': False})
        return {'par': par, 'n_jobs': n_jobs, 'delegate': dg, 'steps': steps}
    dg = None
    if rng.random() < 0.3:
        dg = {'add': 100, 'mul': rng.choice([0, 20]), 'drop': rng.choice([0, 0, 1]), 'enabled': rng.random() < 0.85}
    limited = ['expired', 'expired_opt', 'tiny']
    if rng.random() < 0.3:
        # ONE OptimisationTimer object re-entered in every round: expired in one round, time left in the next;
        # is_time_limit_reached(iteration_num=1) answering "reached" from its estimate before a round with time left
        phases = rng.choice([['expired', 'left'], ['left', 'expired', 'left'], ['left_after_estimate', 'left'],
                             ['expired', 'left_after_estimate'], ['expired', 'expired', 'left']])
        steps = []
        for ph in phases:
            sc = gen_scenario(rng, rng.choice([1, 2, 3, 4, 6]), allow_fake_timer=False, allow_delegate=False,
                              force={'timer': 'none', 'delegate': dict(dg) if dg else None, 'share': False})
            sc['timer'] = {'kind': 'shared_opt', 'phase': ph}
            steps.append({'sc': sc, 'cb': rng.choice(['c', 'k']), 'reuse': False})
        return {'par': par, 'n_jobs': n_jobs, 'delegate': dg, 'steps': steps, 'shared_timer': True}
    shape = rng.random()
    if shape < 0.4:
        timers = [rng.choice(limited), 'none'] + [rng.choice(limited + free) for _ in range(rng.choice([0, 0, 1, 2]))]
    elif shape < 0.6:
        timers = ['none', rng.choice(limited)] + [rng.choice(limited + free) for _ in range(rng.choice([0, 1]))]
    else:
        timers = [rng.choice(limited + free) for _ in range(rng.choice([2, 3, 4]))]
    steps = []
    for k, tk in enumerate(timers):
        n = rng.choice([1, 2, 3, 4, 6, 9])
        sc = gen_scenario(rng, n, allow_fake_timer=False, allow_delegate=False,
                          force={'timer': tk, 'delegate': dict(dg) if dg else None, 'share': False})
        reuse = bool(k > 0 and dg is None and rng.random() < 0.45)
        if reuse:
            # the same Individual objects again (those evaluated in the previous round are pre-evaluated now),
            # under a new objective over the same graphs
            prev = steps[-1]['sc']
            sc['pop'] = prev['pop']
            sc['table'] = {g: gen_row(rng, sc['nmetrics'], rng.choice([0.0, 0.3, 0.6])) for g in prev['table']}
        steps.append({'sc': sc, 'cb': rng.choice(['c', 'k']), 'reuse': reuse})
    return {'par': par, 'n_jobs': n_jobs, 'delegate': dg, 'steps': steps}


def observe_group(grp, tmpdir):
    """two or three dispatcher objects built over ONE shared adapter instance, each dispatched with its own
    objective table and callback, used alternately; returns [(op index, scenario, run, observation)] for the
    evaluations; every evaluation is on a fresh population of the scenario dispatched last on that dispatcher"""
    adapter = DirectAdapter()
    runs = [{'par': d['par'], 'n_jobs': d['n_jobs']} for d in grp['dispatchers']]
    made = [make_dispatcher(r, d.get('delegate'), adapter) for r, d in zip(runs, grp['dispatchers'])]
    handles = [None] * len(made)
    out = []
    try:
        for k, op in enumerate(grp['ops']):
            j = op['d']
            if op['op'] == 'dispatch':
                if handles[j]:
                    close_step(handles[j])
                handles[j] = dispatch_step(made[j][0], op['sc'], runs[j], tmpdir, op['cb'])
            else:
                ob, _ = run_step(handles[j], made[j][1])
                ob['aborted'] = False
                out.append((k, handles[j]['sc'], runs[j], ob))
    finally:
        for h in handles:
            if h:
                close_step(h)
    return out


def gen_group(rng, with_workers=False):
    n = rng.choice([2, 2, 3])
    shape = rng.choice(['par', 'seq', 'mixed', 'mixed'])
    disps = []
    for j in range(n):
        par = shape == 'par' or (shape == 'mixed' and (j % 2 == 0) == (rng.random() < 0.5 or j > 0 and not disps[0]['par']))
        if shape == 'mixed' and j == n - 1 and all(d['par'] == par for d in disps):
            par = not par
        dg = None
        if rng.random() < 0.25:
            dg = {'add': 100, 'mul': rng.choice([0, 20]), 'drop': 0, 'enabled': True}
        disps.append({'par': par, 'n_jobs': 2 if (with_workers and par and j == 0) else 1, 'delegate': dg})
    free = ['none', 'none', 'generous', 'generous_opt', 'expired']

    def scen(j):
        dg = disps[j]['delegate']
        return gen_scenario(rng, rng.choice([1, 2, 3, 4, 6]), allow_fake_timer=False, allow_delegate=False,
                            force={'timer': rng.choice(free), 'delegate': dict(dg) if dg else None, 'share': False,
                                   'p_fail': rng.choice([0.0, 0.0, 0.3])})
    ops = [{'op': 'dispatch', 'd': j, 'sc': scen(j), 'cb': 'a%d' % j} for j in range(n)]
    rng.shuffle(ops)
    order = list(range(n))
    for _ in range(rng.choice([1, 2])):
        rng.shuffle(order)
        ops += [{'op': 'eval', 'd': j} for j in order]
    if rng.random() < 0.5:                        # one of them is dispatched again with another objective / callback
        j = rng.randrange(n)
        ops.append({'op': 'dispatch', 'd': j, 'sc': scen(j), 'cb': 'b%d' % j})
        rng.shuffle(order)
        ops += [{'op': 'eval', 'd': i} for i in order]
    return {'dispatchers': disps, 'ops': ops}


def gen_delays(rng, sc):
    """per-label sleeps (seconds) that permute the completion order of the workers"""
    labels = [int(g) for g in sc['table']]
    return {str(g): rng.choice([0, 0, 0.005, 0.01, 0.02, 0.04]) for g in labels}


def small_scope():
    """exhaustive: populations of <= 2 individuals over {new-ok, new-raise, new-none, new-nan, pre, pre-in-place},
    timers {generous, expired}, both dispatchers (n_jobs 1), single objective"""
    kinds = ['ok', 'raise', 'none', 'nan', 'pre', 'inplace']
    pops = [[]] + [[a] for a in kinds] + [[a, b] for a in kinds for b in kinds]
    out = []
    for p in pops:
        for tk in ('generous', 'expired'):
            pop, table = [], {}
            for j, k in enumerate(p):
                if k in ('pre', 'inplace'):
                    pop.append({'kind': 'pre', 'label': j, 'pre_multi': False, 'pre': [0.75]} if k == 'pre' else
                               {'kind': 'inplace', 'label': j, 'pre': [0.75]})
                    table[str(j)] = [1.0]
                else:
                    pop.append({'kind': 'new', 'label': j})
                    table[str(j)] = [1.5 + j] if k == 'ok' else [k]
            out.append({'pop': pop, 'table': table, 'nmetrics': 1, 'multi': False, 'timer': {'kind': tk},
                        'delegate': None})
    return out


def in_scope(sc):
    return all(d['kind'] != 'dup' for d in sc['pop'])


def classify(sc, run, ob):
    news = [d for d in sc['pop'] if d['kind'] in ('new', 'dup')]
    pre = [d for d in sc['pop'] if d['kind'] in ('pre', 'rep', 'inplace')]
    fails = sum(1 for d in news if any(isinstance(b, str) for b in sc['table'][str(d['label'])]))
    mix = 'none-new' if not news else 'all-fail' if fails == len(news) else 'all-ok' if fails == 0 else 'mixed'
    return dict(dispatcher='as-completed' if run.get('completion') else 'parallel' if run['par'] else 'sequential', n_jobs=run['n_jobs'] if run['par'] else 0,
                size=len(sc['pop']), timer=sc['timer']['kind'] + ('/' + sc['timer']['phase'] if 'phase' in sc['timer'] else ''),
                objective_kwargs=bool(sc.get('objective_kwargs')), failures=mix,
                pre_evaluated='some' if pre else 'none', in_place=any(d['kind'] == 'inplace' for d in sc['pop']), repeated=any(d['kind'] == 'rep' for d in sc['pop']),
                delegate=('enabled' if sc['delegate']['enabled'] else 'disabled') if sc.get('delegate') else 'absent',
                objective='multi' if sc['multi'] else 'single', metrics=sc['nmetrics'],
                returned=len(ob['out']), in_scope=in_scope(sc))


def nontrivial(sc, ob):
    """a case exercises the property when something had to be evaluated and the outcome is not
    uniform: at least one not-yet-evaluated individual, and (someone returned or someone left out)"""
    return in_scope(sc) and any(d['kind'] == 'new' for d in sc['pop'])


def case_key(sc, run):
    return (run['par'], run['n_jobs'], run.get('completion'), run.get('seed'), repr(sorted(run.get('delays', {}).items())), repr(sc))


# ----------------------------------------------------------------------------------------
# the check
# ----------------------------------------------------------------------------------------
def evaluate_cases(ctx, group, triples, with_canary=False):
    """triples: (scenario, run, observation); emits Coq cases, registers results"""
    extras = [t[3] if len(t) > 3 else {} for t in triples]
    triples = [t[:3] for t in triples]
    cases = [coq_case(sc, run, ob) for sc, run, ob in triples]
    canary_at = None
    if with_canary:
        for sc, run, ob in triples:
            new_out = [k for k, x in enumerate(ob['out']) if x[1][0] != 'N' and x[0] < len(sc['pop']) and
                       sc['pop'][x[0]]['kind'] == 'new']
            if in_scope(sc) and new_out:
                import copy
                bad = copy.deepcopy(ob)
                bad['out'][new_out[0]][1][1][0] += 1.0        # a wrong fitness value
                cases.append(coq_case(sc, run, bad))
                canary_at = len(cases) - 1
                ctx.canaries += 1
                break
    res = ctx.coq_cases(group, REQ, FN, cases, NB, shard=60)
    if canary_at is not None and res[canary_at][:2] == (False, False):
        ctx.canaries_caught += 1
    for (sc, run, ob), bits, extra in zip(triples, res, extras):
        ag, ho = bits[0], bits[1]
        case = dict({'scenario': sc, 'run': run, 'observed': ob}, **extra)
        ctx.count(group, key=case_key(sc, run), nontrivial=nontrivial(sc, ob), **classify(sc, run, ob))
        if not ho:
            what = describe_violation(sc, run, ob, bits[2:])
            if 'group' in extra:
                g = extra['group']
                what = ('operation %d of a session with %d dispatcher objects over ONE shared adapter (%s; dispatcher %d): %s'
                        % (extra['op'] + 1, len(g['dispatchers']),
                           '/'.join('parallel' if d['par'] else 'sequential' for d in g['dispatchers']),
                           g['ops'][extra['op']]['d'], what))
            if 'session' in extra:
                what = ('round %d of a session on ONE dispatcher object (time limits of the rounds: %s; this round: %s): %s'
                        % (extra['step'] + 1, [st['sc']['timer'].get('phase') and 'one OptimisationTimer re-entered: ' + st['sc']['timer']['phase'] or st['sc']['timer']['kind'] for st in extra['session']['steps']],
                           sc['timer']['kind'], what))
            ctx.violate(group, case, what)
        if not ag:
            ctx.disagree(group, case, 'model and implementation differ (returned individuals, event log or delegate calls)')
    return res


def describe_violation(sc, run, ob, clause_bits=()):
    failed = [name for name, ok in zip(CLAUSES, clause_bits) if not ok]
    head = 'evaluation of a population of %d by the %s dispatcher (n_jobs=%s)' % (
        len(sc['pop']), ('as-completed (%s results)' % run['completion']) if run.get('completion') else
        'parallel' if run['par'] else 'sequential', run.get('n_jobs'))
    if ob['raised']:
        head += ' raised ' + ob['raised']
    return '%s violates: %s; returned (uid, fitness, graph) %s' % (head, '; '.join(failed) or '?', ob['out'])


def run(ctx):
    ctx.rule = ('one case = one call of the evaluation operator returned by dispatch() of the real '
                'MultiprocessingDispatcher / SequentialDispatcher on a fresh population (0..12 individuals: '
                'not-yet-evaluated, pre-evaluated, the same pre-evaluated object repeated) with a table objective '
                '(1..3 metrics, each raising / returning None / NaN / a dyadic value per graph, single or multi '
                'objective), a time limit (none, generous, expired from the start, or - in process - any pattern of '
                'answers by call index), an optional delegate evaluator (shifted labels, position dependent, '
                'truncated output, disabled), n_jobs 1/2/4 and per-graph sleeps permuting completion. Sessions: ONE dispatcher '
                'object dispatched 2..4 times with changing objective / time limit (expired, tiny, none, generous) / '
                'callback, optionally re-evaluating the same Individual objects, or with a round (enabled delegate) aborted '
                'by an exception escaping the evaluation, the delegate then switched off and the same individuals '
                'evaluated again; or 2..3 dispatcher objects (same class or mixed) over ONE shared adapter instance, each '
                'with its own objective table and callback, used alternately; every completed round is a case. Results in '
                'another order than the individuals: apply_evaluation_results called directly with valid / invalid / None '
                '/ missing / foreign results in every order (small scope) or a random order, and a dispatcher subclass '
                'whose backend hands the results over reversed / rotated / shuffled. Pre-existing fitness is given either by '
                'Individual(graph, fitness=...) or by in-place assignment on a default-constructed Individual; the '
                'fitness an individual has by construction is what the case states, not what the object reports. Exhaustive '
                'small scope: all populations of <= 2 individuals over 6 kinds x 2 timers x 2 dispatchers. '
                'distinct = distinct (scenario, dispatcher, n_jobs, delays); non-trivial = in the quantifier of the '
                'property and at least one individual to evaluate.')
    ctx.trusted_extra = [
        'scheduling of the workers is joblib/loky: the model proves independence from the order of results and '
        'the runs sample it (n_jobs 1, 2, 4 with per-graph sleeps); other interleavings are not exercised',
        'individuals are modelled as values: aliasing of one not-yet-evaluated Individual object inside a population '
        '(ValueError in set_evaluation_result) is outside the model and outside the quantifier of the property',
        'metric values are copied, never computed with: dyadic values, compared exactly',
        'the fake timer (answers by call index) replaces the wall clock for n_jobs = 1; real Timer / '
        'OptimisationTimer objects are used for expired / generous limits',
    ]
    ctx.assumptions = [
        'the not-yet-evaluated individuals of a population are distinct objects with pairwise distinct uids, shared '
        'with no pre-evaluated individual (the quantifier of the property)',
        'the objective is an Objective over deterministic metric functions (a metric may raise, return None / NaN)',
    ]
    gc.collect()
    gc.freeze()                     # makes the gc.collect() of every _evaluate_graph cheap in this process
    rng = ctx.rng
    tmpdir = tempfile.mkdtemp(prefix='c05_')
    try:
        # ---- in-process runs (n_jobs = 1 and the sequential dispatcher)
        triples = []
        small = small_scope()
        for sc in small:
            for par in (True, False):
                rn = {'par': par, 'n_jobs': 1}
                triples.append((sc, rn, observe(sc, rn, tmpdir)))
        ctx.set_exhaustive('small-scope', True)
        evaluate_cases(ctx, 'small-scope', triples)
        triples = []
        n_seq = ctx.budget(240, 2400)
        for k in range(n_seq):
            n = rng.choice([0, 1, 2, 3, 4, 5, 6, 8, 10, 12]) if k % 4 else rng.randrange(13)
            force = {'dup': True} if k % 25 == 24 else None
            sc = gen_scenario(rng, n, force=force)
            for par in ((True, False) if k % 3 == 0 else (True,) if k % 3 == 1 else (False,)):
                rn = {'par': par, 'n_jobs': 1}
                triples.append((sc, rn, observe(sc, rn, tmpdir)))
        ctx.set_exhaustive('in-process', False)
        evaluate_cases(ctx, 'in-process', triples, with_canary=True)
        for t in triples[:2]:
            ctx.sample({'scenario': t[0], 'run': t[1], 'observed': t[2]})
        # ---- worker processes, completion order permuted by sleeps; every scenario is also run
        #      sequentially and the assignments uid -> fitness are compared
        cross, triples = [], []
        for nj, count in ((2, ctx.budget(20, 160)), (4, ctx.budget(14, 120))):
            for k in range(count):
                n = rng.choice([2, 3, 5, 8, 12])
                tk = ['none', 'generous', 'generous_opt', 'expired', 'expired_opt'][k % 5]
                sc = gen_scenario(rng, n, allow_fake_timer=False, force={'timer': tk})
                rn = {'par': True, 'n_jobs': nj, 'delays': gen_delays(rng, sc)}
                ob = observe(sc, rn, tmpdir)
                triples.append((sc, rn, ob))
                rs = {'par': False, 'n_jobs': 1}
                ob_s = observe(sc, rs, tmpdir)
                triples.append((sc, rs, ob_s))
                r1 = {'par': True, 'n_jobs': 1}
                ob_1 = observe(sc, r1, tmpdir)
                triples.append((sc, r1, ob_1))
                dg = sc.get('delegate')
                comparable = not tk.startswith('expired') and delegate_order_free(dg) and in_scope(sc)
                cross.append((sc, rn, ob, ob_1, ob_s, comparable))
        ctx.set_exhaustive('workers', False)
        evaluate_cases(ctx, 'workers', triples)
        for t in triples[:2]:
            ctx.sample({'scenario': t[0], 'run': t[1], 'observed': t[2]})
        check_cross(ctx, cross)
        # ---- results handed over in another order than the individuals: the public static method directly
        #      (every permutation in a small scope) and a dispatcher whose backend collects results as completed
        descs = apply_descriptions(ctx)
        ctx.set_exhaustive('apply-results', False)
        check_apply(ctx, descs)
        triples = []
        for k in range(ctx.budget(45, 400)):
            sc = gen_scenario(rng, rng.choice([2, 3, 4, 5, 6, 8, 12]))
            rn = {'par': False, 'n_jobs': 1, 'completion': ['reversed', 'rotated', 'shuffled'][k % 3], 'seed': k}
            triples.append((sc, rn, observe(sc, rn, tmpdir)))
        ctx.set_exhaustive('as-completed', False)
        evaluate_cases(ctx, 'as-completed', triples)
        # ---- sessions: one dispatcher object, several dispatch(objective, timer) + evaluate rounds; every
        #      evaluation must be what a fresh dispatcher dispatched with the same arguments answers (the model)
        triples = []
        plan = [(True, 1)] * ctx.budget(22, 220) + [(False, 1)] * ctx.budget(22, 220) + [(True, 2)] * ctx.budget(3, 30)
        for par, nj in plan:
            ses = gen_session(rng, par, nj)
            for k, (sc, rn, ob) in enumerate(observe_session(ses, tmpdir)):
                if ob['aborted']:
                    # not a case: the model does not describe an evaluation that an escaping exception aborts;
                    # what counts is that the rounds after it are unaffected
                    if ob['raised'] is None:
                        ctx.error('sessions', 'the round that was to be aborted did not raise: %r' % (ses,))
                    ctx.count('aborted-rounds', key=repr(ses), nontrivial=False, dispatcher='parallel' if par else 'sequential')
                    continue
                triples.append((sc, rn, ob, {'session': ses, 'step': k}))
        # ---- several dispatcher objects over ONE shared adapter instance, used alternately
        for k in range(ctx.budget(16, 160)):
            grp = gen_group(rng, with_workers=(k % 8 == 7))
            for op_k, sc, rn, ob in observe_group(grp, tmpdir):
                triples.append((sc, rn, ob, {'group': grp, 'op': op_k}))
        ctx.set_exhaustive('sessions', False)
        evaluate_cases(ctx, 'sessions', triples)
        if triples:
            ctx.sample({'session': triples[0][3]['session'], 'observed_round_1': triples[0][2]})
    finally:
        shutil.rmtree(tmpdir, ignore_errors=True)
        try:
            from joblib.externals.loky import get_reusable_executor
            get_reusable_executor().shutdown(wait=True)
        except Exception:  # noqa
            pass


# ----------------------------------------------------------------------------------------
# apply_evaluation_results called directly, results in any order
# ----------------------------------------------------------------------------------------
APPLY_FN = ('fun t => match t with (inds, rs, raised, out) => '
            '[apply_agree inds rs raised out; apply_holds_b inds rs raised out] end')


def observe_apply(desc):
    """desc: {'inds': [{'label', 'pre': None | [v]}], 'results': [{'for': index | -1, 'kind', 'val', 'label'}]}
    (results in the order handed over).  Fresh objects every time; returns the canonical observation."""
    inds = [Individual(make_graph(d['label'])) if d['pre'] is None else
            Individual(make_graph(d['label']), fitness=SingleObjFitness(*d['pre'])) for d in desc['inds']]
    results = []
    for k, r in enumerate(desc['results']):
        if r['kind'] == 'none':
            results.append(None)
            continue
        uid = inds[r['for']].uid if r['for'] >= 0 else 'foreign-%d' % k
        fit = SingleObjFitness(float(r['val'])) if r['kind'] == 'valid' else null_fitness()
        results.append(GraphEvalResult(uid_of_individual=uid, fitness=fit, graph=make_graph(r['label'])))
    raised, out = None, []
    try:
        res = ObjectiveEvaluationDispatcher.apply_evaluation_results(inds, results)
        for x in res:
            j = next((j for j, ind in enumerate(inds) if ind is x), None)
            out.append([j if j is not None else 9999, canon_fit(x.fitness), label_of(x.graph)])
    except Exception as ex:  # noqa
        raised = '%s: %s' % (type(ex).__name__, ex)
    return {'raised': raised, 'out': out}


def coq_apply_case(desc, ob):
    inds = c_list([coq_ind(j, ['N', []] if d['pre'] is None else ['S', [float(v) for v in d['pre']]], d['label'])
                   for j, d in enumerate(desc['inds'])], 'ind')
    rs = []
    for k, r in enumerate(desc['results']):
        if r['kind'] == 'none':
            rs.append('(@None eres)')
        else:
            fit = ['S', [float(r['val'])]] if r['kind'] == 'valid' else ['N', []]
            rs.append('(Some {| r_uid := %s; r_fit := %s; r_graph := %s |})' % (
                c_nat(r['for'] if r['for'] >= 0 else 900 + k), coq_fit(fit), c_nat(r['label'])))
    out = c_list([coq_ind(u, f, g) for u, f, g in ob['out']], 'ind')
    return '(%s, %s, %s, %s)' % (inds, c_list(rs, '(option eres)'), c_bool(ob['raised'] is not None), out)


def apply_descriptions(ctx):
    """exhaustive: n <= nmax individuals, each with a valid / invalid / None / missing result, results in EVERY
    order; random: up to 9 individuals, foreign results, occasionally a pre-evaluated individual or two valid
    results for one uid (outside the quantifier), random order"""
    import itertools
    rng = ctx.rng
    out = []
    nmax = ctx.pick(3, 4)
    for n in range(nmax + 1):
        for kinds in itertools.product(['valid', 'invalid', 'none', 'missing'], repeat=n):
            base = [{'for': j, 'kind': k, 'val': 0.5 + j, 'label': 100 + j} for j, k in enumerate(kinds) if k != 'missing']
            for perm in itertools.permutations(base):
                out.append({'inds': [{'label': j, 'pre': None} for j in range(n)], 'results': list(perm)})
    for _ in range(ctx.budget(200, 1500)):
        n = rng.randrange(1, 10)
        inds = [{'label': j, 'pre': None} for j in range(n)]
        res = []
        for j in range(n):
            k = rng.choice(['valid', 'valid', 'valid', 'invalid', 'none', 'missing'])
            if k != 'missing':
                res.append({'for': j, 'kind': k, 'val': rng.choice(VALUES), 'label': 100 + j})
        for _ in range(rng.choice([0, 0, 1, 2])):
            res.append({'for': -1, 'kind': rng.choice(['valid', 'invalid']), 'val': rng.choice(VALUES), 'label': 300})
        r = rng.random()
        if r < 0.05:
            inds[rng.randrange(n)]['pre'] = [rng.choice(PRE_VALUES)]          # ValueError if a valid result exists
        elif r < 0.10 and res:
            extra = dict(rng.choice(res), val=rng.choice(VALUES), label=200)   # a second result for one uid
            res.append(extra)
        rng.shuffle(res)
        out.append({'inds': inds, 'results': res})
    return out


def check_apply(ctx, descs, group='apply-results'):
    cases, meta = [], []
    for d in descs:
        ob = observe_apply(d)
        cases.append(coq_apply_case(d, ob))
        meta.append((d, ob))
    # canary: a dropped individual must be flagged
    d = {'inds': [{'label': 0, 'pre': None}, {'label': 1, 'pre': None}],
         'results': [{'for': 1, 'kind': 'valid', 'val': 2.0, 'label': 101}, {'for': 0, 'kind': 'valid', 'val': 1.0, 'label': 100}]}
    ob = observe_apply(d)
    if len(ob['out']) == 2:
        ctx.canaries += 1
        cases.append(coq_apply_case(d, dict(ob, out=ob['out'][:1])))
    res = ctx.coq_cases(group, REQ, APPLY_FN, cases, 2, shard=400)
    if len(res) > len(meta) and res[-1] == (False, False):
        ctx.canaries_caught += 1
    for (d, ob), (ag, ho) in zip(meta, res):
        valid = sum(1 for r in d['results'] if r['kind'] == 'valid')
        in_order = [r['for'] for r in d['results'] if r['kind'] != 'none' and r['for'] >= 0] == \
            sorted(r['for'] for r in d['results'] if r['kind'] != 'none' and r['for'] >= 0)
        ctx.count(group, key=repr(d), nontrivial=valid > 0, individuals=len(d['inds']), valid_results=min(valid, 5),
                  results_in_submission_order=in_order, returned=len(ob['out']), raised=ob['raised'] is not None)
        case = {'apply': d, 'observed': ob}
        if not ho:
            ctx.violate(group, case, 'apply_evaluation_results(%d individuals, %d results handed over in the order %s) '
                        'returned %s%s: not exactly the individuals with a valid result under their uid, each with that '
                        "result's fitness and graph, in input order" % (
                            len(d['inds']), len(d['results']), [r['for'] if r['kind'] != 'none' else None for r in d['results']],
                            ob['out'], (' / raised ' + ob['raised']) if ob['raised'] else ''))
        if not ag:
            ctx.disagree(group, case, 'model of apply_evaluation_results and implementation differ')


def delegate_order_free(dg):
    """the parallel dispatcher hands the population to the delegate in reversed order, the sequential one in
    input order: both evaluate the same graphs only if the delegate ignores positions"""
    return not (dg and dg['enabled']) or (dg['mul'] == 0 and dg['drop'] == 0)


def check_cross(ctx, cross, group='cross'):
    """sequential vs parallel (1 worker, n workers): which individual received which fitness"""
    def outs(ob):
        return c_list([coq_ind(u, f, g) for u, f, g in ob['out']], 'ind')
    cases, meta = [], []
    for sc, rn, ob, ob_1, ob_s, comparable in cross:
        if not comparable:
            # with an expired limit the parallel dispatcher forces one evaluation, with a position dependent
            # delegate the two dispatchers are handed different graphs: only parallel(n) vs parallel(1) is compared
            cases.append('(%s, %s, %s)' % (outs(ob), outs(ob_1), outs(ob_1)))
        else:
            cases.append('(%s, %s, %s)' % (outs(ob), outs(ob_1), outs(ob_s)))
        meta.append((sc, rn, ob, ob_1, ob_s, comparable))
    if not cases:
        return
    # canary: a swapped assignment must be flagged
    ctx.canaries += 1
    a = coq_ind(0, ['S', [1.0]], 0)
    b = coq_ind(0, ['S', [2.0]], 0)
    cases.append('(%s, %s, %s)' % (c_list([a], 'ind'), c_list([a], 'ind'), c_list([b], 'ind')))
    res = ctx.coq_cases(group, REQ, 'fun t => match t with (a, b, s) => [same_assignment_b a b; same_assignment_b a s] end',
                        cases, 2, shard=200)
    if res[-1] == (True, False):
        ctx.canaries_caught += 1
    for (sc, rn, ob, ob_1, ob_s, comparable), (ab, as_) in zip(meta, res[:-1]):
        ctx.count(group, key=case_key(sc, rn), nontrivial=nontrivial(sc, ob), n_jobs=rn['n_jobs'],
                  compared='par(n)/par(1)/seq' if comparable else 'par(n)/par(1)', timer=sc['timer']['kind'])
        case = {'scenario': sc, 'run': rn, 'observed': ob, 'observed_one_worker': ob_1, 'observed_sequential': ob_s}
        if not ab:
            ctx.violate(group, case, 'parallel evaluation with %d workers and with 1 worker assign different fitness' % rn['n_jobs'])
        if not as_:
            ctx.violate(group, case, 'parallel and sequential evaluation assign different fitness to the individuals')


def replay(ctx, payload):
    v = payload.get('violation') or payload.get('first_disagreement') or payload
    case = v.get('case') if isinstance(v, dict) else None
    if not case or not ('scenario' in case or 'group' in case or 'session' in case or 'apply' in case):
        return
    tmpdir = tempfile.mkdtemp(prefix='c05_')
    if 'apply' in case:
        shutil.rmtree(tmpdir, ignore_errors=True)
        check_apply(ctx, [case['apply']], group='replay')
        return
    if 'group' in case:                         # dispatchers over one shared adapter: redo the whole session
        try:
            grp = case['group']
            evaluate_cases(ctx, 'replay', [(sc, rn, ob, {'group': grp, 'op': k})
                                           for k, sc, rn, ob in observe_group(grp, tmpdir)])
        finally:
            shutil.rmtree(tmpdir, ignore_errors=True)
        return
    if 'session' in case:                       # a round of a session: redo the whole session
        try:
            ses = case['session']
            evaluate_cases(ctx, 'replay', [(sc, rn, ob, {'session': ses, 'step': k})
                                           for k, (sc, rn, ob) in enumerate(observe_session(ses, tmpdir))
                                           if not ob['aborted']])
        finally:
            shutil.rmtree(tmpdir, ignore_errors=True)
        return
    sc, rn = case['scenario'], case['run']
    try:
        ob = observe(sc, rn, tmpdir)
        triples = [(sc, rn, ob)]
        if 'observed_sequential' in case:           # a cross-run violation: redo the three runs
            rs, r1 = {'par': False, 'n_jobs': 1}, {'par': True, 'n_jobs': 1}
            ob_s, ob_1 = observe(sc, rs, tmpdir), observe(sc, r1, tmpdir)
            triples += [(sc, rs, ob_s), (sc, r1, ob_1)]
            dg = sc.get('delegate')
            comparable = (not sc['timer']['kind'].startswith('expired') and sc['timer']['kind'] != 'fake'
                          and delegate_order_free(dg) and in_scope(sc))
            check_cross(ctx, [(sc, rn, ob, ob_1, ob_s, comparable)], group='replay-cross')
        evaluate_cases(ctx, 'replay', triples)
    finally:
        shutil.rmtree(tmpdir, ignore_errors=True)
