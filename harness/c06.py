"""C06 - every optimisation run leaves a well-formed history.
Implementation: real optimiser runs (harness/optrun.py) -> exported OptHistory.
Model: coq/theories/Evo/History.v (agree / holds_b)."""
import json

import optrun
from common import c_bool, c_list, c_nat, c_opt

REQ = ['Evo.History']
LABELS = {'initial_assumptions': 'LInitial', 'extended_initial_assumptions': 'LExtended',
          'final_choices': 'LFinal', '': 'LNone'}
OPS = {'mutation': 'OMutation', 'crossover': 'OCrossover', 'regularization': 'ORegularization'}
FN = 'fun o => [agree o; holds_b o]'


def index_history(h):
    """uids -> indices, parents first (post-order), so that the index plays the role of the
    creation order when the lineage is well-founded"""
    inds = h['individuals']
    order, state = [], {}
    for root in list(inds):
        stack = [(root, iter(inds[root]['parents']))]
        if root in state:
            continue
        state[root] = 1
        while stack:
            uid, it = stack[-1]
            nxt = next(it, None)
            if nxt is None:
                stack.pop()
                order.append(uid)
                state[uid] = 2
            elif nxt in inds and nxt not in state:
                state[nxt] = 1
                stack.append((nxt, iter(inds[nxt]['parents'])))
    return {u: i for i, u in enumerate(order)}, order


def hist_to_coq(h, finished=True):
    idx, order = index_history(h)
    inds = h['individuals']
    heap, ngs = [], []
    for u in order:
        r = inds[u]
        op = r['op']
        opc = 'None' if op is None else '(Some %s)' % OPS.get(op, 'OOther')
        parents = [idx[p] for p in r['parents'] if p in idx]
        # a parent that is not in the export cannot happen (export follows parent links)
        heap.append('{| h_valid := %s; h_verified := %s; h_op := %s; h_parents := %s |}' % (
            c_bool(r['fitness'] is not None), c_bool(r['verified']), opc, c_list([c_nat(p) for p in parents], 'nat')))
        ngs.append(c_opt(r['native_generation'], c_nat, 'nat'))
    gens = ['{| g_num := %s; g_label := %s; g_members := %s |}' % (
        c_nat(g['num']), LABELS.get(g['label'], 'LOther'), c_list([c_nat(idx[u]) for u in g['members']], 'nat'))
        for g in h['generations']]
    snaps = [c_list([c_nat(idx[u]) for u in s], 'nat') for s in h['archive']]
    return '{| o_heap := %s; o_ng := %s; o_gens := %s; o_snaps := %s; o_finished := %s |}' % (
        c_list(heap, 'hind'), c_list(ngs, 'option nat'), c_list(gens, 'gen'), c_list(snaps, 'list nat'), c_bool(finished))


def summarise(rec):
    h = rec['history']
    return {'cfg': rec['cfg'], 'outcome': rec['outcome'],
            'generations': [(g['num'], g['label'], len(g['members'])) for g in h['generations']],
            'n_individuals': len(h['individuals']),
            'n_intermediate': sum(1 for r in h['individuals'].values() if r['native_generation'] is None)}


def configs(ctx):
    rng = ctx.rng
    n = ctx.budget(20, 400)
    out = []
    kinds = list(optrun.OPTIMISERS)
    for i in range(n):
        cfg = optrun.random_config(rng, optimiser=kinds[i % len(kinds)])
        if i % 4 == 1:   # partially failing objective: failed individuals must not be recorded
            cfg['objective']['faults'] = {'by_class': [rng.choice([3, 4, 5]), rng.randrange(3), rng.choice(['raise', 'none', 'nan'])]}
        if i % 7 == 3:
            cfg['diversity_check'] = 1
        out.append(cfg)
    # structured corners: diversity refill with unevaluable mutants, strict rule with every mutation
    # attempt rejected, invalid initial graphs
    for j in range(ctx.budget(6, 40)):
        out.append(optrun.collapse_config(rng, optimiser=['evo', 'surrogate', 'pop_random_mutation'][j % 3]))
    for j in range(ctx.budget(4, 30)):
        out.append(optrun.strict_rule_config(rng, optimiser=['evo', 'pop_random_mutation'][j % 2]))
    for j in range(ctx.budget(2, 12)):
        out.append(optrun.invalid_initial_config(rng))
    for j in range(ctx.budget(4, 24)):
        out.append(optrun.rerun_config(rng))
    for j in range(ctx.budget(4, 24)):
        out.append(optrun.failing_start_config(rng))
    # parents passing through reproduction unchanged while (almost) every fresh graph fails evaluation
    for j in range(ctx.budget(6, 36)):
        out.append(optrun.passthrough_config(rng))
    # almost every evaluation fails after the start; a metric that re-seeds the global generators
    for j in range(ctx.budget(5, 30)):
        out.append(optrun.lucky_few_config(rng))
    for j in range(ctx.budget(6, 30)):
        out.append(optrun.reseeding_metric_config(rng))
    # objective values of large magnitude with small differences
    for j in range(ctx.budget(4, 24)):
        out.append(optrun.magnitude_config(rng))
    # container-valued node parameters edited in place by a user mutation
    for j in range(ctx.budget(3, 16)):
        out.append(optrun.container_params_config(rng))
    # user subclasses of the verifier / of the fitness class
    for j in range(ctx.budget(4, 20)):
        out.append(optrun.subclass_config(rng))
    # non-default decremental regularization with a rule that sub-graphs can violate
    for j in range(ctx.budget(4, 20)):
        out.append(optrun.regularization_config(rng))
    # a generator that cannot satisfy the rule has to give up with its error, never hand out a rejected graph
    for j in range(ctx.budget(2, 8)):
        out.append(optrun.unsatisfiable_generator_config(rng))
    return out


def run(ctx):
    ctx.rule = ('real runs of the five optimiser classes over random configurations (scheme, elitism, selection, '
                'operator sets, single/multi objective, keep_n_best, sizes, limits, partially failing objectives, seeds); '
                'one case = one exported history; distinct = distinct configuration; non-trivial = at least 2 unlabelled '
                '(evolved) generations and at least one individual with parents')
    ctx.trusted_extra = ['the evolve step is an oracle in Evo/History.v: the model replays the recorded sequence of generations; '
                         'Evo/Compose.v models the loop body itself (operators of C16 / C08 instantiated, evaluator / one '
                         'reproduction attempt / extension / regularisation / diversity refill as oracles with contracts) and '
                         'step_admits checks every observed transition against it',
                         'lineage is exported by following parent_operator links of the real Individual objects']
    cases, meta = [], []
    for cfg in configs(ctx):
        rec = optrun.run_config(cfg)
        if rec['history'] is None:
            ctx.error('run', 'no history for %s: %s' % (json.dumps(cfg), rec.get('exception')))
            continue
        h = rec['history']
        if any(r.get('duplicate_object_for_uid') for r in h['individuals'].values()):
            ctx.violate('runs', summarise(rec), 'two Individual objects with one uid are reachable from the history')
        cases.append(hist_to_coq(h, finished=(rec['outcome'] == 'ok')))
        meta.append(rec)
        evolved = sum(1 for g in h['generations'] if g['label'] == '')
        with_parents = sum(1 for r in h['individuals'].values() if r['parents'])
        ctx.count('runs', key=json.dumps(cfg, sort_keys=True), nontrivial=(evolved >= 2 and with_parents >= 1),
                  optimiser=cfg['optimiser'], outcome=rec['outcome'], evolved_generations=min(evolved, 6),
                  multi=bool(cfg['objective'].get('multi')), faults=bool(cfg['objective'].get('faults')))
    # canary: a history whose second generation number is wrong
    if meta:
        bad = json.loads(json.dumps(meta[0]['history']))
        bad['generations'][-1]['num'] += 1
        cases.append(hist_to_coq(bad))
        ctx.canaries += 1
    res = ctx.coq_cases('runs', REQ, FN, cases, 2, shard=8)
    if meta and res[-1] == (False, False):
        ctx.canaries_caught += 1
    for rec, (ag, ho) in zip(meta, res):
        if not ho:
            ctx.violate('runs', summarise(rec), 'exported history is not well-formed (numbering / labels / snapshots / members / lineage)')
        if not ag:
            ctx.disagree('runs', summarise(rec), 'model replay of the generation sequence differs in numbers or native generations')
    for rec in meta[:3]:
        ctx.sample(summarise(rec))
    # every transition of every run must be a step the composed loop model (Evo/Compose.v) can make
    import c06_compose
    c06_compose.run_in_check(ctx, meta)


def replay(ctx, payload):
    v = payload.get('violation') or payload.get('first_disagreement') or {}
    case = v.get('case') or {}
    cfg = case.get('cfg')
    if not cfg:
        return
    rec = optrun.run_config(cfg)
    res = ctx.coq_cases('replay', REQ, FN, [hist_to_coq(rec['history'], finished=(rec['outcome'] == 'ok'))], 2)
    ctx.count('replay', key=json.dumps(cfg, sort_keys=True), nontrivial=True)
    if not res[0][1]:
        ctx.violate('replay', summarise(rec), 'exported history is not well-formed')
    if not res[0][0]:
        ctx.disagree('replay', summarise(rec), 'model replay differs')
    import c06_compose
    c06_compose.run_in_check(ctx, [rec], group='replay_compose')
