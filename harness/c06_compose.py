"""C06, composition layer: every transition (previous recorded generation + archive snapshot ->
next recorded generation + archive snapshot) of every real run must be a step the composed model
of the loop body (coq/theories/Evo/Compose.v) can make: `step_admits`.

Used from harness/c06.py:      cases, meta = c06_compose.extra_cases(rec)      (one case per run)
                               FN_RUN / REQ / judge(ctx, group, recs)           (see run_records)
Standalone (own testing):      python harness/c06_compose.py [n_random] [seed]
"""
import json
import sys

import optrun
from c06 import index_history, OPS
from common import c_bool, c_list, c_nat

REQ = ['Evo.History', 'Evo.Compose']
FN_RUN = 'fun c => [run_admits (fst c) (snd c)]'
FN_STEP = 'fun o => [step_admits o]'
MIN_POP = 5
MIN_ELITISM_POP = 5      # GPAlgorithmParameters.min_pop_size_with_elitism (default, not varied by optrun)

EVO_LIKE = ('evo', 'surrogate')


def transitions(rec):
    """list of dicts: kind, seen, prev, aprev, next, anext, max, gen (index of the generation recorded)"""
    h = rec['history']
    cfg = rec['cfg']
    opt = cfg['optimiser']
    gens = h['generations']
    arch = h['archive']
    pops = rec.get('populations') or []
    freq = cfg.get('diversity_check', -1)
    out = []
    seen = []
    for g, gen in enumerate(gens):
        prev = gens[g - 1]['members'] if g > 0 else []
        aprev = arch[g - 1] if 0 < g <= len(arch) else []
        anext = arch[g] if g < len(arch) else []
        label = gen['label']
        size_param = None
        if g < len(pops) and len(pops) == len(gens):
            size_param = pops[g].get('pop_size_param')
        if size_param is None:
            size_param = cfg.get('max_pop_size', 20)
        t = {'gen': g, 'seen': list(seen), 'prev': list(prev), 'aprev': list(aprev), 'next': list(gen['members']),
             'anext': list(anext), 'max': int(size_param), 'must': []}
        if label == 'initial_assumptions':
            # g > 0: optimise() called again on the same instance - a new start on top of the kept archive
            t.update(kind='KInitial', seen=[], prev=[])
        elif label == 'extended_initial_assumptions':
            t['kind'] = 'KExtended'
        elif label == 'final_choices':
            t['kind'] = 'KFinal'
        elif opt in EVO_LIKE or opt == 'pop_random_mutation':
            due = (opt != 'surrogate' and freq not in (None, -1, 0) and g % freq == 0 and g != 0)
            if opt == 'pop_random_mutation':
                t['max'] = len(prev)
                t['kind'] = 'KEvolveDiv' if due else 'KMutateAll'
            else:
                t['kind'] = 'KEvolveDiv' if due else 'KEvolve'
                # Elitism._is_elitism_applicable: single objective and pop_size >= min_pop_size_with_elitism (5)
                if (not due and cfg.get('elitism', 'keep_n_best') == 'keep_n_best' and not cfg['objective'].get('multi')
                        and t['max'] >= MIN_ELITISM_POP and aprev):
                    t['must'] = [aprev[0]]
        else:
            t['kind'] = 'KSearch'
            t['max'] = 1
        out.append(t)
        seen.extend(gen['members'])
    return out


def heap_to_coq(h, idx, order):
    inds = h['individuals']
    heap = []
    for u in order:
        r = inds[u]
        op = r['op']
        opc = 'None' if op is None else '(Some %s)' % OPS.get(op, 'OOther')
        parents = [idx[p] for p in r['parents'] if p in idx]
        heap.append('{| h_valid := %s; h_verified := %s; h_op := %s; h_parents := %s |}' % (
            c_bool(r['fitness'] is not None), c_bool(r['verified']), opc, c_list([c_nat(p) for p in parents], 'nat')))
    return c_list(heap, 'hind')


def _nl(idx, l):
    return c_list([c_nat(idx[u]) for u in l], 'nat')


def trans_to_coq(t, idx):
    return ('{| ot_kind := %s; ot_seen := %s; ot_prev := %s; ot_arch_prev := %s; ot_next := %s; ot_arch_next := %s; '
            'ot_max := %s; ot_must := %s |}' % (t['kind'], _nl(idx, t['seen']), _nl(idx, t['prev']), _nl(idx, t['aprev']),
                                                _nl(idx, t['next']), _nl(idx, t['anext']), c_nat(t['max']),
                                                _nl(idx, t['must'])))


def step_to_coq(heap, t, idx):
    return ('{| os_kind := %s; os_heap := %s; os_seen := %s; os_prev := %s; os_arch_prev := %s; os_next := %s; '
            'os_arch_next := %s; os_max := %s; os_must := %s |}' % (
                t['kind'], heap, _nl(idx, t['seen']), _nl(idx, t['prev']), _nl(idx, t['aprev']), _nl(idx, t['next']),
                _nl(idx, t['anext']), c_nat(t['max']), _nl(idx, t['must'])))


def extra_cases(rec):
    """-> (coq case for FN_RUN, transitions) for one exported run (rec = optrun.run_config(cfg))"""
    h = rec['history']
    idx, order = index_history(h)
    ts = transitions(rec)
    heap = heap_to_coq(h, idx, order)
    case = '(%s, %s)' % (heap, c_list([trans_to_coq(t, idx) for t in ts], 'otrans'))
    return case, ts


def step_cases(rec):
    """one FN_STEP case per transition (used to locate the transition a failing run does not admit)"""
    h = rec['history']
    idx, order = index_history(h)
    heap = heap_to_coq(h, idx, order)
    ts = transitions(rec)
    return [step_to_coq(heap, t, idx) for t in ts], ts


def describe(rec, t):
    h = rec['history']
    short = lambda l: [str(u)[:6] for u in l]
    return {'cfg': rec['cfg'], 'generation': t['gen'], 'kind': t['kind'], 'prev': short(t['prev']),
            'archive_prev': short(t['aprev']), 'next': short(t['next']), 'archive_next': short(t['anext']),
            'size_allowed': t['max'], 'must_contain': short(t['must']),
            'members': {str(u)[:6]: {k: h['individuals'][u][k] for k in ('fitness', 'verified', 'op', 'native_generation')}
                        | {'parents': short(h['individuals'][u]['parents'])} for u in t['next']}}


def judge(ctx, group, recs):
    """evaluates run_admits on every record; returns list of (rec, ok, [not admitted transitions])"""
    cases, tss = [], []
    for rec in recs:
        c, ts = extra_cases(rec)
        cases.append(c)
        tss.append(ts)
    res = ctx.coq_cases(group, REQ, FN_RUN, cases, 1, shard=8, case_ty='heap * list otrans')
    out = []
    for rec, ts, (ok,) in zip(recs, tss, res):
        bad = []
        if not ok:
            sc, ts2 = step_cases(rec)
            r2 = ctx.coq_cases(group + '_locate', REQ, FN_STEP, sc, 1, shard=8)
            bad = [t for t, (b,) in zip(ts2, r2) if not b]
        out.append((rec, ok, bad))
    return out


def run_in_check(ctx, recs, group='compose'):
    """for harness/c06.py: `c06_compose.run_in_check(ctx, meta)` after the runs were made (meta = list of
    optrun records).  Counts one evaluation per run, reports every transition the composed model does not
    admit as a violation, plants one canary (a generation with a member recorded twice)."""
    recs = [r for r in recs if r.get('history')]
    canary = None
    for r in recs:
        if any(len(g['members']) >= 2 for g in r['history']['generations']):
            canary = json.loads(json.dumps({k: r[k] for k in ('cfg', 'history', 'populations')}, default=str))
            g = next(g for g in canary['history']['generations'] if len(g['members']) >= 2)
            g['members'][1] = g['members'][0]
            break
    todo = recs + ([canary] if canary else [])
    if canary:
        ctx.canaries += 1
    res = judge(ctx, group, todo)
    if canary:
        _, ok, _ = res.pop()
        if not ok:
            ctx.canaries_caught += 1
    for rec, ok, bad in res:
        ts = transitions(rec)
        ctx.count(group, key=json.dumps(rec['cfg'], sort_keys=True),
                  nontrivial=sum(1 for t in ts if t['kind'] in ('KEvolve', 'KEvolveDiv', 'KMutateAll', 'KSearch')) >= 2,
                  optimiser=rec['cfg']['optimiser'], transitions=min(len(ts), 10))
        for t in bad:
            # a step outside the model's step relation is a broken correspondence (the loop body no longer does what
            # Evo/Compose.v says); whether a clause of C06 fails on it is decided by holds_b on the same history
            ctx.disagree(group, describe(rec, t), 'transition %d (%s) is not a step the composed loop model admits'
                         % (t['gen'], t['kind']))
    return res


# ------------------------------------------------------------------------------------------------
# standalone
# ------------------------------------------------------------------------------------------------
def standalone_configs(rng, n_random):
    out = []
    kinds = ['evo', 'surrogate', 'pop_random_mutation', 'evo', 'random_search', 'random_mutation']
    for i in range(n_random):
        cfg = optrun.random_config(rng, optimiser=kinds[i % len(kinds)])
        if i % 4 == 1:
            cfg['objective']['faults'] = {'by_class': [rng.choice([3, 4, 5]), rng.randrange(3), rng.choice(['raise', 'none', 'nan'])]}
        if i % 5 == 2:
            cfg['diversity_check'] = rng.choice([1, 2])
        out.append(cfg)
    for j in range(36):
        out.append(optrun.collapse_config(rng, optimiser=['evo', 'surrogate', 'pop_random_mutation'][j % 3]))
    for j in range(24):
        out.append(optrun.strict_rule_config(rng, optimiser=['evo', 'pop_random_mutation'][j % 2]))
    for j in range(40):
        out.append(optrun.passthrough_config(rng))
    for j in range(30):
        out.append(optrun.lucky_few_config(rng))
    for j in range(20):
        out.append(optrun.rerun_config(rng))
    return out


def _run_one(cfg):
    import logging
    logging.disable(logging.CRITICAL)
    return optrun.run_config(cfg)


def main():
    import logging
    import multiprocessing
    import random
    import time
    from common import Ctx
    logging.disable(logging.CRITICAL)
    n_random = int(sys.argv[1]) if len(sys.argv) > 1 else 200
    seed = int(sys.argv[2]) if len(sys.argv) > 2 else 0
    rng = random.Random(seed)
    cfgs = standalone_configs(rng, n_random)
    extra = [json.loads(l) for l in open(sys.argv[3])] if len(sys.argv) > 3 else []
    cfgs = extra + cfgs
    t0 = time.time()
    with multiprocessing.Pool(6) as pool:
        recs = pool.map(_run_one, cfgs, chunksize=4)
    recs = [r for r in recs if r['history'] is not None]
    t_run = time.time() - t0
    ctx = Ctx('C06compose', 'quick', seed)
    try:
        t1 = time.time()
        res = judge(ctx, 'compose', recs)
        t_coq = time.time() - t1
    finally:
        ctx.cleanup()
    n_trans, kinds, by_opt, flagged = 0, {}, {}, 0
    for rec, ok, bad in res:
        ts = transitions(rec)
        n_trans += len(ts)
        for t in ts:
            kinds[t['kind']] = kinds.get(t['kind'], 0) + 1
        o = rec['cfg']['optimiser']
        by_opt[o] = by_opt.get(o, 0) + 1
        if not ok:
            flagged += 1
            for t in bad[:2]:
                print('NOT ADMITTED', json.dumps(describe(rec, t), default=str)[:3000])
    print('runs=%d transitions=%d kinds=%s by_optimiser=%s not_admitted_runs=%d run_s=%.1f coq_s=%.1f' % (
        len(res), n_trans, json.dumps(kinds, sort_keys=True), json.dumps(by_opt, sort_keys=True), flagged, t_run, t_coq))
    return 1 if flagged else 0


if __name__ == '__main__':
    sys.exit(main())
