"""C07 - evaluation and persistence faults do not derail or silently cut short a run.
Implementation: REAL optimiser runs (configurations of harness/optrun.py) with injected metric
faults (by evaluation index / by graph class; raise / None / NaN), injected history-dump faults
(blocked generation directories, failing Individual.save, un-creatable history_dir) and errors
injected INTO the optimisation loop (iteration callback, objective raising a BaseException,
custom mutation function, random graph factory).
Model: coq/theories/Evo/Faults.v (agree / holds_b)."""
import json
import os
import random
import shutil
import tempfile
import time
import traceback
from unittest.mock import patch

import numpy as np

import optrun
from common import c_bool, c_list, c_nat, c_opt

REQ = ['Evo.Faults']
FN = 'fun c => [agree c; holds_b c]'


# ----------------------------------------------------------------------------------------------
# injected faults
# ----------------------------------------------------------------------------------------------
class InjectedBase(BaseException):
    """not an Exception: Objective.__call__ (except Exception) does not turn it into a null fitness"""


class InjectedLoopError(RuntimeError):
    pass


class Metric7(optrun.Metric):
    """optrun.Metric + 'base_at' (evaluation index at which a BaseException is raised) and the fault
    'only_size': [k, kind] - every graph fails except those with exactly k nodes (one surviving class)"""

    def __init__(self, inner, base_at, fired):
        super().__init__(inner.kind, inner.faults, inner.log, inner.primary)
        self.base_at = base_at
        self.fired = fired
        self.ok_ids = set()      # 'only_initial': kind - every graph fails except the supplied initial graphs

    def __call__(self, g):
        if self.base_at is not None and self.calls == self.base_at:
            self.log.append({'i': self.calls, 'id': g.descriptive_id, 'fault': 'base'})
            self.calls += 1
            self.fired.append('objective_base')
            raise InjectedBase('injected non-Exception failure in the objective')
        oi = self.faults.get('only_initial')
        if oi and g.descriptive_id not in self.ok_ids:
            self.log.append({'i': self.calls, 'id': g.descriptive_id, 'fault': oi})
            self.calls += 1
            if oi == 'raise':
                raise RuntimeError('injected metric failure')
            return None if oi == 'none' else float('nan')
        only = self.faults.get('only_size')
        if only and len(g.nodes) != only[0]:
            self.log.append({'i': self.calls, 'id': g.descriptive_id, 'fault': only[1]})
            self.calls += 1
            if only[1] == 'raise':
                raise RuntimeError('injected metric failure')
            return None if only[1] == 'none' else float('nan')
        return super().__call__(g)


class FaultyMutation:
    """custom mutation function: the k-th call raises, the others apply a real single_change"""
    __name__ = 'faulty_single_change'

    def __init__(self, at, fired):
        self.at = at
        self.calls = 0
        self.fired = fired

    def __call__(self, graph, requirements=None, graph_gen_params=None, parameters=None, **kw):
        from golem.core.optimisers.genetic.operators.base_mutations import single_add_mutation
        k = self.calls
        self.calls += 1
        if k == self.at:
            self.fired.append('mutation')
            raise InjectedLoopError('injected failure in a mutation function')
        return single_add_mutation(graph, requirements, graph_gen_params, parameters)


class FaultyFactory:
    def __init__(self, inner, at, fired):
        self.inner = inner
        self.at = at
        self.calls = 0
        self.fired = fired

    def __call__(self, *args, **kw):
        k = self.calls
        self.calls += 1
        if k == self.at:
            self.fired.append('factory')
            raise InjectedLoopError('injected failure in the random graph factory')
        return self.inner(*args, **kw)


class FaultyRule:
    """user verification rule with a bug: raises a NON-ValueError on some graphs produced during the run
    (by size / by label / from the k-th verification on); the supplied initial graphs pass"""
    __name__ = 'faulty_rule'

    def __init__(self, spec, fired):
        self.kind, self.arg, self.exc = spec['kind'], spec['arg'], spec.get('exc', 'KeyError')
        self.calls = 0
        self.fired = fired

    def __call__(self, graph):
        k = self.calls
        self.calls += 1
        if self.kind == 'max_nodes':
            hit = len(graph.nodes) > self.arg
        elif self.kind == 'no_label':
            hit = any(str(n) == self.arg for n in graph.nodes)
        else:
            hit = k >= self.arg
        if hit:
            self.fired.append('rule')
            raise EXC[self.exc]('injected failure in a verification rule')
        return True


EXC = {'TypeError': TypeError, 'RuntimeError': RuntimeError, 'KeyError': KeyError, 'ValueError': ValueError, 'OSError': OSError,
       'KeyboardInterrupt': KeyboardInterrupt}


# ----------------------------------------------------------------------------------------------
# one real run
# ----------------------------------------------------------------------------------------------
def _prepare_io(io, tmp):
    """returns (history_dir or None, list of context managers to enter)"""
    if not io:
        return None, []
    mode = io['mode']
    hist = os.path.join(tmp, 'hist')
    if mode == 'ok':               # directory does not exist yet: os.makedirs creates it at the first dump
        return hist, []
    if mode == 'exists':
        os.makedirs(hist)
        return hist, []
    if mode == 'block_from':       # generation directories n, n+1, ... are regular files: mkdir(parents) fails
        os.makedirs(hist)
        for g in range(io['n'], io['n'] + 64):
            with open(os.path.join(hist, str(g)), 'w') as f:
                f.write('x')
        return hist, []
    if mode == 'save_patch':       # Individual.save raises from its n-th call on
        os.makedirs(hist)
        from golem.core.optimisers.opt_history_objects.individual import Individual
        orig = Individual.save
        state = {'n': 0}

        def save(self, json_file_path=None):
            k = state['n']
            state['n'] += 1
            if k >= io['n']:
                raise OSError(28, 'injected: no space left on device')
            return orig(self, json_file_path=json_file_path)
        return hist, [patch.object(Individual, 'save', save)]
    if mode == 'uncreatable':      # a regular file is in the way of the directory path
        with open(os.path.join(tmp, 'afile'), 'w') as f:
            f.write('x')
        return os.path.join(tmp, 'afile', 'hist'), []
    if mode == 'is_file':          # history_dir names an existing regular file
        with open(hist, 'w') as f:
            f.write('x')
        return hist, []
    raise KeyError(mode)


def run_case(case):
    """case = {'cfg': optrun configuration, 'io': None | {...}, 'loop': None | {'via': callback|objective_base|
    mutation|factory, 'at': k, 'exc': name}}.  Returns a JSON-able record of everything observed."""
    cfg = case['cfg']
    io = case.get('io')
    loop = case.get('loop')
    log, fired, events, batches, pops = [], [], [], [], []
    rec = {'case': case, 'outcome': None, 'result': None}
    t0 = time.time()
    tmp = tempfile.mkdtemp(prefix='golem_c07_')
    seed = cfg.get('seed', 0)
    try:
        history_dir, cms = _prepare_io(io, tmp)
        from golem.core.optimisers.genetic import evaluation as ev_mod
        # evaluator observation: every call of a dispatcher's evaluate_population (input, output, log range)
        wrapped = []
        for cls_name in ('SequentialDispatcher', 'MultiprocessingDispatcher'):
            cls = getattr(ev_mod, cls_name, None)
            if cls is None or 'evaluate_population' not in vars(cls):
                continue
            orig = vars(cls)['evaluate_population']

            def make(orig):
                def evaluate_population(self, individuals):
                    b = {'in': [i.uid for i in individuals], 'in_valid': [bool(i.fitness.valid) for i in individuals],
                         'log_from': len(log), 'surrogate': type(self).__name__ == 'SurrogateDispatcher', 'out': None}
                    batches.append(b)
                    events.append(['batch', len(batches) - 1])
                    out = orig(self, individuals)
                    b['out'] = [i.uid for i in out]
                    b['log_to'] = len(log)
                    return out
                return evaluate_population
            cms.append(patch.object(cls, 'evaluate_population', make(orig)))
            wrapped.append(cls_name)
        rec['evaluator_observed'] = len(wrapped) == 2
        with patch('os.urandom', optrun.urandom_mock):
            random.seed(seed)
            np.random.seed(seed)
            for cm in cms:
                cm.__enter__()
            try:
                opt, objective, gen = optrun.make_optimiser(cfg, log, history_dir)
                rec['n_initial'] = len(opt.initial_graphs or [])
                base_at = loop['at'] if loop and loop['via'] == 'objective_base' else None
                fl = cfg['objective'].get('faults') or {}
                rec['initial_ids'] = sorted({g.descriptive_id for g in (opt.initial_graphs or [])})
                rec['initial_graphs'] = [{'id': g.descriptive_id, 'n_nodes': len(g.nodes), 'labels': sorted({str(x) for x in g.nodes})}
                                         for g in (opt.initial_graphs or [])]
                if base_at is not None or fl.get('only_size') or fl.get('only_initial'):
                    key = next(iter(objective.quality_metrics))
                    objective.quality_metrics[key] = Metric7(objective.quality_metrics[key], base_at, fired)
                    objective.quality_metrics[key].ok_ids = set(rec['initial_ids'])
                if loop and loop['via'] == 'mutation':
                    fm = FaultyMutation(loop['at'], fired)
                    # same list object is shared by GPAlgorithmParameters and the operator agent
                    opt.graph_optimizer_params.mutation_types = [fm]
                    if hasattr(opt, 'mutation'):
                        from golem.core.optimisers.genetic.operators.mutation import Mutation
                        opt.mutation = Mutation(opt.graph_optimizer_params, opt.requirements, opt.graph_generation_params)
                        if hasattr(opt, 'operators'):
                            opt.operators = [opt.mutation if type(o).__name__ == 'Mutation' else o for o in opt.operators]
                        if hasattr(opt, 'reproducer'):
                            opt.reproducer.mutation = opt.mutation
                if loop and loop['via'] == 'factory':
                    gen.random_graph_factory = FaultyFactory(gen.random_graph_factory, loop['at'], fired)
                if loop and loop['via'] == 'rule':
                    from golem.core.dag.graph_verifier import GraphVerifier
                    from golem.core.dag.verification_rules import DEFAULT_DAG_RULES
                    spec = dict(loop)
                    if spec['kind'] == 'max_nodes' and spec.get('arg') is None:     # the initial graphs pass
                        spec['arg'] = max(len(g.nodes) for g in opt.initial_graphs)
                    gen.verifier = GraphVerifier(list(DEFAULT_DAG_RULES) + [FaultyRule(spec, fired)], gen.adapter)
                    if hasattr(gen.random_graph_factory, 'verifier'):
                        gen.random_graph_factory.verifier = gen.verifier
                verifier = gen.verifier

                def cb(population, optimiser):
                    k = len(pops)
                    pops.append({'uids': [i.uid for i in population], 'valid': [bool(i.fitness.valid) for i in population],
                                 'archive': [i.uid for i in optimiser.generations.best_individuals],
                                 'n_log': len(log)})
                    events.append(['pop', k])
                    if loop and loop['via'] == 'callback' and loop['at'] == k:
                        fired.append('callback')
                        raise EXC[loop.get('exc', 'RuntimeError')]('injected loop failure')
                opt.set_iteration_callback(cb)
                result = None
                try:
                    result = opt.optimise(objective)
                    rec['outcome'] = 'ok'
                except BaseException as ex:  # noqa  (BaseException: injected non-Exception errors)
                    if isinstance(ex, (SystemExit, GeneratorExit, MemoryError)):
                        raise
                    rec['outcome'] = 'raise:' + type(ex).__name__
                    rec['exception'] = traceback.format_exc()[-1200:]
                    rec['exc_msg'] = str(ex)[:200]
                    rec['exc_is_oserror'] = isinstance(ex, OSError)
                inds = {}

                def note(i):
                    inds.setdefault(i.uid, {'id': i.graph.descriptive_id, 'n_nodes': len(i.graph.nodes),
                                            'labels': sorted({str(x) for x in i.graph.nodes}),
                                            'valid': bool(i.fitness.valid),
                                            'surrogate': bool(i.metadata.get('surrogate_evaluation'))})
                h = opt.history
                gens = []
                for g in h.generations:
                    gens.append({'num': g.generation_num, 'label': g.label, 'members': [i.uid for i in g]})
                    for i in g:
                        note(i)
                snaps = []
                for a in h.archive_history:
                    snaps.append([i.uid for i in a])
                    for i in a:
                        note(i)
                best = list(opt.generations.best_individuals)
                for i in best:
                    note(i)
                rec['history'] = {'generations': gens, 'archive': snaps}
                rec['final_archive'] = [i.uid for i in best]
                if result is not None:
                    res = []
                    for j, g in enumerate(result):
                        # several individuals may share one graph object: match by position first
                        if j < len(best) and best[j].graph is g:
                            owner = best[j].uid
                        else:
                            owner = next((i.uid for i in best if i.graph is g), None)
                        res.append({'uid': owner, 'id': g.descriptive_id, 'n_nodes': len(g.nodes)})
                    rec['result'] = res
                rec['individuals'] = inds
            finally:
                for cm in reversed(cms):
                    cm.__exit__(None, None, None)
        # what reached the disk: number of individual files per generation directory
        rec['hist_isdir'] = bool(history_dir and os.path.isdir(history_dir))
        counts = {}
        if rec['hist_isdir']:
            for r, _, fs in os.walk(history_dir):
                top = os.path.relpath(r, history_dir).split(os.sep)[0]
                if r != history_dir and os.path.isdir(os.path.join(history_dir, top)):
                    counts[top] = counts.get(top, 0) + sum(1 for f in fs if f.endswith('.json'))
        rec['dump_counts'] = counts
    finally:
        shutil.rmtree(tmp, ignore_errors=True)
    rec.update({'log': log, 'fired': fired, 'events': events, 'batches': batches, 'pops': pops,
                'wall_s': round(time.time() - t0, 3)})
    return rec


# ----------------------------------------------------------------------------------------------
# recorded run -> Coq case (script reconstructed from the recorded oracle answers + observations)
# ----------------------------------------------------------------------------------------------
LABELS = {'initial_assumptions': 'LInitial', 'extended_initial_assumptions': 'LExtended',
          'final_choices': 'LFinal', '': 'LNone', None: 'LNone'}
FAULT_OUTCOME = {None: 'Value', 'raise': 'RaiseExc', 'none': 'NoneValue', 'nan': 'NaNValue', 'base': '(Escape (EInj 4))'}
VIA_CODE = {'callback': 1, 'mutation': 2, 'factory': 3, 'objective_base': 4, 'rule': 5}
MISSING = 9999


def nats(l):
    return c_list([c_nat(x) for x in l], 'nat')


def c_exn_opt(e):
    return '(@None exn)' if e is None else '(Some %s)' % e


def observed_exn(rec, loop):
    """Coq exn for the exception that reached the caller"""
    out = rec['outcome']
    if out == 'ok':
        return None
    tname = out.split(':', 1)[1]
    msg = rec.get('exc_msg', '')
    if 'injected loop failure' in msg:
        want = (loop or {}).get('exc', 'RuntimeError')
        return '(EInj 1)' if tname == want else 'EUnknown'
    if 'injected failure in a mutation function' in msg and tname == 'InjectedLoopError':
        return '(EInj 2)'
    if 'injected failure in the random graph factory' in msg and tname == 'InjectedLoopError':
        return '(EInj 3)'
    if tname == 'InjectedBase':
        return '(EInj 4)'
    if 'injected failure in a verification rule' in msg:
        return '(EInj 5)' if tname == (loop or {}).get('exc', 'KeyError') else 'EUnknown'
    if tname == 'EvaluationAttemptsError':
        return 'EAttempts'
    if rec.get('exc_is_oserror'):
        return 'EOs'
    if tname == 'ValueError' and 'can not be evaluated again' in msg:
        return 'EValue'
    return 'EUnknown'


def class_fault(faults, g, initial_ids):
    """the fault a graph meets because of what it IS (size / label / identity), None when it evaluates"""
    f = faults or {}
    if f.get('by_class') and g['n_nodes'] % f['by_class'][0] == f['by_class'][1]:
        return f['by_class'][2]
    if f.get('by_label') and f['by_label'][0] in g['labels']:
        return f['by_label'][1]
    if f.get('by_size_over') and g['n_nodes'] > f['by_size_over'][0]:
        return f['by_size_over'][1]
    if f.get('only_size') and g['n_nodes'] != f['only_size'][0]:
        return f['only_size'][1]
    if f.get('only_initial') and g['id'] not in initial_ids:
        return f['only_initial']
    return None


class Builder:
    def __init__(self, rec):
        self.rec = rec
        self.case = rec['case']
        self.cfg = self.case['cfg']
        self.io = self.case.get('io')
        self.loop = self.case.get('loop')
        self.populational = self.cfg['optimiser'] in optrun.POPULATIONAL
        self.ids = {}
        self.gens = rec['history']['generations']
        self.snaps = rec['history']['archive']
        self.saved = 0          # Individual.save calls made so far (save_patch)

    def n(self, uid):
        if uid is None:
            return MISSING
        return self.ids.setdefault(uid, len(self.ids))

    # -- oracle answers -----------------------------------------------------------------
    def io_ans(self, k):
        if not self.io or not self.populational:
            return '(@None (mk_ans * bool))'
        size = len(self.gens[k]['members']) if k < len(self.gens) else 0
        mode = self.io['mode']
        if mode == 'ok':
            mk, d = ('MkOk' if k == 0 else 'MkNotNeeded'), True
        elif mode == 'exists':
            mk, d = 'MkNotNeeded', True
        elif mode == 'block_from':
            mk, d = 'MkNotNeeded', (k < self.io['n'] or size == 0)
        elif mode == 'save_patch':
            mk, d = 'MkNotNeeded', (size == 0 or self.saved + size <= self.io['n'])
            self.saved = self.saved + size if d else self.io['n'] + 1   # after the first failure every save fails
        else:   # uncreatable / is_file
            mk, d = 'MkFail', False
        return '(Some (%s, %s))' % (mk, c_bool(d))

    def upd(self, k, prev_arch, cb_index):
        """oracle answers of the update that recorded history generation k"""
        if k >= len(self.gens):
            return '{| u_arch := %s; u_io := (@None (mk_ans * bool)); u_cb := (@None exn) |}' % nats([])
        members = self.gens[k]['members']
        pool = list(prev_arch) + list(members)
        snap = self.snaps[k] if k < len(self.snaps) else []
        ix = [pool.index(u) if u in pool else MISSING for u in snap]
        cb = None
        if self.loop and self.loop['via'] == 'callback' and self.populational and cb_index is not None \
                and self.loop['at'] == cb_index and 'callback' in self.rec['fired']:
            cb = '(EInj 1)'
        return '{| u_arch := %s; u_io := %s; u_cb := %s |}' % (nats(ix), self.io_ans(k), c_exn_opt(cb))

    def batch(self, b):
        return '{| b_inds := %s; b_surrogate := %s |}' % (nats([self.n(u) for u in b['in']]), c_bool(b['surrogate']))

    def step(self, bs, res, label, skip, upd):
        return ('{| e_batches := %s; e_res := %s; e_label := %s; e_skip_if_empty := %s; e_upd := %s |}'
                % (c_list([self.batch(b) for b in bs], 'batch'), res, label, c_bool(skip), upd))

    def dummy_upd(self):
        return self.upd(10 ** 6, [], None)

    def evolve_failure(self, reached_final=False):
        """what the evolve step that left no population did (inferred); reached_final: the final choices
        were recorded afterwards, so - unless an error was swallowed - the step met the dedicated error"""
        fired = self.rec['fired']
        if 'mutation' in fired:
            return '(ERaise (EInj 2))'
        if 'factory' in fired:
            return '(ERaise (EInj 3))'
        if 'rule' in fired:
            return '(ERaise (EInj 5))'
        if reached_final or self.rec['outcome'] == 'ok' or self.rec['outcome'] == 'raise:EvaluationAttemptsError':
            return 'EAttemptsErr'
        return '(ERaise EUnknown)'

    # -- script --------------------------------------------------------------------------
    def script(self):
        rec = self.rec
        batches = rec['batches']
        for b in batches:
            for u in b['in']:
                self.n(u)
        if not batches:
            raise ValueError('no evaluator call was observed')
        gens = self.gens
        label = lambda k: LABELS.get(gens[k]['label'], 'LNone')
        initial = self.batch(batches[0])
        extend = 'None'
        steps = []
        final = self.dummy_upd()
        prev_pop, prev_arch = [], []
        k = 0                 # next history generation
        if self.populational:
            # segments of evaluator calls separated by recorded populations
            segs, cur = [], []
            for kind, i in rec['events'][1:]:
                if kind == 'batch':
                    cur.append(batches[i])
                else:
                    segs.append((cur, i))
                    cur = []
            trailing = cur
            first = True
            for bs, pop_i in segs:
                if k >= len(gens):
                    break
                members = gens[k]['members']
                if first:
                    first = False
                    init_upd = self.upd(k, prev_arch, pop_i)
                    if bs:     # cannot happen: the initial population is recorded right after its evaluation
                        raise ValueError('evaluator calls between the initial evaluation and its record')
                elif gens[k]['label'] == 'final_choices':
                    if bs:
                        steps.append(self.step(bs, self.evolve_failure(reached_final=True), 'LNone', False, self.dummy_upd()))
                    final = self.upd(k, prev_arch, pop_i)
                else:
                    off = [u for b in bs for u in (b['out'] or [])]
                    pool = off + list(prev_pop) + list(prev_arch)
                    ix = [pool.index(u) if u in pool else MISSING for u in members]
                    st = self.step(bs, '(EPop %s)' % nats(ix), label(k), False, self.upd(k, prev_arch, pop_i))
                    if gens[k]['label'] == 'extended_initial_assumptions' and not steps:
                        extend = '(Some %s)' % st
                    else:
                        steps.append(st)
                prev_arch = self.snaps[k] if k < len(self.snaps) else prev_arch
                prev_pop = members
                k += 1
            if first:
                init_upd = self.dummy_upd()
            if trailing or (rec['outcome'] != 'ok' and not rec['fired']) or \
                    (rec['outcome'] != 'ok' and set(rec['fired']) & {'mutation', 'factory', 'rule'}):
                escaped = bool(trailing) and trailing[-1]['out'] is None
                res = '(EPop %s)' % nats([]) if escaped else self.evolve_failure()
                steps.append(self.step(trailing, res, 'LNone', False, self.dummy_upd()))
        else:
            init_upd = self.upd(0, [], None) if gens else self.dummy_upd()
            if gens:
                prev_arch = self.snaps[0]
                k = 1
            for b in batches[1:]:
                out = b['out']
                if out is None:
                    steps.append(self.step([b], '(EPop %s)' % nats([]), 'LNone', True, self.dummy_upd()))
                    break
                if out and k < len(gens):
                    u = self.upd(k, prev_arch, None)
                    prev_arch = self.snaps[k]
                    k += 1
                else:
                    u = self.dummy_upd()
                steps.append(self.step([b], '(EPop %s)' % nats(list(range(len(out)))), 'LNone', True, u))
            if rec['outcome'] != 'ok' and not (batches[-1]['out'] is None):
                steps.append(self.step([], self.evolve_failure(), 'LNone', True, self.dummy_upd()))
            if rec['outcome'] == 'ok' and gens and gens[-1]['label'] == 'final_choices':
                final = self.upd(len(gens) - 1, prev_arch, None)
        return ('{| s_initial := %s; s_init_upd := %s; s_extend := %s; s_steps := %s; s_final_upd := %s |}'
                % (initial, init_upd, extend, c_list(steps, 'estep'), final))

    # -- observations --------------------------------------------------------------------
    def succeeded(self):
        rec = self.rec
        log = rec['log']
        ok = set()
        if self.cfg.get('n_jobs', 1) > 1:
            # no objective log from worker processes: failure is a property of the graph (class faults), which
            # c_bad_class decides for every recorded individual together with the validity of its fitness
            return set(self.ids)
        for b in rec['batches']:
            te = [u for u, v in zip(b['in'], b['in_valid']) if not v]
            if b['surrogate']:
                ok.update(te)
                continue
            entries = log[b['log_from']:b.get('log_to', len(log))]
            for u, e in zip(te, entries):
                if e['fault'] is None:
                    ok.add(u)
            for u, e in zip(b['in'], entries[len(te):]):     # parallel dispatcher: one-by-one retry
                if e['fault'] is None:
                    ok.add(u)
        return ok

    def initial_ok(self):
        rec = self.rec
        log = rec['log']
        if self.cfg.get('n_jobs', 1) > 1:
            # worker processes: the objective log stays in the workers; class faults only (see gen_cases)
            faults = self.cfg['objective'].get('faults')
            return any(class_fault(faults, g, rec.get('initial_ids', [])) is None for g in rec.get('initial_graphs', []))
        if self.populational and rec['pops']:
            n0 = rec['pops'][0]['n_log']
        elif rec['batches']:
            n0 = rec['batches'][0].get('log_to', len(log))
        else:
            n0 = len(log)
        return any(e['fault'] is None for e in log[:n0])

    def dumped(self):
        rec = self.rec
        if not (self.io and self.populational and rec['hist_isdir']):
            return []
        return [k for k, g in enumerate(self.gens) if rec['dump_counts'].get(str(k), 0) == len(g['members'])]

    def build(self, tamper=None):
        rec = self.rec
        # not replayed: parallel dispatcher (retry logic) and zero time budget (evaluations skipped by the timer)
        replay = bool(rec.get('evaluator_observed')) and self.cfg.get('parallelization_mode', 'single') == 'single' \
            and self.cfg.get('timeout_min', 2.0) != 0.0
        script = self.script()
        n = self.n
        gens = [(LABELS.get(g['label'], 'LNone'), [n(u) for u in g['members']]) for g in self.gens]
        snaps = [[n(u) for u in s] for s in self.snaps]
        result = [n(r['uid']) for r in (rec['result'] or [])]
        outs = [[n(u) for u in b['out']] for b in rec['batches'] if b['out'] is not None]
        pops = [[n(u) for u in p['uids']] for p in rec['pops']]
        succeeded = sorted(n(u) for u in self.succeeded())
        bad = []
        bc = (self.cfg['objective'].get('faults') or {}).get('by_class')
        if bc:
            bad = sorted(n(u) for u, r in rec['individuals'].items()
                         if r['n_nodes'] % bc[0] == bc[1] and not r['surrogate'])
        bl = (self.cfg['objective'].get('faults') or {}).get('by_label')
        if bl:
            bad = sorted(set(bad) | set(n(u) for u, r in rec['individuals'].items()
                                        if bl[0] in r['labels'] and not r['surrogate']))
        over = (self.cfg['objective'].get('faults') or {}).get('by_size_over')
        if over:
            bad = sorted(set(bad) | set(n(u) for u, r in rec['individuals'].items()
                                        if r['n_nodes'] > over[0] and not r['surrogate']))
        if (self.cfg['objective'].get('faults') or {}).get('only_initial'):
            bad = sorted(set(bad) | set(n(u) for u, r in rec['individuals'].items()
                                        if r['id'] not in rec.get('initial_ids', []) and not r['surrogate']))
        only = (self.cfg['objective'].get('faults') or {}).get('only_size')
        if only:
            bad = sorted(set(bad) | set(n(u) for u, r in rec['individuals'].items()
                                        if r['n_nodes'] != only[0] and not r['surrogate']))
        flt = self.cfg['objective'].get('faults') or {}
        bad = sorted(set(bad) | set(n(u) for u, r in rec['individuals'].items()
                                    if not r['surrogate'] and class_fault(flt, r, rec.get('initial_ids', [])) is not None))
        invalid = sorted(n(u) for u, r in rec['individuals'].items() if not r['valid'])
        bad = sorted(set(bad) | set(invalid))      # an individual recorded with an invalid fitness
        exn = observed_exn(rec, self.loop)
        fired = None
        for via in ('callback', 'mutation', 'factory', 'objective_base', 'rule'):
            if via in rec['fired']:
                fired = '(EInj %d)' % VIA_CODE[via]
        if tamper == 'failed_in_generation' and gens:
            gens[-1][1].append(9997)
        sched = [FAULT_OUTCOME[e['fault']] for e in rec['log']]
        n_real_evals = len(rec['log'])
        term = ('{| c_replay := %s; c_show := %s; c_sched := %s; c_script := %s; c_out := %s; c_gens := %s; '
                'c_snaps := %s; c_result := %s; c_outs := %s; c_nevals := %s; c_dumped := %s; c_pops := %s; '
                'c_fired := %s; c_initial_ok := %s; c_succeeded := %s; c_bad_class := %s |}') % (
            c_bool(replay), c_bool(bool(self.cfg.get('show_progress'))), c_list(sched, 'outcome'), script,
            'OOk' if exn is None else '(ORaise %s)' % exn,
            c_list(['(%s, %s)' % (l, nats(m)) for l, m in gens], '(label * list nat)'),
            c_list([nats(s) for s in snaps], '(list nat)'), nats(result), c_list([nats(o) for o in outs], '(list nat)'),
            c_nat(n_real_evals), nats(self.dumped()), c_list([nats(p) for p in pops], '(list nat)'),
            c_exn_opt(fired), c_bool(self.initial_ok()), nats(succeeded), nats(bad))
        facts = {'replay': replay, 'initial_ok': self.initial_ok(), 'fired': fired, 'exn': exn,
                 'n_failed_evals': sum(1 for e in rec['log'] if e['fault'] is not None),
                 'n_gens': len(gens), 'result_n': len(result), 'dumped': self.dumped()}
        return term, facts


# ----------------------------------------------------------------------------------------------
# case generation
# ----------------------------------------------------------------------------------------------
KINDS = ['raise', 'none', 'nan']


def fault_patterns(rng, quick):
    """failure sets over evaluation indices and graph classes"""
    pats = []
    singles = range(0, 8) if quick else range(0, 16)
    for i in singles:                                           # every single index up to N
        pats.append(('single', {'by_index': {str(i): KINDS[i % 3]}}))
    for a, w in ([(1, 3), (4, 6)] if quick else [(0, 2), (1, 3), (2, 8), (4, 6), (6, 12), (3, 20)]):   # bursts
        pats.append(('burst', {'by_index': {str(j): rng.choice(KINDS) for j in range(a, a + w)}}))
    for m in ([2, 3] if quick else [2, 3, 4, 5]):               # every k-th
        for r in range(1 if quick else m):
            pats.append(('every_kth', {'by_index': {str(j): KINDS[(m + r) % 3] for j in range(r, 120, m)}}))
    for n in ([1, 2, 5] if quick else [1, 2, 3, 4, 5, 6, 8, 11, 15]):   # all-after-n (all offspring fail)
        pats.append(('all_after', {'all_after': [n, rng.choice(KINDS)]}))
    for m in ([2, 3] if quick else [2, 3, 4, 5]):               # graph classes (node count modulo)
        for r in range(m):
            pats.append(('by_class', {'by_class': [m, r, KINDS[(m + r) % 3]]}))
    pats.append(('class_and_index', {'by_class': [3, 0, 'nan'], 'by_index': {'1': 'raise', '4': 'none'}}))
    return pats


def base_cfg(rng, optimiser, i):
    cfg = optrun.random_config(rng, optimiser=optimiser)
    cfg['num_of_generations'] = rng.choice([2, 3, 4]) if optimiser in optrun.POPULATIONAL else rng.choice([3, 5, 8])
    cfg['scheme'] = ['generational', 'steady_state', 'parameter_free'][i % 3]
    cfg['show_progress'] = bool((i // 3) % 2)
    cfg['timeout_min'] = 5.0
    cfg.pop('rule', None)       # custom verification rules are another property's business
    return cfg


def gen_cases(ctx):
    rng = ctx.rng
    quick = ctx.tier == 'quick'
    kinds = list(optrun.OPTIMISERS)
    cases = []
    i = 0
    # A. metric faults
    pats = fault_patterns(rng, quick)
    reps = ctx.budget(1, 4)
    for rep in range(reps):
        for tag, f in pats:
            cfg = base_cfg(rng, kinds[i % 5], i)
            cfg['objective']['faults'] = f
            if tag == 'by_class' and i % 4 == 0 and cfg['optimiser'] in optrun.POPULATIONAL:
                cfg['diversity_check'] = 1
            if tag in ('by_class', 'all_after') and i % 7 == 3 and cfg['optimiser'] in optrun.POPULATIONAL:
                cfg['parallelization_mode'] = 'populational'
            if cfg['optimiser'] == 'surrogate' and i % 2 == 0:
                cfg['num_of_generations'] = 6            # reaches a surrogate-evaluated generation
            cases.append({'group': 'metric:' + tag, 'cfg': cfg})
            i += 1
    # A2. populations that shrink to exactly ONE survivor: only the first evaluation succeeds (all offspring
    # fail from the first generation on), or every graph fails except the class of one initial graph
    INITIAL_SIZES = {'single': [1], 'chain': [3], 'two': [2, 3], 'diamond': [3]}
    combos = [('evo', 'single'), ('evo', 'two'), ('evo', 'chain'), ('surrogate', 'single'),
              ('pop_random_mutation', 'two'), ('random_mutation', 'single')]
    if not quick:
        combos = [(o, ini) for o in kinds for ini in ('single', 'chain', 'two', 'diamond')]
    for rep in range(ctx.budget(1, 2)):
        for j, (opt, ini) in enumerate(combos):
            cfg = base_cfg(rng, opt, i)
            cfg['initial'] = ini
            cfg['pop_size'] = rng.choice([3, 5, 6])
            cfg['mutation_prob'] = rng.choice([0.3, 0.8, 1.0])
            kind = KINDS[i % 3]
            if (j + rep) % 2 == 0:
                cfg['objective']['faults'] = {'all_after': [1, kind]}
            else:
                cfg['objective']['faults'] = {'only_size': [INITIAL_SIZES[ini][0], kind], 'all_after': [rng.choice([2, 3]), kind]}
            cases.append({'group': 'metric:one_survivor', 'cfg': cfg})
            i += 1
    # A3. the structural-diversity refill: the check fires every 1 or 2 generations, the population has fewer than
    # MIN_POP_SIZE distinct structures (tiny pop_size / single initial graph / one mutation kind), and the freshly
    # created refill individuals fail their evaluation (by index for copies, by class for mutants)
    refill = [('pop_random_mutation', 1, {'every': 2}), ('evo', 1, {'class': [2, 0]}), ('evo', 2, {'every': 2}),
              ('pop_random_mutation', 2, {'after': 4}), ('evo', 1, {'after': 6}), ('surrogate', 1, {'every': 3})]
    if not quick:
        refill = [(o, d, f) for o in optrun.POPULATIONAL for d in (1, 2)
                  for f in ({'every': 2}, {'every': 3}, {'class': [2, 0]}, {'class': [2, 1]}, {'class': [3, 1]}, {'after': 4}, {'after': 7})]
    for rep in range(ctx.budget(1, 1)):
        for j, (opt, div, f) in enumerate(refill):
            cfg = base_cfg(rng, opt, i)
            cfg['diversity_check'] = div
            cfg['pop_size'] = rng.choice([2, 3])
            cfg['max_pop_size'] = rng.choice([8, 12])
            cfg['initial'] = rng.choice(['single', 'chain', 'two'])
            cfg['num_of_generations'] = rng.choice([3, 4, 5])
            cfg['early_stopping_iterations'] = None
            cfg['mutation'] = rng.choice([['single_change'], ['single_add', 'single_drop'], ['single_add', 'single_change', 'single_drop', 'single_edge']])
            kind = KINDS[i % 3]
            if 'every' in f:      # the first evaluation (an initial graph) always succeeds
                faults = {'by_index': {str(x): kind for x in range(1, 160, f['every'])}}
            elif 'class' in f:
                faults = {'by_class': [f['class'][0], f['class'][1], kind]}
            else:
                faults = {'all_after': [f['after'], kind]}
            cfg['objective']['faults'] = faults
            cases.append({'group': 'metric:diversity_refill', 'cfg': cfg})
            i += 1
    # tiny search space (two node labels, depth 1-2, single initial graph) + a label that cannot be evaluated:
    # the refill has to create fresh mutants, some of which fail (configuration family of optrun.collapse_config)
    if hasattr(optrun, 'collapse_config'):
        for rep in range(ctx.budget(1, 6)):
            for opt in (('evo', 'pop_random_mutation', 'evo') if quick else optrun.POPULATIONAL):
                cfg = optrun.collapse_config(rng, optimiser=opt)
                cfg['scheme'] = ['generational', 'steady_state', 'parameter_free'][i % 3]
                cfg['show_progress'] = bool(i % 2)
                cfg['timeout_min'] = 5.0
                cfg['num_of_generations'] = min(cfg['num_of_generations'], 4 if quick else 6)
                cases.append({'group': 'metric:diversity_refill', 'cfg': cfg})
                i += 1
    # A4. the parallel dispatcher (parallelization_mode='populational', n_jobs=1) with batches that mix already
    # evaluated individuals with new ones that ALL fail: extension of the initial population where only the
    # initial class evaluates, generations whose offspring all fail (its "get at least one" retry path)
    par = [('evo', 'generational', 'after1'), ('evo', 'steady_state', 'only'), ('pop_random_mutation', 'generational', 'after2'),
           ('surrogate', 'parameter_free', 'only'), ('evo', 'parameter_free', 'label')]
    if not quick:
        par = [(o, sch, f) for o in optrun.POPULATIONAL for sch in ('generational', 'steady_state', 'parameter_free')
               for f in ('after1', 'after2', 'only', 'label', 'class')]
    for j, (opt, sch, f) in enumerate(par):
        if f == 'label' and hasattr(optrun, 'collapse_config'):
            cfg = optrun.collapse_config(rng, optimiser=opt)
            cfg['num_of_generations'] = min(cfg['num_of_generations'], 4)
            cfg['show_progress'] = bool(i % 2)
            cfg['timeout_min'] = 5.0
        else:
            cfg = base_cfg(rng, opt, i)
            ini = rng.choice(['single', 'chain', 'two'])
            cfg['initial'] = ini
            cfg['pop_size'] = rng.choice([3, 5, 6])
            kind = KINDS[i % 3]
            if f == 'after1':
                cfg['objective']['faults'] = {'all_after': [1, kind]}
            elif f == 'after2':
                cfg['objective']['faults'] = {'all_after': [rng.choice([2, 3, 4]), kind]}
            elif f == 'class':
                cfg['objective']['faults'] = {'by_class': [2, rng.randrange(2), kind]}
            else:
                cfg['objective']['faults'] = {'only_initial': kind}
            if j % 3 == 0:
                cfg['diversity_check'] = 1
        cfg['scheme'] = sch
        cfg['parallelization_mode'] = 'populational'
        cases.append({'group': 'metric:parallel_dispatcher', 'cfg': cfg})
        i += 1
    # A5. parents passing through reproduction unchanged (low mutation probability, no crossover) while EVERY new
    # graph fails, for enough generations that the success-rate window of ReproductionController (10 records,
    # state kept across attempts and generations) is rewritten completely; plus optrun's passthrough / lucky-few
    # families (all-after-n, by_size_over, only every 6th-9th evaluation succeeds)
    window = [('evo', 'generational'), ('evo', 'steady_state'), ('surrogate', 'steady_state'), ('evo', 'generational')]
    if not quick:
        window = [(o, sch) for o in ('evo', 'surrogate') for sch in ('generational', 'steady_state')] * 4
    for j, (opt, sch) in enumerate(window):
        cfg = base_cfg(rng, opt, i)
        ps = rng.choice([10, 12, 14])
        cfg.update({'scheme': sch, 'pop_size': ps, 'max_pop_size': ps, 'mutation_prob': rng.choice([0.3, 0.4]),
                    'crossover': ['none'], 'crossover_prob': 0.0, 'mutation': rng.choice([['single_add'], ['single_add', 'single_change']]),
                    'initial': rng.choice(['three', 'mixed_sizes', 'two']), 'num_of_generations': rng.choice([9, 10, 12]),
                    'early_stopping_iterations': None, 'diversity_check': -1, 'selection': ['tournament'],
                    'elitism': rng.choice(['keep_n_best', 'none'])})
        cfg['objective'] = {'metrics': [rng.choice(['size', 'label', 'balance'])], 'multi': False,
                            'faults': {'all_after': [ps, KINDS[i % 3]]}}     # initial + extended population evaluate
        cases.append({'group': 'metric:passthrough', 'cfg': cfg})
        i += 1
    for fam in ('passthrough_config', 'lucky_few_config'):
        if hasattr(optrun, fam):
            for rep in range(ctx.budget(2 if fam == 'passthrough_config' else 1, 12)):
                cfg = getattr(optrun, fam)(rng)
                cfg['show_progress'] = bool(i % 2)
                cfg['timeout_min'] = 5.0
                if fam == 'passthrough_config':
                    cfg['num_of_generations'] = max(cfg['num_of_generations'], 8)
                cases.append({'group': 'metric:passthrough', 'cfg': cfg})
                i += 1
    # A6. real worker processes (n_jobs=2, parallel dispatcher: the objective is pickled into joblib workers) with
    # RAISING metrics; class faults only, because the objective log stays in the workers
    wp = [('evo', {'by_class': [2, 0, 'raise']}), ('pop_random_mutation', {'by_size_over': [3, 'raise']})]
    if not quick:
        wp += [('surrogate', {'by_class': [3, 1, 'raise']}), ('evo', {'only_initial': 'raise'}), ('evo', {'by_size_over': [4, 'raise']}),
               ('pop_random_mutation', {'by_class': [2, 1, 'raise']})]
    for opt, f in wp:
        cfg = base_cfg(rng, opt, i)
        cfg.update({'parallelization_mode': 'populational', 'n_jobs': 2, 'num_of_generations': 2, 'pop_size': rng.choice([3, 4]),
                    'initial': 'three', 'diversity_check': -1})
        cfg['objective'] = {'metrics': [rng.choice(['size', 'balance'])], 'multi': False, 'faults': f}
        cases.append({'group': 'metric:worker_processes', 'cfg': cfg})
        i += 1
    # A7. decremental regularization (sub-graphs of 'fitted' members are evaluated and offered to selection) with
    # steady-state / parameter-free inheritance and metrics that fail on sub-graphs
    if hasattr(optrun, 'regularization_config'):
        regs = [('steady_state', {'only_initial': 'raise'}), ('steady_state', {'by_class': [2, 0, 'nan']}),
                ('parameter_free', {'every': 2}), ('steady_state', {'every': 2})]
        if not quick:
            regs = [(sch, f) for sch in ('steady_state', 'parameter_free', 'generational')
                    for f in ({'only_initial': 'raise'}, {'only_initial': 'nan'}, {'by_class': [2, 0, 'nan']}, {'by_class': [2, 1, 'raise']},
                              {'by_class': [3, 1, 'none']}, {'every': 2}, {'every': 3})]
        for sch, f in regs:
            cfg = optrun.regularization_config(rng)
            cfg.pop('rule', None)
            cfg.update({'scheme': sch, 'initial': rng.choice(['big', 'big', 'mixed_sizes', 'chain']), 'show_progress': bool(i % 2),
                        'timeout_min': 5.0, 'diversity_check': -1, 'selection': [['spea2', 'tournament'][i % 2]]})
            if 'every' in f:
                f = {'by_index': {str(x): KINDS[i % 3] for x in range(1, 200, f['every'])}}
            cfg['objective'] = {'metrics': [rng.choice(['size', 'balance', 'label'])], 'multi': False, 'faults': f}
            cases.append({'group': 'metric:regularization', 'cfg': cfg})
            i += 1
    # B. persistence faults (populational classes dump; the random-search family never does)
    ios = [{'mode': 'ok'}, {'mode': 'block_from', 'n': 0}, {'mode': 'block_from', 'n': 1}, {'mode': 'block_from', 'n': 2},
           {'mode': 'save_patch', 'n': 0}, {'mode': 'save_patch', 'n': 3}, {'mode': 'save_patch', 'n': 7},
           {'mode': 'uncreatable'}, {'mode': 'is_file'}, {'mode': 'exists'}]
    for rep in range(ctx.budget(1, 8)):
        for j, io in enumerate(ios):
            opt = kinds[(i + j) % 5] if (rep + j) % 4 == 3 else optrun.POPULATIONAL[(i + j) % 3]
            cfg = base_cfg(rng, opt, i)
            if (i + rep) % 2:
                cfg['objective']['faults'] = rng.choice(pats)[1]
            cases.append({'group': 'io:' + io['mode'], 'cfg': cfg, 'io': io})
            i += 1
    # C. errors injected into the loop
    loops = []
    for at in ([0, 1, 2, 3] if quick else [0, 1, 2, 3, 4, 5]):
        loops.append({'via': 'callback', 'at': at, 'exc': ['RuntimeError', 'KeyError', 'ValueError', 'OSError', 'KeyboardInterrupt'][at % 5]})
    for at in ([0, 2, 5] if quick else [0, 1, 2, 3, 5, 8, 13]):
        loops.append({'via': 'objective_base', 'at': at})
    for at in ([0, 3] if quick else [0, 1, 2, 3, 6, 10]):
        loops.append({'via': 'mutation', 'at': at})
    for at in ([0, 2] if quick else [0, 1, 2, 4]):
        loops.append({'via': 'factory', 'at': at})
    for rep in range(ctx.budget(1, 5)):
        for lp in loops:
            if lp['via'] == 'callback':
                opt = optrun.POPULATIONAL[i % 3]
            elif lp['via'] == 'factory':
                opt = 'random_search'
            elif lp['via'] == 'mutation':
                opt = ['evo', 'surrogate', 'pop_random_mutation', 'random_mutation'][i % 4]
            else:
                opt = kinds[i % 5]
            for show in ([False, True] if (rep == 0 or not quick) else [bool(i % 2)]):
                cfg = base_cfg(rng, opt, i)
                cfg['show_progress'] = show
                if rep % 2:
                    cfg['objective']['faults'] = rng.choice(pats)[1]
                cases.append({'group': 'loop:' + lp['via'], 'cfg': cfg, 'loop': lp})
            i += 1
    # a user verification rule that raises a NON-ValueError on graphs produced during the run (initial graphs pass)
    rules = [{'kind': 'max_nodes', 'arg': None, 'exc': 'KeyError'}, {'kind': 'no_label', 'arg': 'c', 'exc': 'RuntimeError'},
             {'kind': 'after', 'arg': 3, 'exc': 'TypeError'}, {'kind': 'after', 'arg': 12, 'exc': 'KeyError'},
             {'kind': 'max_nodes', 'arg': None, 'exc': 'TypeError'}]
    for rep in range(ctx.budget(1, 4)):
        for j, opt in enumerate(kinds):
            spec = rules[(j + rep) % len(rules)]
            cfg = base_cfg(rng, opt, i)
            if spec['kind'] == 'no_label':
                cfg['initial'] = 'single'          # no node labelled 'c' at the start
            if (j + rep) % 4 == 3 and opt in optrun.POPULATIONAL:
                cfg['parallelization_mode'] = 'populational'
            if rep % 2:
                cfg['objective']['faults'] = rng.choice(pats)[1]
            cases.append({'group': 'loop:rule', 'cfg': cfg, 'loop': dict(spec, via='rule')})
            i += 1
    # an error raised while the timer already reports its time limit (a timer __exit__ must not suppress it)
    for rep in range(ctx.budget(1, 3)):
        for show in (False, True):
            cfg = base_cfg(rng, optrun.POPULATIONAL[(i + rep) % 3], i)
            cfg['show_progress'] = show
            cfg['timeout_min'] = 0.0
            cases.append({'group': 'loop:callback_time_limit', 'cfg': cfg,
                          'loop': {'via': 'callback', 'at': 0, 'exc': 'RuntimeError'}})
            i += 1
    return cases


def _work(case):
    import logging
    logging.disable(logging.CRITICAL)
    import io as _io
    import contextlib
    try:
        with contextlib.redirect_stderr(_io.StringIO()):      # tqdm writes to stderr
            return run_case({k: v for k, v in case.items() if k != 'group'})
    except BaseException as ex:  # noqa
        return {'case': case, 'crash': '%s: %s\n%s' % (type(ex).__name__, ex, traceback.format_exc()[-1500:])}
    finally:
        if case['cfg'].get('n_jobs', 1) > 1:
            # joblib keeps its worker processes for 300 s: release them, or this process cannot exit
            try:
                from joblib.externals.loky import get_reusable_executor
                get_reusable_executor().shutdown(wait=True, kill_workers=True)
            except Exception:  # noqa
                pass


def summarise(case, rec, facts):
    return {'case': {k: v for k, v in case.items() if k != 'group'}, 'group': case.get('group'),
            'outcome': rec.get('outcome'), 'exception': (rec.get('exception') or '').strip().splitlines()[-1:] ,
            'fired': rec.get('fired'), 'facts': facts,
            'generations': [(g['label'], len(g['members'])) for g in rec['history']['generations']] if rec.get('history') else None,
            'result': rec.get('result')}


def classify(case, rec, facts):
    """(what, finding_key) for a case whose holds_b is false"""
    if facts['fired'] and rec['outcome'] == 'ok':
        return 'an error raised inside the optimisation loop was discarded: the run returned normally', None
    if facts['fired']:
        return 'the error raised inside the loop did not reach the caller unchanged (%s)' % rec['outcome'], None
    if rec['outcome'] == 'raise:EvaluationAttemptsError':
        return 'EvaluationAttemptsError escaped from optimise', None
    if rec['outcome'] != 'ok' and case.get('io') and rec.get('exc_is_oserror'):
        return 'a failure of the history dump (%s) propagated out of optimise: %s' % (case['io']['mode'], rec['outcome']), None
    if rec['outcome'] != 'ok':
        return 'optimise raised %s although an initial graph evaluated and nothing was injected into the loop' % rec['outcome'], None
    if facts['initial_ok'] and facts['result_n'] == 0:
        return 'empty result although an initial graph evaluated', None
    return 'an individual whose evaluation failed (or with an invalid fitness) is in a population, the history or the result', None


def evaluate_cases(ctx, group, todo):
    """todo: list of (case, rec).  Builds Coq cases, evaluates, reports."""
    terms, metas = [], []
    for case, rec in todo:
        if 'crash' in rec:
            ctx.error(group, 'driver crashed on %s: %s' % (json.dumps(case), rec['crash']))
            continue
        if rec.get('history') is None:
            ctx.error(group, 'no history for %s: %s' % (json.dumps(case), rec.get('exception')))
            continue
        try:
            term, facts = Builder(rec).build()
        except Exception as ex:  # noqa
            ctx.error(group, 'cannot reconstruct the run of %s: %s %s' % (json.dumps(case), type(ex).__name__, ex))
            continue
        terms.append(term)
        metas.append((case, rec, facts))
    return terms, metas


def run(ctx):
    ctx.rule = ('REAL runs of the five optimiser classes x genetic schemes x progress bar on/off x seeds with (A) metric '
                'faults injected by evaluation index (every single index, bursts, every k-th, all-after-n) and by graph class '
                '(node count modulo) x kinds raise/None/NaN, (B) history-dump faults (blocked generation directories from the '
                'n-th on, Individual.save failing from its n-th call, un-creatable history_dir, history_dir naming a file), '
                '(C) errors injected into the loop (iteration callback x 5 exception types, objective raising a BaseException, '
                'mutation function, random graph factory); one case = one run; distinct = distinct case description; '
                'non-trivial = at least one evaluation failed, a dump failed or an injected error fired')
    ctx.trusted_extra = [
        'the evolve step, the archive, the file system and the iteration callback are oracles: the model replays their '
        'recorded answers (which evaluated/previous/archived individuals form the next population, what the archive kept)',
        'evaluator calls are observed by wrapping evaluate_population of the two dispatcher classes inside the driver process',
        'disk faults are exercised (directories replaced by files, Individual.save patched), not modelled below the oracle',
        'Evo/Reproduction.v + ReproductionProofs.v (property C16) supply the model of the attempt loop of reproduce']
    cases = gen_cases(ctx)
    import concurrent.futures
    workers = int(os.environ.get('VERIF_C07_WORKERS', '4'))
    with concurrent.futures.ProcessPoolExecutor(workers) as ex:
        recs = list(ex.map(_work, cases, chunksize=1))
    terms, metas = evaluate_cases(ctx, 'runs', list(zip(cases, recs)))
    # canary: a real run into whose last observed generation an individual that never evaluated is planted
    canary_at = None
    for (case, rec, facts) in metas:
        if rec['outcome'] == 'ok' and facts['replay']:
            t, _ = Builder(rec).build(tamper='failed_in_generation')
            terms.append(t)
            canary_at = len(terms) - 1
            ctx.canaries += 1
            break
    res = ctx.coq_cases('runs', REQ, FN, terms, 2, shard=ctx.pick(6, 20))
    if canary_at is not None and res[canary_at] == (False, False):
        ctx.canaries_caught += 1
    n_samples = 0
    for (case, rec, facts), (ag, ho) in zip(metas, res):
        nontrivial = facts['n_failed_evals'] > 0 or bool(facts['fired']) or bool(case.get('io') and case['io']['mode'] not in ('ok', 'exists'))
        ctx.count(case['group'].split(':')[0], key=json.dumps({k: v for k, v in case.items() if k != 'group'}, sort_keys=True),
                  nontrivial=nontrivial, optimiser=case['cfg']['optimiser'], pattern=case['group'], outcome=rec['outcome'],
                  show_progress=bool(case['cfg'].get('show_progress')), scheme=case['cfg'].get('scheme'),
                  initial_evaluated=facts['initial_ok'], replayed=facts['replay'],
                  failed_evaluations=min(facts['n_failed_evals'], 10))
        if not ho:
            what, key = classify(case, rec, facts)
            ctx.violate(case['group'], summarise(case, rec, facts), what, finding_key=key)
        if not ag:
            ctx.disagree(case['group'], summarise(case, rec, facts),
                         'model replay (fault schedule + recorded oracle answers) differs from the run in outcome, '
                         'evaluator outputs, generations, snapshots, result, evaluation count or dumped generations')
        if n_samples < 5 and nontrivial and (n_samples == 0 or case['group'].split(':')[0] not in [s['group'].split(':')[0] for s in ctx.samples]):
            ctx.sample(summarise(case, rec, facts))
            n_samples += 1


def replay(ctx, payload):
    v = payload.get('violation') or payload.get('first_disagreement') or {}
    c = (v.get('case') or {}).get('case')
    if not c:
        return
    case = dict(c, group='replay')
    rec = _work(case)
    terms, metas = evaluate_cases(ctx, 'replay', [(case, rec)])
    if not terms:
        return
    res = ctx.coq_cases('replay', REQ, FN, terms, 2)
    case, rec, facts = metas[0]
    ctx.count('replay', key=json.dumps(c, sort_keys=True), nontrivial=True)
    if not res[0][1]:
        what, key = classify(case, rec, facts)
        ctx.violate('replay', summarise(case, rec, facts), what, finding_key=key)
    if not res[0][0]:
        ctx.disagree('replay', summarise(case, rec, facts), 'model replay differs from the run')
