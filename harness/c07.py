"""C07 - evaluation and persistence faults do not derail or silently cut short a run.
Implementation: REAL optimiser runs (configurations of harness/optrun.py) with injected metric
faults (by evaluation index / by graph class; raise / None / NaN), injected history-dump faults
(blocked generation directories, failing Individual.save, un-creatable history_dir) and errors
injected INTO the optimisation loop (iteration callback, objective raising a BaseException,
custom mutation function, random graph factory).
Model: coq/theories/Evo/Faults.v (agree / holds_b)."""
import json
import os
import random
import shutil
import tempfile
import time
import traceback
from unittest.mock import patch

import numpy as np

import optrun
from common import c_bool, c_list, c_nat, c_opt

REQ = ['Evo.Faults']
FN = 'fun c => [agree c; holds_b c]'


# ----------------------------------------------------------------------------------------------
# injected faults
# ----------------------------------------------------------------------------------------------
class InjectedBase(BaseException):
    """not an Exception: Objective.__call__ (except Exception) does not turn it into a null fitness"""


class InjectedLoopError(RuntimeError):
    pass


class Metric7(optrun.Metric):
    """optrun.Metric + 'base_at': evaluation index at which a BaseException is raised"""

    def __init__(self, inner, base_at, fired):
        super().__init__(inner.kind, inner.faults, inner.log, inner.primary)
        self.base_at = base_at
        self.fired = fired

    def __call__(self, g):
        if self.base_at is not None and self.calls == self.base_at:
            self.log.append({'i': self.calls, 'id': g.descriptive_id, 'fault': 'base'})
            self.calls += 1
            self.fired.append('objective_base')
            raise InjectedBase('injected non-Exception failure in the objective')
        return super().__call__(g)


class FaultyMutation:
    """custom mutation function: the k-th call raises, the others apply a real single_change"""
    __name__ = 'faulty_single_change'

    def __init__(self, at, fired):
        self.at = at
        self.calls = 0
        self.fired = fired

    def __call__(self, graph, requirements=None, graph_gen_params=None, parameters=None, **kw):
        from golem.core.optimisers.genetic.operators.base_mutations import single_add_mutation
        k = self.calls
        self.calls += 1
        if k == self.at:
            self.fired.append('mutation')
            raise InjectedLoopError('injected failure in a mutation function')
        return single_add_mutation(graph, requirements, graph_gen_params, parameters)


class FaultyFactory:
    def __init__(self, inner, at, fired):
        self.inner = inner
        self.at = at
        self.calls = 0
        self.fired = fired

    def __call__(self, *args, **kw):
        k = self.calls
        self.calls += 1
        if k == self.at:
            self.fired.append('factory')
            raise InjectedLoopError('injected failure in the random graph factory')
        return self.inner(*args, **kw)


EXC = {'RuntimeError': RuntimeError, 'KeyError': KeyError, 'ValueError': ValueError, 'OSError': OSError,
       'KeyboardInterrupt': KeyboardInterrupt}


# ----------------------------------------------------------------------------------------------
# one real run
# ----------------------------------------------------------------------------------------------
def _prepare_io(io, tmp):
    """returns (history_dir or None, list of context managers to enter)"""
    if not io:
        return None, []
    mode = io['mode']
    hist = os.path.join(tmp, 'hist')
    if mode == 'ok':               # directory does not exist yet: os.makedirs creates it at the first dump
        return hist, []
    if mode == 'exists':
        os.makedirs(hist)
        return hist, []
    if mode == 'block_from':       # generation directories n, n+1, ... are regular files: mkdir(parents) fails
        os.makedirs(hist)
        for g in range(io['n'], io['n'] + 64):
            with open(os.path.join(hist, str(g)), 'w') as f:
                f.write('x')
        return hist, []
    if mode == 'save_patch':       # Individual.save raises from its n-th call on
        os.makedirs(hist)
        from golem.core.optimisers.opt_history_objects.individual import Individual
        orig = Individual.save
        state = {'n': 0}

        def save(self, json_file_path=None):
            k = state['n']
            state['n'] += 1
            if k >= io['n']:
                raise OSError(28, 'injected: no space left on device')
            return orig(self, json_file_path=json_file_path)
        return hist, [patch.object(Individual, 'save', save)]
    if mode == 'uncreatable':      # a regular file is in the way of the directory path
        with open(os.path.join(tmp, 'afile'), 'w') as f:
            f.write('x')
        return os.path.join(tmp, 'afile', 'hist'), []
    if mode == 'is_file':          # history_dir names an existing regular file
        with open(hist, 'w') as f:
            f.write('x')
        return hist, []
    raise KeyError(mode)


def run_case(case):
    """case = {'cfg': optrun configuration, 'io': None | {...}, 'loop': None | {'via': callback|objective_base|
    mutation|factory, 'at': k, 'exc': name}}.  Returns a JSON-able record of everything observed."""
    cfg = case['cfg']
    io = case.get('io')
    loop = case.get('loop')
    log, fired, events, batches, pops = [], [], [], [], []
    rec = {'case': case, 'outcome': None, 'result': None}
    t0 = time.time()
    tmp = tempfile.mkdtemp(prefix='golem_c07_')
    seed = cfg.get('seed', 0)
    try:
        history_dir, cms = _prepare_io(io, tmp)
        from golem.core.optimisers.genetic import evaluation as ev_mod
        # evaluator observation: every call of a dispatcher's evaluate_population (input, output, log range)
        wrapped = []
        for cls_name in ('SequentialDispatcher', 'MultiprocessingDispatcher'):
            cls = getattr(ev_mod, cls_name, None)
            if cls is None or 'evaluate_population' not in vars(cls):
                continue
            orig = vars(cls)['evaluate_population']

            def make(orig):
                def evaluate_population(self, individuals):
                    b = {'in': [i.uid for i in individuals], 'in_valid': [bool(i.fitness.valid) for i in individuals],
                         'log_from': len(log), 'surrogate': type(self).__name__ == 'SurrogateDispatcher', 'out': None}
                    batches.append(b)
                    events.append(['batch', len(batches) - 1])
                    out = orig(self, individuals)
                    b['out'] = [i.uid for i in out]
                    b['log_to'] = len(log)
                    return out
                return evaluate_population
            cms.append(patch.object(cls, 'evaluate_population', make(orig)))
            wrapped.append(cls_name)
        rec['evaluator_observed'] = len(wrapped) == 2
        with patch('os.urandom', optrun.urandom_mock):
            random.seed(seed)
            np.random.seed(seed)
            for cm in cms:
                cm.__enter__()
            try:
                opt, objective, gen = optrun.make_optimiser(cfg, log, history_dir)
                rec['n_initial'] = len(opt.initial_graphs or [])
                if loop and loop['via'] == 'objective_base':
                    key = next(iter(objective.quality_metrics))
                    objective.quality_metrics[key] = Metric7(objective.quality_metrics[key], loop['at'], fired)
                if loop and loop['via'] == 'mutation':
                    fm = FaultyMutation(loop['at'], fired)
                    # same list object is shared by GPAlgorithmParameters and the operator agent
                    opt.graph_optimizer_params.mutation_types = [fm]
                    if hasattr(opt, 'mutation'):
                        from golem.core.optimisers.genetic.operators.mutation import Mutation
                        opt.mutation = Mutation(opt.graph_optimizer_params, opt.requirements, opt.graph_generation_params)
                        if hasattr(opt, 'operators'):
                            opt.operators = [opt.mutation if type(o).__name__ == 'Mutation' else o for o in opt.operators]
                        if hasattr(opt, 'reproducer'):
                            opt.reproducer.mutation = opt.mutation
                if loop and loop['via'] == 'factory':
                    gen.random_graph_factory = FaultyFactory(gen.random_graph_factory, loop['at'], fired)
                verifier = gen.verifier

                def cb(population, optimiser):
                    k = len(pops)
                    pops.append({'uids': [i.uid for i in population], 'valid': [bool(i.fitness.valid) for i in population],
                                 'archive': [i.uid for i in optimiser.generations.best_individuals],
                                 'n_log': len(log)})
                    events.append(['pop', k])
                    if loop and loop['via'] == 'callback' and loop['at'] == k:
                        fired.append('callback')
                        raise EXC[loop.get('exc', 'RuntimeError')]('injected loop failure')
                opt.set_iteration_callback(cb)
                result = None
                try:
                    result = opt.optimise(objective)
                    rec['outcome'] = 'ok'
                except BaseException as ex:  # noqa  (BaseException: injected non-Exception errors)
                    if isinstance(ex, (SystemExit, GeneratorExit, MemoryError)):
                        raise
                    rec['outcome'] = 'raise:' + type(ex).__name__
                    rec['exception'] = traceback.format_exc()[-1200:]
                    rec['exc_injected'] = 'injected' in str(ex)
                inds = {}

                def note(i):
                    inds.setdefault(i.uid, {'id': i.graph.descriptive_id, 'n_nodes': len(i.graph.nodes),
                                            'valid': bool(i.fitness.valid),
                                            'surrogate': bool(i.metadata.get('surrogate_evaluation'))})
                h = opt.history
                gens = []
                for g in h.generations:
                    gens.append({'num': g.generation_num, 'label': g.label, 'members': [i.uid for i in g]})
                    for i in g:
                        note(i)
                snaps = []
                for a in h.archive_history:
                    snaps.append([i.uid for i in a])
                    for i in a:
                        note(i)
                best = list(opt.generations.best_individuals)
                for i in best:
                    note(i)
                rec['history'] = {'generations': gens, 'archive': snaps}
                rec['final_archive'] = [i.uid for i in best]
                if result is not None:
                    res = []
                    for g in result:
                        owner = next((i.uid for i in best if i.graph is g), None)
                        res.append({'uid': owner, 'id': g.descriptive_id, 'n_nodes': len(g.nodes)})
                    rec['result'] = res
                rec['individuals'] = inds
            finally:
                for cm in reversed(cms):
                    cm.__exit__(None, None, None)
        if history_dir and os.path.isdir(history_dir):
            dumped = set()
            for r, _, fs in os.walk(history_dir):
                if fs and r != history_dir:
                    dumped.add(os.path.relpath(r, history_dir).split(os.sep)[0])
            rec['dumped_generations'] = sorted(dumped, key=lambda s: (len(s), s))
        else:
            rec['dumped_generations'] = None
    finally:
        shutil.rmtree(tmp, ignore_errors=True)
    rec.update({'log': log, 'fired': fired, 'events': events, 'batches': batches, 'pops': pops,
                'wall_s': round(time.time() - t0, 3)})
    return rec
