"""C08 - best-so-far archives hold exactly the best of everything they were shown.
Implementation: golem.core.optimisers.archive.individuals_containers (HallOfFame, ParetoFront),
golem.core.optimisers.archive.generation_keeper (GenerationKeeper, _individuals_same).
Model: coq/theories/Archive/{Hof,Pareto,Keeper}.v  (Keeper.check_case = [agree; holds_b]).

A case is one whole update sequence: target configuration, pool of individuals, populations as
index lists into the pool, and what was observed on the real object after every update."""
import copy
import itertools
import pickle
from operator import eq as op_eq

from common import c_Q, c_bool, c_list, c_nat, c_opt

from golem.core.optimisers.archive.generation_keeper import GenerationKeeper, _individuals_same
from golem.core.optimisers.archive.individuals_containers import HallOfFame, ParetoFront
from golem.core.optimisers.fitness import MultiObjFitness, SingleObjFitness, null_fitness
from golem.core.optimisers.graph import OptGraph, OptNode
from golem.core.optimisers.objective import Objective
from golem.core.optimisers.opt_history_objects.individual import Individual

REQ = ['Fitness.Fitness', 'Archive.Hof', 'Archive.Pareto', 'Archive.Keeper']
FN = 'check_case'
CASE_TY = 'target * list indiv * list (list nat) * list ostep'

# ----------------------------------------------------------------------------------------
# fitness alphabets: dyadic values, pairwise identical or far apart (exact in binary64)
# ----------------------------------------------------------------------------------------
# lexicographic (single-objective fitness, primary + supplementary values): ties on the primary
LEX = {1: [[(0.0,), (1.0,), (2.0,)], [(0.5,), (1.5,), (-1.0,)]],
       2: [[(1.0, 0.0), (1.0, 1.0), (0.0, 2.0)], [(0.0, 0.5), (1.0, 0.0), (0.0, 1.5)]],
       3: [[(1.0, 0.0, 1.0), (1.0, 0.0, 0.0), (0.0, 1.0, 1.0)], [(0.0, 0.0, 0.0), (0.0, 0.0, 1.0), (0.0, 1.0, 0.0)]]}
# Pareto: incomparable pair + a vector both dominate / chain + incomparable
PAR = {2: [[(0.0, 1.0), (1.0, 0.0), (1.0, 1.0)], [(0.0, 2.0), (1.0, 1.0), (1.0, 2.0)], [(1.0, 1.0), (0.0, 2.0), (2.0, 0.0)]],
       3: [[(0.0, 1.0, 1.0), (1.0, 0.0, 1.0), (1.0, 1.0, 1.0)], [(0.0, 0.0, 2.0), (0.0, 1.0, 1.0), (1.0, 1.0, 1.0)]],
       1: [[(0.0,), (1.0,), (2.0,)]]}
GRID = [-1.0, 0.0, 0.5, 1.0, 1.5, 2.0, 3.0]
# other magnitudes, all exact in binary64 and pairwise separated beyond the archive's own tolerance
# (|a - b| > 1e-10 + 1e-8 |b|): around 1e6 values 1..7 units apart, around 1e9 values >= 32 units apart
# (closer ones are EQUAL for Fitness.__eq__ and outside C08's separation hypothesis), tiny values
# 2^-27 .. 2^-31 (7.5e-9 .. 4.7e-10; below that any two values are equal within atol = 1e-10)
MEGA = [2000000.0, 1999999.0, 1999998.0, 1999996.0, 1999993.0]
GIGA = [1e9, 1e9 - 32.0, 1e9 - 64.0, 1e9 - 160.0]
TINY = [2.0 ** -27, 2.0 ** -28, 2.0 ** -29, 2.0 ** -30, 2.0 ** -31]
MAGNITUDES = {'mega': MEGA, 'giga': GIGA, 'tiny': TINY, 'mixed': [2000000.0, 1999999.0, 0.5, 2.0 ** -29, 2.0 ** -30, 1e9 - 32.0]}


# ----------------------------------------------------------------------------------------
# building and observing the real objects
# ----------------------------------------------------------------------------------------
def is_multi_target(t):
    return t[0] in ('pareto', 'keepersim') or (t[0] == 'keeper' and t[1])


def is_keeper_target(t):
    return t[0] in ('keeper', 'keepersim')


# similarity functions a user may construct the containers with
def same_structure(a, b):
    return a.graph == b.graph


def never_similar(a, b):
    return False


def always_similar(a, b):
    return True


def zero_metric(graph):
    return 0.0


class ExtendedObjective(Objective):
    """a user subclass that bolts one more criterion on the base objective by extending `metrics`"""

    @property
    def metrics(self):
        return [*super().metrics, ('extra', zero_metric)]


def make_objective(nq, nc, multi, subclass=False):
    """nq quality + nc complexity metrics; with subclass=True the last complexity criterion comes
    from the overridden `metrics` property instead of the constructor arguments"""
    cls = Objective
    if subclass and nc >= 1:
        cls, nc = ExtendedObjective, nc - 1
    return cls(quality_metrics={'q%d' % i: zero_metric for i in range(nq)},
               complexity_metrics={'c%d' % i: zero_metric for i in range(nc)},
               is_multi_objective=multi)


# module-level functions: the containers and keepers must survive pickling
SIMILAR = {'uid': op_eq,                                   # the containers' default (Individual.__eq__)
           'same': _individuals_same,                      # the keeper's default
           'graph': same_structure,                        # genotype only: "same structure", no fitness
           'never': never_similar,
           'always': always_similar}
COQ_SIM = {'uid': 'SimUid', 'same': 'SimSame', 'graph': 'SimGraph', 'never': 'SimNever', 'always': 'SimAlways'}


def make_fitness(spec, multi):
    if spec['vals'] is None:          # failed evaluation: the null fitness of GOLEM (single-objective archives only)
        return null_fitness()
    if multi:
        w = spec.get('w')
        return MultiObjFitness(values=tuple(spec['vals']), weights=tuple(w) if w else 1.)
    return SingleObjFitness(*spec['vals'])


def make_individual(spec, multi, uid=None):
    kw = {} if uid is None else {'uid': uid}
    ind = Individual(OptGraph(OptNode('g%d' % spec['gclass'])), native_generation=spec['gen'], **kw)
    ind.set_evaluation_result(make_fitness(spec, multi))
    return ind


def make_target(t, subclass=False):
    if t[0] == 'hof':
        return HallOfFame(maxsize=t[1])
    if t[0] == 'pareto':
        return ParetoFront(maxsize=t[2] or None, similar=SIMILAR[t[1]])
    if t[0] == 'hofsim':
        return HallOfFame(maxsize=t[2], similar=SIMILAR[t[1]])
    if t[0] == 'keepersim':
        _, sim, k, nq, nc = t
        return GenerationKeeper(make_objective(nq, nc, True, subclass), keep_n_best=k, similarity_criteria=SIMILAR[sim])
    _, multi, k, nq, nc = t
    return GenerationKeeper(make_objective(nq, nc, multi, subclass), keep_n_best=k)


def identity(x):
    return x


# how a population reaches update() / append(): the abstract population is the same list of individuals
FEEDS = {'list': list, 'tuple': tuple, 'iter': iter, 'gen': lambda pop: (x for x in pop),
         'map': lambda pop: map(identity, pop), 'rev': lambda pop: reversed(pop[::-1])}
ONE_SHOT = ('iter', 'gen', 'map', 'rev')


def feed_kind(case, n):
    feed = case.get('feed') or []
    return feed[n] if n < len(feed) else 'list'


def run_impl(case):
    """drive the real archive / keeper; returns the list of observations (one per update; the
    sequence stops at the first exception)"""
    t = tuple(case['target'])
    multi = is_multi_target(t)
    obj = make_target(t, subclass=bool(case.get('subclass')))
    archive = obj.archive if is_keeper_target(t) else obj
    copies = {int(n): kind for n, kind in case.get('copies', [])}   # after update n: continue on a copy
    objs, canon = {}, {}
    fresh = set(tuple(x) for x in case.get('fresh_copies', []))   # (update no, position): new object, same uid
    obs = []
    for n, ipop in enumerate(case['pops']):
        pop = []
        for pos, i in enumerate(ipop):
            if i not in objs:
                objs[i] = make_individual(case['pool'][i], multi)
                canon[objs[i].uid] = case['pool'][i]['uid']
            if (n, pos) in fresh:
                pop.append(make_individual(case['pool'][i], multi, uid=objs[i].uid))
            else:
                pop.append(objs[i])
        raised = False
        pop = FEEDS[feed_kind(case, n)](pop)     # list (default) / tuple / single-pass iterable
        try:
            if is_keeper_target(t):
                obj.append(pop)
            else:
                obj.update(pop)
        except Exception:
            raised = True
        o = {'raised': raised,
             'uids': [canon[i.uid] for i in archive.items],
             'keys': [[float(v) for v in f.values] if f.valid else [] for f in archive.keys],
             'gen': 0, 'stag': 0, 'any': False, 'qual': False}
        if is_keeper_target(t):
            o.update(gen=int(obj.generation_num), stag=int(obj.stagnation_iter_count),
                     any=bool(obj.is_any_improved), qual=bool(obj.is_quality_improved))
        obs.append(o)
        if raised:
            break
        if n in copies:
            # the archive / keeper went through pickle or deepcopy (a checkpoint, a worker process):
            # the copy must go on exactly as the original would have
            obj = pickle.loads(pickle.dumps(obj)) if copies[n] == 'pickle' else copy.deepcopy(obj)
            archive = obj.archive if is_keeper_target(t) else obj
    return obs


# ----------------------------------------------------------------------------------------
# printing a case as a Coq term
# ----------------------------------------------------------------------------------------
def coq_target(t):
    if t[0] == 'hof':
        return '(THof %s)' % c_nat(t[1])
    if t[0] == 'pareto':
        return '(TPareto %s %s)' % (COQ_SIM[t[1]], c_nat(t[2]))
    if t[0] == 'hofsim':
        return '(THofSim %s %s)' % (COQ_SIM[t[1]], c_nat(t[2]))
    if t[0] == 'keepersim':
        return '(TKeeperSim %s %s %s %s)' % (COQ_SIM[t[1]], c_nat(t[2]), c_nat(t[3]), c_nat(t[4]))
    return '(TKeeper %s %s %s %s)' % (c_bool(t[1]), c_nat(t[2]), c_nat(t[3]), c_nat(t[4]))


def coq_indiv(spec, multi):
    vals = [c_Q(v) for v in (spec['vals'] or ())]
    if spec['vals'] is None:
        fit = '(Single None (@nil Q))'
    elif multi:
        w = spec.get('w') or [1.0] * len(vals)
        fit = '(Multi %s %s)' % (c_list(vals, 'Q'), c_list([c_Q(x) for x in w], 'Q'))
    else:
        fit = '(Single (Some %s) %s)' % (vals[0], c_list(vals[1:], 'Q'))
    return '{| uid := %s; fitness := %s; gclass := %s; ngen := %s |}' % (
        c_nat(spec['uid']), fit, c_nat(spec['gclass']), c_opt(spec['gen'], c_nat, 'nat'))


def coq_obs(o):
    return ('{| o_raised := %s; o_uids := %s; o_keys := %s; o_gen := %s; o_stag := %s; o_any := %s; o_qual := %s |}'
            % (c_bool(o['raised']), c_list([c_nat(u) for u in o['uids']], 'nat'),
               c_list([c_list([c_Q(v) for v in k], 'Q') for k in o['keys']], '(list Q)'),
               c_nat(o['gen']), c_nat(o['stag']), c_bool(o['any']), c_bool(o['qual'])))


def coq_case(case, obs):
    t = tuple(case['target'])
    multi = is_multi_target(t)
    npops = len(obs)  # truncated at the first exception
    return '(%s, %s, %s, %s)' % (
        coq_target(t), c_list([coq_indiv(s, multi) for s in case['pool']], 'indiv'),
        c_list([c_list([c_nat(i) for i in p], 'nat') for p in case['pops'][:npops]], '(list nat)'),
        c_list([coq_obs(o) for o in obs], 'ostep'))


# ----------------------------------------------------------------------------------------
# generators
# ----------------------------------------------------------------------------------------
def enum_sequences(U, P, N, kinds):
    """all sequences of exactly U populations (prefixes are checked inside a case) of <= P
    tokens; a token is an individual shown before (also earlier in the same population) or a
    new one of one of `kinds`; at most N distinct individuals.  Individuals are numbered in
    order of first appearance (canonical up to renaming).  Yields (kinds of pool, pops)."""
    def pops(pool, size, prefix):
        yield list(prefix), list(pool)
        if size == P:
            return
        for i in range(len(pool)):
            yield from pops(pool, size + 1, prefix + [i])
        if len(pool) < N:
            for kd in range(kinds):
                yield from pops(pool + [kd], size + 1, prefix + [len(pool)])

    def rec(u, pool, acc):
        if u == U:
            yield list(pool), [list(p) for p in acc]
            return
        for p, pool2 in pops(pool, 0, []):
            yield from rec(u + 1, pool2, acc + [p])
    yield from rec(0, [], [])


def configs(ctx):
    """target configurations of the exhaustive groups, each with its token kinds"""
    out = []
    s = ctx.seed
    for k in (1, 2, 3, 4):
        for nobj in (1, 2, 3):
            alpha = LEX[nobj][(s + k) % len(LEX[nobj])]
            kinds = [dict(vals=v, gclass=0, gen=0) for v in alpha]
            if nobj == 1:
                kinds.append(dict(vals=None, gclass=0, gen=0))     # a failed evaluation (invalid fitness)
            out.append((('hof', k), kinds))
    for sim in ('uid', 'same'):
        for cap in ((0, 2) if (sim == 'same' and ctx.tier == 'quick') else (0, 1, 2, 3)):
            # quick: one objective count per capacity (alternating), thorough: both
            for nobj in ctx.pick((2 + (cap + (sim == 'same')) % 2,), (2, 3)):
                alpha = PAR[nobj][(s + cap) % len(PAR[nobj])]
                if sim == 'same':
                    # twins: same vector, same generation, same graph class but another uid
                    kinds = [dict(vals=alpha[0], gclass=0, gen=0), dict(vals=alpha[1], gclass=0, gen=0),
                             dict(vals=alpha[2], gclass=0, gen=0), dict(vals=alpha[0], gclass=1, gen=0)]
                else:
                    kinds = [dict(vals=v, gclass=0, gen=0) for v in alpha]
                out.append((('pareto', sim, cap), kinds))
    # user-supplied similarity functions: the same structure (graph class) seen under different,
    # mutually non-dominated vectors, and one vector seen with two structures
    noisy = [dict(vals=(2.0, 9.0), gclass=1, gen=0), dict(vals=(3.0, 4.0), gclass=0, gen=0),
             dict(vals=(2.0, 5.0), gclass=0, gen=0), dict(vals=(3.0, 4.0), gclass=1, gen=0)]
    for sim, cap in ctx.pick([('graph', 0), ('graph', 2), ('never', 0)],
                             [('graph', 0), ('graph', 2), ('never', 0), ('never', 2), ('always', 0), ('always', 2)]):
        out.append((('pareto', sim, cap), noisy))
    out.append((('keepersim', 'graph', 1, 1, 1), noisy[:3]))
    lex_noisy = [dict(vals=(1.0,), gclass=0, gen=0), dict(vals=(0.5,), gclass=0, gen=0), dict(vals=(0.5,), gclass=1, gen=0)]
    out.append((('hofsim', 'graph', 2), lex_noisy))      # compared with the model only (see Keeper.in_scope)
    if ctx.tier != 'quick':
        out.append((('hofsim', 'uid', 2), lex_noisy))
    # other magnitudes (1e6, 1e9, 1e-9): the keeper's improvement test and the containers' comparisons
    # must not depend on the scale of the metric
    kind = lambda *v: dict(vals=tuple(v), gclass=0, gen=0)
    out.append((('keeper', False, 1, 1, 0), [kind(MEGA[0]), kind(MEGA[1]), kind(MEGA[3])]))
    out.append((('keeper', False, 1, 1, 0), [kind(TINY[1]), kind(TINY[3]), kind(TINY[2])]))
    out.append((('keeper', False, 2, 1, 1), [kind(GIGA[0], TINY[0]), kind(GIGA[1], TINY[0]), kind(GIGA[1], TINY[2])]))
    if ctx.tier != 'quick':
        out.append((('keeper', True, 1, 1, 1), [kind(MEGA[1], TINY[2]), kind(MEGA[0], TINY[3]), kind(MEGA[0], TINY[2])]))
        out.append((('hof', 2), [kind(GIGA[2]), kind(GIGA[1]), kind(0.5)]))
        out.append((('keeper', False, 2, 1, 0), [kind(GIGA[0]), kind(GIGA[1]), kind(GIGA[3])]))
        out.append((('keeper', False, 1, 2, 1), [kind(1.0, MEGA[0], TINY[1]), kind(1.0, MEGA[1], TINY[1]), kind(1.0, MEGA[1], TINY[2])]))
        out.append((('pareto', 'same', 2), [kind(MEGA[0], TINY[3]), kind(MEGA[1], TINY[2]), kind(MEGA[1], TINY[3]), dict(vals=(MEGA[0], TINY[3]), gclass=1, gen=0)]))
        out.append((('keepersim', 'graph', 1, 1, 1), [kind(GIGA[1], 1.0), kind(GIGA[0], 0.5), kind(GIGA[1], 0.5)]))
    for k in (1, 2):
        for nq, nc in ((1, 0), (1, 1), (2, 1)):
            alpha = LEX[nq + nc][(s + k) % len(LEX[nq + nc])]
            out.append((('keeper', False, k, nq, nc), [dict(vals=v, gclass=0, gen=0) for v in alpha]))
            if nq + nc >= 2:
                alpha = PAR[nq + nc][(s + k) % len(PAR[nq + nc])]
                out.append((('keeper', True, k, nq, nc), [dict(vals=v, gclass=0, gen=0) for v in alpha]))
    return out


def exhaustive_cases(ctx, scope, cfgs):
    U, P, N = scope
    n_case = 0
    for target, kinds in cfgs:
        for pool_kinds, pops in enum_sequences(U, P, N, len(kinds)):
            pool = [dict(kinds[kd], uid=i + 1) for i, kd in enumerate(pool_kinds)]
            case = {'target': list(target), 'pool': pool, 'pops': pops}
            # half of the sequences continue on a pickled / deep-copied archive after the first (and, for
            # the longer ones, the second) update; keepers with a complexity metric are built from an
            # Objective subclass that supplies its last criterion for every other sequence
            n_case += 1
            if n_case % 4 == 1:
                case['copies'] = [[0, 'pickle']] + ([[1, 'deepcopy']] if len(pops) > 2 else [])
            elif n_case % 4 == 2:
                case['copies'] = [[0, 'deepcopy']] + ([[1, 'pickle']] if len(pops) > 2 else [])
            if target[0] in ('keeper', 'keepersim') and target[-1] >= 1 and n_case % 2 == 0:
                case['subclass'] = True
            yield case


def random_case(ctx):
    r = ctx.rng
    style = r.choice(['hof', 'hof', 'pareto', 'pareto', 'keeper', 'keeper', 'antichain'])
    nobj = r.choice([1, 2, 3])
    npool = r.randint(2, 9)
    grid = r.sample(GRID, r.randint(2, 4))
    if r.random() < 0.25:
        grid = r.sample(MAGNITUDES[r.choice(sorted(MAGNITUDES))], r.randint(2, 4))     # another scale
    pool = []
    if style == 'antichain':
        # many mutually non-dominated vectors: the capacity of the front is reached
        npool = r.randint(5, 14)
        nobj = 2
        target = r.choice([('pareto', r.choice(['uid', 'same', 'graph', 'never']), r.choice([1, 2, 3, 4, 5])),
                           ('keeper', True, 1, 1, 1), ('keeper', True, 2, 1, 1)])
        for i in range(npool):
            a = float(r.randint(0, 7))
            pool.append(dict(uid=i + 1, vals=(a, 7.0 - a + r.choice([0.0, 0.0, 0.5])), gclass=r.choice([0, 0, 1]),
                             gen=r.choice([0, 0, 1, None])))
    else:
        if style == 'hof':
            target = ('hof', r.randint(1, 4))
        elif style == 'pareto':
            target = ('pareto', r.choice(['uid', 'same', 'graph', 'never', 'always']), r.choice([0, 0, 1, 2, 3, 4, 6]))
        else:
            nq = r.randint(1, nobj)
            multi = r.random() < 0.5
            target = ('keeper', multi, r.randint(1, 3), nq, nobj - nq)
            if multi and r.random() < 0.4:
                target = ('keepersim', r.choice(['graph', 'uid', 'never', 'always']), r.randint(1, 2), nq, nobj - nq)
        for i in range(npool):
            pool.append(dict(uid=i + 1, vals=tuple(r.choice(grid) for _ in range(nobj)), gclass=r.choice([0, 0, 1]),
                             gen=r.choice([0, 0, 1, None])))
            if style == 'hof' and r.random() < 0.2:
                pool[-1]['vals'] = None                            # failed evaluation
    if is_multi_target(target) and r.random() < 0.3 and target[0] == 'pareto':
        w = tuple(r.choice([1.0, -1.0, 0.5]) for _ in range(nobj))
        for p in pool:
            p['w'] = w
    nupd = r.randint(1, 30)
    pops, fresh = [], []
    for n in range(nupd):
        size = r.choice([0, 1, 1, 2, 2, 3, 4, 5])
        pop = [r.randrange(npool) for _ in range(size)]
        pops.append(pop)
        for pos in range(size):
            if r.random() < 0.1:
                fresh.append([n, pos])
    case = {'target': list(target), 'pool': pool, 'pops': pops, 'fresh_copies': fresh}
    if r.random() < 0.5:
        case['copies'] = [[n, r.choice(['pickle', 'deepcopy'])] for n in range(nupd) if r.random() < 0.15]
    if target[0] in ('keeper', 'keepersim') and target[-1] >= 1 and r.random() < 0.5:
        case['subclass'] = True
    return case


def front_targets(nobj, i):
    """a direct front and a keeper (front of capacity 5 / 10) for the structured front cases"""
    direct = [('pareto', 'uid', 0), ('pareto', 'same', 0), ('pareto', 'graph', 0), ('pareto', 'uid', 5),
              ('pareto', 'same', 6), ('pareto', 'always', 0), ('pareto', 'never', 0)][i % 7]
    nq = 1 + i % (nobj - 1)
    keeper = ('keeper', True, 1 + i % 2, nq, nobj - nq)
    return [direct, keeper]


def wide_front_cases(ctx, n_three, n_four):
    """3- and 4-objective fronts of 3..5 mutually non-dominated members (distinct permutations of
    0..n-1: equal sums, so none dominates another), then newcomers that dominate a chosen subset of
    them - the componentwise minimum of 2 or 3 members, which in general are NOT neighbours in the
    lexicographically sorted archive and have non-dominated members between them - then a second
    such newcomer together with a repeat of a removed member."""
    r = ctx.rng
    out = []
    for nobj, budget in ((3, n_three), (4, n_four)):
        perms = [tuple(float(x) for x in p) for p in itertools.permutations(range(nobj))]
        subsets = [c for size in (3, 4, 5) for c in itertools.combinations(perms, size)]
        if nobj == 4:
            subsets = r.sample(subsets, min(len(subsets), 60))
        cases = []
        for si, members in enumerate(subsets):
            groups = list(itertools.combinations(range(len(members)), 2)) + list(itertools.combinations(range(len(members)), 3))
            if nobj == 4:
                groups = r.sample(groups, 4)
            for gi, grp in enumerate(groups):
                new1 = tuple(min(members[j][d] for j in grp) for d in range(nobj))
                other = r.choice(groups)
                new2 = tuple(min(members[j][d] for j in other) - r.choice([0.0, 0.5]) for d in range(nobj))
                order = list(range(len(members)))
                r.shuffle(order)
                pool = [dict(uid=i + 1, vals=members[i], gclass=0, gen=0) for i in range(len(members))]
                pool.append(dict(uid=len(pool) + 1, vals=new1, gclass=0, gen=1))
                pool.append(dict(uid=len(pool) + 1, vals=new2, gclass=r.choice([0, 1]), gen=1))
                n1, n2 = len(members), len(members) + 1
                cut = r.randint(1, len(order))
                pops = [p for p in (order[:cut], order[cut:]) if p] + [[n1], [n2, grp[0]]]
                for t in front_targets(nobj, si + gi):
                    cases.append({'target': list(t), 'pool': pool, 'pops': pops})
        if len(cases) > budget:
            # keep a deterministic spread, always including every subset size
            cases = [cases[i] for i in sorted(r.sample(range(len(cases)), budget))]
        out.extend(cases)
    return out


def random_wide_case(ctx):
    """random 3/4-objective sequences over a pool of permutation vectors, componentwise minima of
    random subsets of them (dominating those subsets) and shifted copies"""
    r = ctx.rng
    nobj = r.choice([3, 3, 4])
    perms = [tuple(float(x) for x in p) for p in itertools.permutations(range(nobj))]
    base = r.sample(perms, r.randint(3, 6))
    vecs = list(base)
    for _ in range(r.randint(2, 5)):
        grp = r.sample(base, r.randint(2, 3))
        vecs.append(tuple(min(v[d] for v in grp) - r.choice([0.0, 0.0, 0.5]) for d in range(nobj)))
    for _ in range(r.randint(0, 2)):
        vecs.append(tuple(x + r.choice([0.0, 0.5, 1.0]) for x in r.choice(base)))
    pool = [dict(uid=i + 1, vals=v, gclass=r.choice([0, 0, 1]), gen=r.choice([0, 1])) for i, v in enumerate(vecs)]
    nq = r.randint(1, nobj - 1)
    target = r.choice([('pareto', r.choice(['uid', 'same', 'graph', 'never', 'always']), r.choice([0, 0, 4, 6, 8])),
                       ('keeper', True, r.randint(1, 2), nq, nobj - nq)])
    # mostly: members first, dominating newcomers later; sometimes any order
    idx = list(range(len(pool)))
    if r.random() < 0.3:
        r.shuffle(idx)
    pops, i = [], 0
    while i < len(idx):
        n = r.randint(1, 3)
        pops.append(idx[i:i + n])
        i += n
    for _ in range(r.randint(0, 4)):
        pops.append([r.randrange(len(pool)) for _ in range(r.randint(0, 2))])
    return {'target': list(target), 'pool': pool, 'pops': pops}


def invalid_cases():
    """populations that contain individuals whose evaluation failed (invalid fitness), at every
    position incl. the first, shown to an empty and to a non-empty hall of fame, k = 1..4"""
    out = []
    for nobj, vs in ((1, [(0.5,), (0.1,), (0.9,)]), (2, [(1.0, 0.5), (1.0, 0.0), (0.0, 2.0)])):
        pool = [dict(uid=1, vals=None, gclass=0, gen=0)] + [dict(uid=i + 2, vals=v, gclass=0, gen=0) for i, v in enumerate(vs)]
        pool.append(dict(uid=5, vals=None, gclass=0, gen=1))
        for k in (1, 2, 3, 4):
            for order in itertools.permutations(range(4)):
                out.append({'target': ['hof', k], 'pool': pool, 'pops': [list(order), [4, order[1]], [order[0]]]})
            for first in ([0], [0, 4], [2], []):
                out.append({'target': ['hof', k], 'pool': pool, 'pops': [first, [4, 1], [0, 2, 3], [4]]})
    return out


def magnitude_cases(ctx):
    """keepers (and halls / fronts) fed one individual per update whose metric improves by the smallest
    separated step at each magnitude, interleaved with updates that do not improve, repeats and empty
    populations: every improving update must reset the stagnation counter, whatever the scale"""
    r = ctx.rng
    out = []
    for name, vs in sorted(MAGNITUDES.items()):
        desc = sorted(vs, reverse=True)                      # strictly improving (minimisation)
        pool1 = [dict(uid=i + 1, vals=(v,), gclass=0, gen=0) for i, v in enumerate(desc)]
        chain = [[i] for i in range(len(desc))]
        for k in (1, 2, 3):
            out.append({'target': ['keeper', False, k, 1, 0], 'pool': pool1, 'pops': chain})
            out.append({'target': ['keeper', False, k, 1, 0], 'pool': pool1,
                        'pops': [[0], [], [1], [0], [2, 1]] + [[i] for i in range(3, len(desc))] + [[]]})
            out.append({'target': ['keeper', False, k, 1, 0], 'pool': pool1, 'pops': [[i] for i in reversed(range(len(desc)))]})
            out.append({'target': ['hof', k], 'pool': pool1, 'pops': chain})
        # two metrics: the first constant, the second improving at this magnitude, and the reverse
        pool2 = [dict(uid=i + 1, vals=(1.0, v), gclass=0, gen=0) for i, v in enumerate(desc)]
        pool3 = [dict(uid=i + 1, vals=(v, float(i)), gclass=0, gen=0) for i, v in enumerate(desc)]
        for k in (1, 2):
            out.append({'target': ['keeper', False, k, 1, 1], 'pool': pool2, 'pops': chain})
            out.append({'target': ['keeper', True, k, 1, 1], 'pool': pool2, 'pops': chain})
            out.append({'target': ['keeper', True, k, 1, 1], 'pool': pool3, 'pops': chain})     # an anti-chain: the front grows
            out.append({'target': ['keepersim', 'graph', k, 1, 1], 'pool': pool2, 'pops': chain})
        out.append({'target': ['pareto', 'uid', 2], 'pool': pool3, 'pops': chain})
        # random walks over the magnitude
        for _ in range(ctx.pick(6, 30)):
            n = len(desc)
            pops = [[r.randrange(n) for _ in range(r.choice([0, 1, 1, 1, 2]))] for _ in range(r.randint(3, 8))]
            t = r.choice([('keeper', False, r.randint(1, 3), 1, 0), ('keeper', False, 1, 1, 1), ('keeper', True, 1, 1, 1)])
            pool = pool1 if t[3] + t[4] == 1 else (pool2 if r.random() < 0.5 else pool3)
            out.append({'target': list(t), 'pool': pool, 'pops': pops})
    # single-metric keeper cases need single-valued pools
    fixed = []
    for c in out:
        t = c['target']
        nvals = len(c['pool'][0]['vals'])
        if t[0] in ('keeper', 'keepersim') and t[-2] + t[-1] != nvals:
            continue
        fixed.append(c)
    return fixed


def copy_and_subclass_cases():
    """(a) archives holding >= 2 members with different fitness are pickled / deep-copied and then shown
    individuals that must be inserted in the middle, at the ends, or evict the worst; (b) keepers driven by
    an Objective subclass whose extra criterion is the only one that improves"""
    out = []
    vs = [5.0, 6.0, 5.5, 4.0, 7.0, 5.25]
    pool = [dict(uid=i + 1, vals=(v,), gclass=0, gen=0) for i, v in enumerate(vs)]
    pool2 = [dict(uid=i + 1, vals=(v, 10.0 - v), gclass=0, gen=0) for i, v in enumerate(vs)]
    for kind in ('pickle', 'deepcopy'):
        for k in (2, 3, 4):
            for nxt in ([2], [3], [4], [5, 3], [2, 4, 3]):
                out.append({'target': ['hof', k], 'pool': pool, 'pops': [[0, 1], nxt, [5]], 'copies': [[0, kind]]})
                out.append({'target': ['keeper', False, k, 1, 0], 'pool': pool, 'pops': [[0], [1], nxt, [3]], 'copies': [[1, kind], [2, kind]]})
                out.append({'target': ['hofsim', 'uid', k], 'pool': pool, 'pops': [[0, 1], nxt], 'copies': [[0, kind]]})
            for nxt in ([2], [3, 4], [5, 2]):
                out.append({'target': ['pareto', 'uid', k], 'pool': pool2, 'pops': [[0, 1], nxt, [4]], 'copies': [[0, kind]]})
                out.append({'target': ['pareto', 'graph', 0], 'pool': pool2, 'pops': [[0, 1], nxt], 'copies': [[0, kind]]})
                out.append({'target': ['keeper', True, 1, 1, 1], 'pool': pool2, 'pops': [[0, 1], nxt, [4]], 'copies': [[0, kind], [1, kind]], 'subclass': True})
                out.append({'target': ['keepersim', 'graph', 1, 1, 1], 'pool': pool2, 'pops': [[0, 1], nxt], 'copies': [[0, kind]]})
    # the extra criterion of the subclass is the only one that improves / worsens
    p3 = [dict(uid=i + 1, vals=v, gclass=0, gen=0) for i, v in enumerate([(1.0, 1.0, 5.0), (1.0, 1.0, 4.0), (1.0, 1.0, 2.0), (1.0, 1.0, 6.0), (0.5, 1.0, 2.0)])]
    p2 = [dict(uid=i + 1, vals=v, gclass=0, gen=0) for i, v in enumerate([(1.0, 5.0), (1.0, 4.0), (1.0, 2.0), (1.0, 6.0), (0.5, 2.0)])]
    for multi in (False, True):
        for k in (1, 2):
            for pops in ([[0], [1], [2], [3], [4]], [[0], [3], [1], [], [2]], [[2], [1], [0]], [[0, 1], [2], [2]]):
                out.append({'target': ['keeper', multi, k, 1, 2], 'pool': p3, 'pops': pops, 'subclass': True})
                out.append({'target': ['keeper', multi, k, 2, 1], 'pool': p3, 'pops': pops, 'subclass': True})
                out.append({'target': ['keeper', multi, k, 1, 1], 'pool': p2, 'pops': pops, 'subclass': True})
                out.append({'target': ['keeper', multi, k, 1, 1], 'pool': p2, 'pops': pops})
    return out


def container_cases(ctx):
    """the population arrives as a tuple or (fronts and multi-objective keepers, whose update scans the
    population exactly once) as a single-pass iterable: generator, iter(list), map object, reversed(...).
    The abstract population - what the model is given - is the list of its elements.  Halls of fame index
    the population (population[0], truthiness) and get lists and tuples only."""
    r = ctx.rng
    out = []
    v2 = [(1.0, 5.0), (2.0, 4.0), (3.0, 3.0), (4.0, 2.0), (5.0, 1.0), (4.0, 4.0), (2.0, 2.0), (3.0, 3.0)]
    v3 = [(0.0, 1.0, 2.0), (1.0, 2.0, 0.0), (2.0, 0.0, 1.0), (2.0, 1.0, 0.0), (2.0, 2.0, 1.0), (0.0, 1.0, 1.0), (1.0, 0.0, 2.0)]
    pool2 = [dict(uid=i + 1, vals=v, gclass=i % 2, gen=0) for i, v in enumerate(v2)]
    pool3 = [dict(uid=i + 1, vals=v, gclass=0, gen=0) for i, v in enumerate(v3)]
    seqs2 = [[[0, 1, 2, 3, 4, 5]], [[0, 1, 2], [3, 4, 5]], [[5, 0], [1, 4, 6]], [[0, 4], [], [5, 2, 7], [6, 1]], [[2, 7], [1, 3]]]
    seqs3 = [[[0, 1, 2, 3, 4]], [[4, 0], [1, 2, 5]], [[0, 1], [6, 3, 2], [5]]]
    multi2 = [('pareto', 'uid', 0), ('pareto', 'same', 0), ('pareto', 'graph', 0), ('pareto', 'uid', 3), ('pareto', 'never', 0),
              ('keeper', True, 1, 1, 1), ('keeper', True, 2, 1, 1), ('keepersim', 'graph', 1, 1, 1)]
    multi3 = [('pareto', 'uid', 0), ('pareto', 'same', 4), ('keeper', True, 1, 1, 2), ('keeper', True, 1, 2, 1)]
    for targets, pool, seqs in ((multi2, pool2, seqs2), (multi3, pool3, seqs3)):
        for t in targets:
            for pops in seqs:
                for kind in ('tuple',) + ONE_SHOT:
                    out.append({'target': list(t), 'pool': pool, 'pops': pops, 'feed': [kind] * len(pops)})
                out.append({'target': list(t), 'pool': pool, 'pops': pops, 'feed': [r.choice(ONE_SHOT) for _ in pops]})
    # halls of fame and single-objective keepers: tuples
    pool1 = [dict(uid=i + 1, vals=(v,), gclass=0, gen=0) for i, v in enumerate([2.0, 1.0, 3.0, 0.5, 1.0, 2.5])]
    for k in (1, 2, 3):
        for pops in ([[0, 1, 2, 3]], [[2, 0], [1, 4, 3]], [[0], [], [5, 1], [3, 3]]):
            out.append({'target': ['hof', k], 'pool': pool1, 'pops': pops, 'feed': ['tuple'] * len(pops)})
            out.append({'target': ['keeper', False, k, 1, 0], 'pool': pool1, 'pops': pops, 'feed': ['tuple'] * len(pops)})
    # random sequences with a random container per update
    for _ in range(ctx.budget(100, 1500)):
        c = random_case(ctx)
        if r.random() < 0.5:
            c = random_wide_case(ctx)
        kinds = ('list', 'tuple') + ONE_SHOT if is_multi_target(tuple(c['target'])) else ('list', 'tuple')
        c['feed'] = [r.choice(kinds) for _ in c['pops']]
        out.append(c)
    return out


def zero_size_cases():
    """maxsize = 0 / None: update of an empty hall of fame with a non-empty population raises
    (outside the property's k >= 1; compared with the model only)"""
    pool = [dict(uid=1, vals=(1.0,), gclass=0, gen=0), dict(uid=2, vals=(0.0,), gclass=0, gen=0)]
    for pops in ([[]], [[], [0]], [[0, 1]], [[], [], [1]]):
        yield {'target': ['hof', 0], 'pool': pool, 'pops': pops}
    yield {'target': ['keeper', False, 0, 1, 0], 'pool': pool, 'pops': [[], [0]]}


# ----------------------------------------------------------------------------------------
# classification of a case for the evidence
# ----------------------------------------------------------------------------------------
def lex_better(a, b):
    return tuple(a) < tuple(b)


def facts(case, obs):
    t = tuple(case['target'])
    shown, repeats, ties, empties, new_best_unflagged = set(), False, False, 0, 0
    vals_seen = []
    prev_best = None
    hit_capacity = False
    cap = {'hof': lambda: t[1], 'hofsim': lambda: t[2], 'pareto': lambda: t[2], 'keepersim': lambda: t[2] * 5,
           'keeper': lambda: t[2] * 5 if t[1] else t[2]}[t[0]]()
    for p, o in zip(case['pops'], obs):
        empties += (len(p) == 0)
        for i in p:
            v = tuple(case['pool'][i]['vals'] or ())
            if i in shown:
                repeats = True
            elif v in vals_seen:
                ties = True
            shown.add(i)
            vals_seen.append(v)
        if cap and len(shown) > cap:
            hit_capacity = True
        best = tuple(o['keys'][-1]) if o['keys'] else None
        if is_keeper_target(t) and prev_best is not None and best is not None and lex_better(best, prev_best) and not o['any']:
            new_best_unflagged += 1
        prev_best = best
    return dict(shown=len(shown), repeats=repeats, ties=ties, empties=empties, more_than_capacity=hit_capacity,
                new_best_unflagged=new_best_unflagged)


def case_key(case):
    return (tuple(case['target']), tuple((p['uid'], None if p['vals'] is None else tuple(p['vals']), p['gclass'], p['gen'], tuple(p.get('w') or ()))
                                         for p in case['pool']),
            tuple(tuple(p) for p in case['pops']), tuple(tuple(x) for x in case.get('fresh_copies', [])),
            tuple(tuple(x) for x in case.get('copies', [])), bool(case.get('subclass')), tuple(case.get('feed') or ()))


# ----------------------------------------------------------------------------------------
# evaluation of a batch of cases
# ----------------------------------------------------------------------------------------
def observe(cases, canary=False):
    """runs the implementation on every case; returns (terms, metas, number of planted canaries)"""
    terms, metas = [], []
    for case in cases:
        obs = run_impl(case)
        terms.append(coq_case(case, obs))
        metas.append((case, obs))
    planted = 0
    if canary:
        # a deliberately wrong observation: the hall of fame "kept" the worse individual
        c = {'target': ['hof', 1], 'pool': [dict(uid=1, vals=(1.0,), gclass=0, gen=0), dict(uid=2, vals=(0.0,), gclass=0, gen=0)],
             'pops': [[0], [1]]}
        o = run_impl(c)
        o[1]['uids'] = [1]
        o[1]['keys'] = [[1.0]]
        terms.append(coq_case(c, o))
        # ... and a keeper whose stagnation counter is off by one
        c2 = {'target': ['keeper', False, 1, 1, 0], 'pool': c['pool'], 'pops': [[1], [0], []]}
        o2 = run_impl(c2)
        o2[2]['stag'] += 1
        terms.append(coq_case(c2, o2))
        planted = 2
    return terms, metas, planted


def coq_eval(ctx, group, fn, terms, k, shard):
    """ctx.coq_cases with one retry on smaller shards: a coqc killed by the kernel under memory
    pressure is not a disagreement"""
    import time
    try:
        return ctx.coq_cases(group, REQ, fn, terms, k, shard=shard, case_ty=CASE_TY)
    except Exception as ex:
        if 'coqc failed' not in str(ex) or 'Error' in str(ex):
            raise
        ctx.notes.append('coqc was killed / timed out on a shard of group %s; evaluated again in smaller shards' % group)
        time.sleep(5)
        return ctx.coq_cases(group, REQ, fn, terms, k, shard=max(100, shard // 4), case_ty=CASE_TY)


def evaluate(ctx, group, cases, canary=False):
    """observe + judge"""
    return judge(ctx, group, *observe(cases, canary))


def judge(ctx, group, terms, metas, planted=0):
    """evaluates [agree; holds_b] in Coq, registers counts / disagreements / violations.
    Returns the list of (case, obs, agree, holds)."""
    n_real = len(metas)
    ctx.canaries += planted
    groups = group if isinstance(group, list) else [group] * n_real
    group = groups[0] if groups else 'none'
    # ~300 MB per coqc at 400 three-update cases; 16 run in parallel
    shard = min(400, max(200, -(-len(terms) // 16)))
    res = coq_eval(ctx, group if len(set(groups)) <= 1 else 'structured and random groups', FN, terms, 2, shard)
    for ag, ho in res[n_real:]:
        if (ag, ho) == (False, False):
            ctx.canaries_caught += 1
    # name the failing clause group of the (first few) violating cases
    bad = [i for i, (ag, ho) in enumerate(res[:n_real]) if not ho][:25]
    why = {}
    if bad:
        try:
            diag = coq_eval(ctx, group + ' diagnosis', 'diagnose_case', [terms[i] for i in bad], 3, 400)
            names = ('archive contents (k best distinct / best-first / size bound / keys mirror items / Pareto exactness / '
                     'mutual non-domination)', 'best archived fitness got worse', 'keeper counters / improvement flags')
            for i, d in zip(bad, diag):
                why[i] = '; '.join(n for n, ok in zip(names, d) if not ok)
        except Exception:
            pass
    out = []
    for idx, ((case, obs), (ag, ho)) in enumerate(zip(metas, res[:n_real])):
        group = groups[idx]
        f = facts(case, obs)
        t = case['target']
        nupd = len(obs)
        nontrivial = f['shown'] >= 2 and (f['ties'] or f['repeats'] or f['more_than_capacity'] or f['shown'] >= 3)
        # one evaluation = one update compared (observations after every update are compared)
        for _ in range(max(nupd - 1, 0)):
            ctx.count(group)
        ctx.count(group, key=case_key(case), nontrivial=nontrivial, target=t[0], updates=min(nupd, 10) if nupd < 10 else '10+',
                  distinct_individuals=min(f['shown'], 6), ties=f['ties'], repeats=f['repeats'],
                  empty_populations=min(f['empties'], 3), more_individuals_than_capacity=f['more_than_capacity'],
                  new_best_but_not_flagged_improved=min(f['new_best_unflagged'], 3),
                  population_container=('single-pass iterable' if any(k in ONE_SHOT for k in case.get('feed') or [])
                                        else 'tuple' if 'tuple' in (case.get('feed') or []) else 'list'))
        if not ho:
            ctx.violate(group, {'case': case, 'observed': obs},
                        'observed after an update, contradicting C08: ' + (why.get(idx) or
                        'k best / best-first / size bound / Pareto exactness / non-domination / best never worse / counters'))
        if not ag:
            ctx.disagree(group, {'case': case, 'observed': obs}, 'model prediction and implementation differ')
        out.append((case, obs, ag, ho))
    return out


def shrink(ctx, case):
    """greedy delta-debugging of a violating case: drop populations / individuals while the
    implementation's behaviour still contradicts the property"""
    cur = case
    for _ in range(12):
        cands = []
        for i in range(len(cur['pops'])):
            feed = [feed_kind(cur, n) for n in range(len(cur['pops']))]
            cands.append(dict(cur, pops=cur['pops'][:i] + cur['pops'][i + 1:], fresh_copies=[], feed=feed[:i] + feed[i + 1:]))
            for j in range(len(cur['pops'][i])):
                p = cur['pops'][i][:j] + cur['pops'][i][j + 1:]
                cands.append(dict(cur, pops=cur['pops'][:i] + [p] + cur['pops'][i + 1:], fresh_copies=[]))
        # keep a valid individual in the case when there is one (a case that only shows failed
        # evaluations is a less telling failing input)
        def shows_valid(c):
            return any(c['pool'][i]['vals'] is not None for p in c['pops'] for i in p)
        if shows_valid(cur):
            cands = [c for c in cands if shows_valid(c)]
        if not cands:
            break
        terms = [coq_case(c, run_impl(c)) for c in cands]
        res = ctx.coq_cases('shrink', REQ, FN, terms, 2, case_ty=CASE_TY)
        nxt = next((c for c, (ag, ho) in zip(cands, res) if not ho), None)
        if nxt is None:
            break
        cur = nxt
    return cur


def run(ctx):
    ctx.rule = ('a case is a whole update sequence on a real HallOfFame / ParetoFront / GenerationKeeper; exhaustive: every '
                'sequence (up to renaming of individuals) of U updates with populations of <= P individuals, <= N distinct '
                'individuals over a 3-letter dyadic fitness alphabet (repeats, ties, empty populations; the observations after '
                'every prefix are compared), for 12 hall-of-fame, 9 (thorough 22) Pareto-front and 11 keeper configurations '
                '(k 1..4, capacity 0..3, 1..3 objectives; similarity = uid equality, _individuals_same, and the user functions same-structure / '
                'never / always over an alphabet in which one structure has different non-dominated vectors and one vector two structures), '
                '2 hall-of-fame configurations with a user similarity (compared with the model only); quick: U2 P2; thorough: U2 P2, U3 P2 N3 (not for '
                'the 4-kind _individuals_same fronts), U2 P3 N3 (hall of fame), U4 P1 N4; random: sequences of <= 30 updates over pools of <= 14 '
                'individuals incl. anti-chains that fill the front; wide fronts: 3- and 4-objective fronts of 3..5 mutually non-dominated '
                'permutation vectors, then newcomers (componentwise minima of 2-3 members) dominating non-adjacent members; magnitudes: alphabets around 1e6 (1..7 units apart), 1e9 (>= 32 units apart), 2^-27..2^-31 and mixed in 3 (thorough 9) '
                'exhaustive configurations, strictly improving / interleaved / worsening one-individual chains per magnitude for keepers, halls and fronts, '
                '25 % of the random pools at another scale; copies: half of the exhaustive and random sequences continue on a pickle.loads(pickle.dumps(.)) / '
                'copy.deepcopy(.) of the archive or keeper after an update, plus structured cases (archives with >= 2 different members copied, then inserts in the '
                'middle / evictions); subclass: every other keeper sequence with a complexity metric uses an Objective subclass that overrides `metrics` to supply '
                'its last criterion, plus chains in which only that criterion improves; invalid fitness: the 3-letter alphabet of the 1-objective hall-of-fame configurations has a 4th letter '
                '(null fitness), all 24 orders of {invalid, a, b, c} shown to an empty hall of fame, k 1..4, and 20 % invalid individuals in the random '
                'hall-of-fame pools; containers: structured and random sequences whose populations are passed as tuple (all targets) or generator / iter / map / reversed '
                '(fronts and multi-objective keepers), the model given the list of their elements; evaluations = updates compared; distinct = distinct sequence; '
                'non-trivial = >= 2 individuals shown and a tie, a repeat, more individuals than the capacity or >= 3 individuals')
    ctx.trusted_extra = [
        'fitness values of the correspondence are dyadic and pairwise identical or far apart, so binary64 comparisons and '
        'numpy.allclose take the same branches as the exact model',
        'graph equality is modelled as equality of a class identifier (it is the subject of C13); native generation as an optional number',
        'python list.insert / del / bisect.bisect_right semantics are modelled (insert_at, del_at, bisect_loop), not verified',
        'a fitness comparison that raises (mixed classes / lengths) is outside the model; maxsize=0 raising IndexError is modelled']
    cfgs = configs(ctx)
    # ---- exhaustive small scope
    # (U updates, P individuals per population, N distinct individuals, which configurations)
    every = lambda t: True
    three_kinds = lambda t: not (t[0] == 'pareto' and t[1] != 'uid')
    hof_only = lambda t: t[0] == 'hof'
    scopes = ctx.pick([((2, 2, 4), every)],
                      [((2, 2, 4), every), ((3, 2, 3), three_kinds), ((2, 3, 3), hof_only), ((4, 1, 4), every)])
    if ctx.scale > 1 and ctx.tier == 'quick':      # escalated search after a disagreement
        scopes = [((3, 2, 3), hof_only), ((2, 2, 4), every), ((4, 1, 4), every)]
    first = True
    # the implementation is observed on batch i+1 while coqc judges batch i
    import concurrent.futures
    with concurrent.futures.ThreadPoolExecutor(max_workers=1) as pool:
        pending = None

        def collect(fut, sample):
            res = fut.result()
            if sample:
                for case, obs, ag, ho in res[len(res) // 3:len(res) // 3 + 2]:
                    ctx.sample({'case': case, 'observed': obs, 'agree': ag, 'holds': ho})
        try:
            for scope, want in scopes:
                gen = exhaustive_cases(ctx, scope, [c for c in cfgs if want(c[0])])
                group = 'exhaustive U%d P%d N%d' % scope
                n_batch = 0
                while True:
                    batch = list(itertools.islice(gen, 6400))    # streamed: memory stays bounded
                    if not batch:
                        break
                    terms, metas, planted = observe(batch, canary=first)
                    first = False
                    if pending:
                        collect(*pending)
                    pending = (pool.submit(judge, ctx, group, terms, metas, planted), n_batch == 0)
                    n_batch += 1
                ctx.set_exhaustive(group, True)
        finally:
            if pending:
                collect(*pending)
    # ---- the structured and random groups, judged in one Coq batch
    parts = [
        ('random sequences', [random_case(ctx) for _ in range(ctx.budget(300, 4000))]),
        # wide fronts: >= 3 objectives, newcomers dominating non-adjacent members
        ('wide fronts (3-4 objectives)', wide_front_cases(ctx, ctx.budget(1000, 6000), ctx.budget(300, 1500)) +
         [random_wide_case(ctx) for _ in range(ctx.budget(200, 3000))]),
        # other magnitudes: improving chains around 1e6, 1e9, 1e-9 and mixed
        ('magnitudes (1e6, 1e9, 1e-9)', magnitude_cases(ctx)),
        # failed evaluations: invalid fitness at any position of a population
        ('invalid fitness (hall of fame)', invalid_cases()),
        # archives continued after pickle / deepcopy; keepers with an Objective subclass
        ('copied archives and Objective subclasses', copy_and_subclass_cases()),
        # populations given as tuples / generators / iterators / map objects
        ('population containers (tuple, generator, iterator)', container_cases(ctx)),
        # maxsize 0 (model only)
        ('maxsize 0', list(zero_size_cases())),
    ]
    chunk = 12800
    flat = [(g, c) for g, cs in parts for c in cs]
    for i in range(0, len(flat), chunk):
        piece = flat[i:i + chunk]
        terms, metas, planted = observe([c for _, c in piece])
        res = judge(ctx, [g for g, _ in piece], terms, metas, planted)
        seen_groups = set()
        for (g, _), (case, obs, ag, ho) in zip(piece, res):
            if g not in seen_groups and g != 'maxsize 0':
                seen_groups.add(g)
                ctx.sample({'case': case, 'observed': obs, 'agree': ag, 'holds': ho})
    for g, _ in parts:
        ctx.set_exhaustive(g, g == 'invalid fitness (hall of fame)')
    # ---- minimise the first violation for the replay file
    if ctx.violations:
        v = ctx.violations[0]
        try:
            small = shrink(ctx, v['case']['case'])
            v['case'] = {'case': small, 'observed': run_impl(small), 'shrunk_from': v['case']['case']}
        except Exception:
            pass


def _payload_case(payload):
    v = payload.get('violation') or payload.get('first_disagreement') or payload
    c = v.get('case') if isinstance(v, dict) else None
    if isinstance(c, dict) and 'case' in c:
        c = c['case']
    return c if isinstance(c, dict) and 'target' in c else None


_replayed = set()


def replay(ctx, payload):
    """re-runs the implementation on a recorded case.  The whole corpus directory is evaluated in
    one Coq batch on the first call (one coqc start instead of one per file)."""
    import json
    import os
    c = _payload_case(payload)
    if not c:
        return
    todo = [c]
    cdir = os.path.join(os.path.dirname(os.path.dirname(os.path.abspath(__file__))), 'corpus', 'c08')
    if os.path.isdir(cdir):
        for fn in sorted(os.listdir(cdir)):
            if fn.endswith('.json'):
                try:
                    other = _payload_case(json.load(open(os.path.join(cdir, fn))))
                except (OSError, ValueError):
                    other = None
                if other:
                    todo.append(other)
    batch = []
    for x in todo:
        k = case_key(x)
        if k not in _replayed:
            _replayed.add(k)
            batch.append(x)
    if batch:
        evaluate(ctx, 'replay', batch)
