"""C09 - fitness comparison is a sound better-than ordering.
Implementation: golem.core.optimisers.fitness (SingleObjFitness, MultiObjFitness, Comparable).
Model: coq/theories/Fitness/Fitness.v (agree / holds_b)."""
import itertools
import math
from fractions import Fraction

from common import c_Q, c_bool, c_list, c_opt

from golem.core.optimisers.fitness import SingleObjFitness, MultiObjFitness

REQ = ['Fitness.Fitness']

# dyadic values realising every order type per component: identical, equal within tolerance
# (2^-40 apart), clearly separated (>= 2^-20 apart), sign changes, zero
GRID = [-2.0, -1.0, 0.0, 2.0 ** -40, 1.0, 1.0 + 2.0 ** -40, 1.0 + 2.0 ** -20, 2.0]
SMALL = [-1.0, 0.0, 1.0, 1.0 + 2.0 ** -40, 1.0 + 2.0 ** -20]
# pairs equal within tolerance (2^-44 apart) that straddle a rounding boundary of round(v, 8):
# a comparison through rounded values (as the hash does) would call them different
BOUNDARY = [1.5e-8 - 2.0 ** -45, 1.5e-8 + 2.0 ** -45, 1.0 + 2.5e-8 - 2.0 ** -45, 1.0 + 2.5e-8 + 2.0 ** -45]


INF = math.inf
# penalty values: +-inf is an ordinary (valid) metric value of a minimised objective.  The Q model
# sees +-inf as +-2^2000, a number beyond every finite binary64: every comparison, difference-
# against-tolerance test and product with a weight +-1 of the grid comes out the same
BIG = '((2 ^ 2000)%Z # 1)'
NBIG = '((- 2 ^ 2000)%Z # 1)'


def qq(x):
    if isinstance(x, float) and math.isinf(x):
        return BIG if x > 0 else NBIG
    return c_Q(x)


def _enc(x):
    if isinstance(x, float) and math.isinf(x):
        return 'inf' if x > 0 else '-inf'
    return x


def _dec(x):
    if x == 'inf':
        return INF
    if x == '-inf':
        return -INF
    return x


class F:
    """description of a fitness object: ('S', primary|None, supp) or ('M', values, weights)"""

    def __init__(self, kind, a, b):
        self.kind, self.a, self.b = kind, a, tuple(b)

    def build(self):
        if self.kind == 'S':
            return SingleObjFitness(self.a, *self.b)
        return MultiObjFitness(values=tuple(self.a), weights=self.b)

    def coq(self):
        if self.kind == 'S':
            return '(Single %s %s)' % (c_opt(self.a, qq, 'Q'), c_list([qq(x) for x in self.b], 'Q'))
        return '(Multi %s %s)' % (c_list([qq(x) for x in self.a], 'Q'), c_list([qq(x) for x in self.b], 'Q'))

    def key(self):
        """JSON-safe identity of the description (infinite values as the strings 'inf' / '-inf')"""
        return (self.kind, _enc(self.a) if self.kind == 'S' else tuple(_enc(x) for x in self.a),
                tuple(_enc(x) for x in self.b))

    def has_inf(self):
        vs = ([self.a] if self.kind == 'S' else list(self.a)) + list(self.b)
        return any(isinstance(x, float) and math.isinf(x) for x in vs)

    def n(self):
        return (1 + len(self.b)) if self.kind == 'S' else len(self.a)

    def is_valid(self):
        return (self.a is not None) if self.kind == 'S' else len(self.a) > 0


def _try(fn):
    """True / False, or None when the operation raises (which exception is not distinguished: the model only says
    where an exception is raised)"""
    try:
        r = fn()
        return bool(r)
    except Exception:  # noqa
        return None


def build_reassigned(f):
    """a fitness object that was created with other values, hashed (e.g. put into a set), and then
    given the values of `f` through the public `values` setter"""
    if f.kind == 'S':
        obj = SingleObjFitness(123.0, *([7.0] * len(f.b)))
        hash(obj)
        if f.a is None:
            obj.reset()
            return obj if not f.b else None
        obj.values = (f.a,) + tuple(f.b)
        return obj
    if not f.a:
        return None
    obj = MultiObjFitness(values=tuple(9.0 for _ in f.a), weights=f.b)
    hash(obj)
    obj.values = tuple(f.a)
    return obj


class FloorViewFitness(SingleObjFitness):
    """a user subclass whose PUBLIC values are a view of the stored ones (floor to whole numbers): everything the
    property says is about the values the object holds publicly"""

    def _view(self):
        return tuple(None if v is None else float(math.floor(v)) for v in self._values)

    values = property(_view, SingleObjFitness.values.fset, SingleObjFitness.values.fdel)

    def __hash__(self):
        return super().__hash__()


class HalfTolFitness(SingleObjFitness):
    """a user subclass that overrides the tolerance hook: values within 0.5 of each other count as equal"""

    @staticmethod
    def allclose(values1, values2):
        import numpy as np
        return bool(np.allclose(values1, values2, rtol=0.0, atol=0.5))

    def __hash__(self):
        return super().__hash__()


def observe(f, g, mode='fresh'):
    """mode: fresh = two independently built objects; same = one object on both sides (f is g);
    reassigned = the left object got its values by re-assignment after having been hashed"""
    a, b = f.build(), g.build()
    if mode == 'same':
        b = a
    elif mode == 'reassigned':
        a = build_reassigned(f)
        if a is None:
            a = f.build()
    return observe_objs(a, b)


def observe_objs(a, b):
    return {
        'lt': _try(lambda: a < b), 'eq': _try(lambda: a == b), 'ne': _try(lambda: a != b),
        'le': _try(lambda: a <= b), 'gt': _try(lambda: a > b), 'ge': _try(lambda: a >= b),
        'dom': _try(lambda: a.dominates(b)),
        'hash_eq': hash(a) == hash(b), 'valid_f': bool(a.valid), 'valid_g': bool(b.valid), 'bool_f': bool(a),
    }


def obs_coq(o):
    ob = lambda x: c_opt(x, c_bool, 'bool')
    return ('{| o_lt := %s; o_eq := %s; o_ne := %s; o_le := %s; o_gt := %s; o_ge := %s; o_dom := %s; '
            'o_hash_eq := %s; o_valid_f := %s; o_valid_g := %s; o_bool_f := %s |}') % (
        ob(o['lt']), ob(o['eq']), ob(o['ne']), ob(o['le']), ob(o['gt']), ob(o['ge']), ob(o['dom']),
        c_bool(o['hash_eq']), c_bool(o['valid_f']), c_bool(o['valid_g']), c_bool(o['bool_f']))


def pool(ctx):
    """fitness descriptions: both classes, lengths 1..3, invalid ones, negated weights"""
    out = [F('S', None, ()), F('S', None, (1.0,)), F('M', (), ())]
    for v in GRID:
        out.append(F('S', v, ()))
        out.append(F('M', (v,), (1.0,)))
        out.append(F('M', (v,), (-1.0,)))
    for v in BOUNDARY:
        out.append(F('S', v, ()))
        out.append(F('M', (v,), (1.0,)))
        out.append(F('S', 1.0, (v,)))
    for v, w in itertools.product(SMALL, SMALL):
        out.append(F('S', v, (w,)))
        out.append(F('M', (v, w), (1.0, 1.0)))
        out.append(F('M', (v, w), (1.0, -1.0)))
    # infinite (penalty) components, alone and next to finite ones; weights only +-1 here
    for v in (INF, -INF):
        out.append(F('S', v, ()))
        out.append(F('S', v, (1.0,)))
        out.append(F('S', 1.0, (v,)))
        out.append(F('M', (v,), (1.0,)))
        out.append(F('M', (v,), (-1.0,)))
        out.append(F('M', (1.0, v), (1.0, 1.0)))
        out.append(F('M', (v, 1.0), (1.0, -1.0)))
    out.append(F('S', INF, (INF,)))
    out.append(F('M', (INF, INF), (1.0, 1.0)))
    out.append(F('M', (INF, -INF), (1.0, 1.0)))
    r = ctx.rng
    for _ in range(60):
        n = 3
        vals = tuple(r.choice(SMALL) for _ in range(n))
        out.append(F('S', vals[0], vals[1:]))
        out.append(F('M', vals, tuple(r.choice([1.0, -1.0, 0.5]) for _ in range(n))))
    return out


def classify(f, g):
    if not f.is_valid() or not g.is_valid():
        return 'invalid'
    if f.kind != g.kind:
        return 'mixed-class'
    if f.n() != g.n():
        return 'different-length'
    return 'comparable'


def run(ctx):
    ctx.rule = ('ordered pairs of fitness objects over a dyadic grid (both classes, lengths 1..3, invalid, '
                'negated weights, infinite penalty components); distinct = distinct ordered pair; non-trivial = both valid, same class, same length')
    ctx.trusted_extra = ['binary64 arithmetic of the implementation is exact on the dyadic grid used, so the Q model '
                         'and the float code take the same branches',
                         'infinite (penalty) components are shown to the Q model as +-2^2000: for the grid values and weights +-1 '
                         'every float comparison, isclose test and product involving +-inf has the same outcome as with that bound']
    fs = pool(ctx)
    pairs = list(itertools.product(fs, fs))
    n = ctx.budget(4000, 10 ** 9)
    exhaustive = n >= len(pairs)
    if not exhaustive:
        # keep the structured core (all pairs of the length<=1 pool) and sample the rest
        in_core = lambda p: (p[0].n() <= 1 and p[1].n() <= 1) or (p[0].has_inf() and p[1].has_inf())
        core = [p for p in pairs if in_core(p)]
        rest = [p for p in pairs if not in_core(p)]
        ctx.rng.shuffle(rest)
        pairs = core + rest[:max(0, n - len(core))]
    cases, meta = [], []
    for f, g in pairs:
        o = observe(f, g)
        cases.append('(%s, %s, %s)' % (f.coq(), g.coq(), obs_coq(o)))
        meta.append((f, g, o))
        cl = classify(f, g)
        ctx.count('pairs', key=(f.key(), g.key()), nontrivial=(cl == 'comparable'), kind=cl, length=max(f.n(), g.n()), infinite=(f.has_inf() or g.has_inf()))
    # the same laws must hold when one object stands on both sides, and for objects whose values
    # were re-assigned after they had been hashed (state must not leak through caches)
    for f in fs:
        o = observe(f, f, mode='same')
        cases.append('(%s, %s, %s)' % (f.coq(), f.coq(), obs_coq(o)))
        meta.append((f, f, o))
        ctx.count('pairs', key=('same', f.key()), nontrivial=f.is_valid(), kind='same-object', length=f.n())
    for f, g in pairs[::max(1, len(pairs) // 600)]:
        o = observe(f, g, mode='reassigned')
        cases.append('(%s, %s, %s)' % (f.coq(), g.coq(), obs_coq(o)))
        meta.append((f, g, o))
        ctx.count('pairs', key=('reassigned', f.key(), g.key()), nontrivial=(classify(f, g) == 'comparable'), kind='reassigned', length=max(f.n(), g.n()))
    # the public `selector` argument of dominates(): dominance over the selected objectives only.  The case shown
    # to Coq is the pair RESTRICTED to the selected components (everything observed on freshly built restricted
    # objects) with the dominance answer taken from the FULL objects called with the selector
    SELECTORS = [slice(1, None), slice(0, 2), slice(None, None, 2), slice(-2, None), slice(1, 2), slice(None, 1)]
    multi = [f for f in fs if f.kind == 'M' and f.n() >= 2]
    sel_pairs = [(f, g) for f in multi for g in multi if f.n() == g.n()]
    ctx.rng.shuffle(sel_pairs)
    for f, g in sel_pairs[:ctx.budget(500, 6000)]:
        sel = SELECTORS[ctx.rng.randrange(len(SELECTORS))]
        fr, gr = F('M', tuple(f.a[sel]), tuple(f.b[sel])), F('M', tuple(g.a[sel]), tuple(g.b[sel]))
        if not fr.a:
            continue
        o = observe(fr, gr)
        a, b = f.build(), g.build()
        o['dom'] = _try(lambda: a.dominates(b, selector=sel))
        cases.append('(%s, %s, %s)' % (fr.coq(), gr.coq(), obs_coq(o)))
        meta.append((fr, gr, o))
        ctx.count('pairs', key=('selector', f.key(), g.key(), repr(sel)), nontrivial=True, kind='selector', length=fr.n(),
                  infinite=(fr.has_inf() or gr.has_inf()))
    # user subclass overriding the public `values`: the case shown to Coq holds the PUBLIC values (floors), the objects
    # store the raw ones (0 and 2^-40, 1 and 1 + 2^-20 ... share their public values)
    single = [f for f in fs if f.kind == 'S' and f.is_valid() and not f.has_inf()]
    view_pairs = [(f, g) for f in single for g in single if f.n() == g.n()]
    ctx.rng.shuffle(view_pairs)
    for f, g in view_pairs[:ctx.budget(400, 4000)]:
        a, b = FloorViewFitness(f.a, *f.b), FloorViewFitness(g.a, *g.b)
        fl = lambda x: float(math.floor(x))
        fv, gv = F('S', fl(f.a), tuple(fl(x) for x in f.b)), F('S', fl(g.a), tuple(fl(x) for x in g.b))
        o = observe_objs(a, b)
        cases.append('(%s, %s, %s)' % (fv.coq(), gv.coq(), obs_coq(o)))
        meta.append((fv, gv, o))
        ctx.count('pairs', key=('view', f.key(), g.key()), nontrivial=True, kind='subclass-view', length=fv.n(), infinite=False)
    ctx.set_exhaustive('pairs', exhaustive)
    # canary: a deliberately wrong observation must be flagged by the model
    f, g = F('S', 1.0, ()), F('S', 2.0, ())
    o = observe(f, g)
    o['gt'] = not o['gt']
    cases.append('(%s, %s, %s)' % (f.coq(), g.coq(), obs_coq(o)))
    ctx.canaries += 1
    # user subclass overriding the tolerance hook (Fitness.allclose): judged with the model / clauses instantiated with
    # that closeness test (Fitness/FitnessTol.v; the stock instance is the model of Fitness.v by reflexivity)
    tol_cases, tol_meta = [], []
    tol_pairs = [(f, g) for f in single for g in single]
    ctx.rng.shuffle(tol_pairs)
    for f, g in tol_pairs[:ctx.budget(400, 4000)]:
        a, b = HalfTolFitness(f.a, *f.b), HalfTolFitness(g.a, *g.b)
        o = observe_objs(a, b)
        tol_cases.append('(%s, %s, %s)' % (f.coq(), g.coq(), obs_coq(o)))
        tol_meta.append((f, g, o))
        ctx.count('pairs', key=('tolerance-hook', f.key(), g.key()), nontrivial=(f.n() == g.n()), kind='subclass-tolerance',
                  length=max(f.n(), g.n()), infinite=False)
    tol_res = ctx.coq_cases('pairs_tol', REQ + ['Fitness.FitnessTol'],
                            'fun c => match c with (f, g, o) => [agree_c cl_half f g o; holds_c cl_half f g o] end', tol_cases, 2)
    for (f, g, o), (ag, ho) in zip(tol_meta, tol_res):
        case = {'f': f.key(), 'g': g.key(), 'observed': o, 'subclass': 'HalfTolFitness'}
        if not ho:
            ctx.violate('pairs', case, 'fitness comparison of a subclass overriding the tolerance hook violates the ordering laws (with its own tolerance)')
        if not ag:
            ctx.disagree('pairs', case, 'model (instantiated with the overridden tolerance) and implementation differ')
    res = ctx.coq_cases('pairs', REQ, 'fun c => match c with (f, g, o) => [agree f g o; holds_b f g o] end', cases, 2)
    if res[-1] == (False, False):
        ctx.canaries_caught += 1
    for (f, g, o), (ag, ho) in zip(meta, res[:-1]):
        case = {'f': f.key(), 'g': g.key(), 'observed': o}
        if not ho:
            ctx.violate('pairs', case, 'fitness comparison violates the ordering laws on this pair')
        if not ag:
            ctx.disagree('pairs', case, 'model and implementation differ')
    for f, g, o in meta[:2] + meta[len(meta) // 2:len(meta) // 2 + 2]:
        ctx.sample({'f': f.key(), 'g': g.key(), 'observed': o})


def replay(ctx, payload):
    v = payload.get('violation') or payload.get('first_disagreement') or payload
    case = v.get('case') if isinstance(v, dict) else None
    if not case:
        return
    def mk(k):
        a = _dec(k[1]) if k[0] == 'S' else tuple(_dec(x) for x in k[1])
        return F(k[0], a, tuple(_dec(x) for x in k[2]))
    f, g = mk(case['f']), mk(case['g'])
    o = observe(f, g)
    res = ctx.coq_cases('replay', REQ, 'fun c => match c with (f, g, o) => [agree f g o; holds_b f g o] end',
                        ['(%s, %s, %s)' % (f.coq(), g.coq(), obs_coq(o))], 2)
    ctx.count('replay', key=(f.key(), g.key()), nontrivial=True)
    c = {'f': f.key(), 'g': g.key(), 'observed': o}
    if not res[0][1]:
        ctx.violate('replay', c, 'fitness comparison violates the ordering laws on this pair')
    if not res[0][0]:
        ctx.disagree('replay', c, 'model and implementation differ')
