"""C10 - optimisation histories survive JSON round-trips.
Implementation: OptHistory.save / OptHistory.load / save_current_results / Individual.save / load,
the coders in golem/serializers (opt_history_serialization, parent_operator_serialization,
serializer._get_class with the legacy path tables).
Model: coq/theories/Serial/HistoryCodec.v (agree / holds_b / guard_b, dump_agree / dump_holds_b,
tables_agree / resolve_agree)."""
import collections
import importlib
import json
import os
import random
import shutil
import tempfile
from unittest.mock import patch

import numpy as np

import optrun
from common import CoqEvalError, c_bool, c_str

from golem.core.dag.graph import Graph
from golem.core.dag.linked_graph import LinkedGraph
from golem.core.optimisers.fitness import MultiObjFitness, SingleObjFitness
from golem.core.optimisers.genetic.operators.base_mutations import MutationStrengthEnum, MutationTypesEnum
from golem.utilities.data_structures import ComparableEnum
from golem.core.optimisers.graph import OptGraph, OptNode
from golem.core.optimisers.objective.objective import ObjectiveInfo
from golem.core.optimisers.opt_history_objects.individual import Individual
from golem.core.optimisers.opt_history_objects.opt_history import OptHistory
from golem.core.optimisers.opt_history_objects.parent_operator import ParentOperator
from golem.core.paths import default_data_dir
from golem.serializers import serializer as ser_mod
from golem.serializers.serializer import Serializer
from golem.utilities.utilities import urandom_mock

REQ = ['Serial.HistoryCodec']
FN = 'fun o => [agree o; holds_b o; guard_b o]'
DEPTH = 400
PRE = 'Local Open Scope nat_scope.\nDefinition n (x : N) : nat := N.to_nat x.\n'
MISSING_META = {'MISSING_INDIVIDUAL': 'This individual could not be restored during `OptHistory.load()`'}
REPO = os.environ.get('VERIF_REPO', '/repo')


class ShapeError(Exception):
    pass


class TypeViolation(Exception):
    """an object of a loaded history does not have the type the public API promises (e.g. it stayed a
    plain dict because its class path was not resolved)"""


# ----------------------------------------------------------------------------------------
# canonical keys of the payloads the history codec passes through
# ----------------------------------------------------------------------------------------
def strip_cp(x):
    """JSON tree without the _class_path tags (used inside node content only)"""
    if isinstance(x, dict):
        return {k: strip_cp(v) for k, v in x.items() if k != '_class_path'}
    if isinstance(x, (list, tuple)):
        return [strip_cp(v) for v in x]
    return x


def jkey(x):
    """canonical text of a JSON-native value; key order kept (load keeps it), tuples = lists"""
    return json.dumps(x, default=lambda o: json.loads(json.dumps(o, cls=Serializer)))


_RESOLVABLE = {}


def op_key(x):
    """canonical key of a passed-through payload that may hold objects written as class-path dicts (operator entry
    of a ParentOperator: a string, an enum member or a function; metadata holding enum members): an earlier name and
    the current name of one class are one key.
    A class path that cannot be imported is dropped by the decoder (the entry is loaded as a plain dict):
    such tags are not part of the key"""
    def norm(t):
        if isinstance(t, dict):
            cp = t.get('_class_path')
            if cp is not None:
                if cp not in _RESOLVABLE:
                    obj = real_class(cp)
                    _RESOLVABLE[cp] = None if obj is None else '%s/%s' % (getattr(obj, '__module__', '?'), getattr(obj, '__qualname__', '?'))
                if _RESOLVABLE[cp] is None:
                    t = {k: v for k, v in t.items() if k != '_class_path'}
                else:   # an earlier name and the current name of one object are one key
                    t = dict(t, _class_path=_RESOLVABLE[cp])
            return {k: norm(v) for k, v in t.items()}
        if isinstance(t, list):
            return [norm(v) for v in t]
        return t
    return json.dumps(norm(json.loads(jkey(x))))


def num_key(v):
    return None if v is None else repr(v)


FIT_SKIP = ('_values', '_weights', 'wvalues')
IND_SKIP = ('fitness', 'graph', 'metadata', 'native_generation', 'parent_operator', 'uid')


def fit_key_mem(f):
    if isinstance(f, SingleObjFitness):
        return ('S', tuple(num_key(v) for v in f.values), _obj_path(type(f)), op_key(extras_of(vars(f), FIT_SKIP)))
    if isinstance(f, MultiObjFitness):
        return ('M', tuple(num_key(v) for v in f.wvalues), tuple(num_key(v) for v in f.weights), _obj_path(type(f)),
                op_key(extras_of(vars(f), FIT_SKIP)))
    return ('?', jkey(f))


def fit_key_json(t):
    cls = real_class(t.get('_class_path')) if isinstance(t, dict) and isinstance(t.get('_class_path'), str) else None
    if isinstance(cls, type) and issubclass(cls, SingleObjFitness) and '_values' in t:
        return ('S', tuple(num_key(v) for v in t['_values']), _obj_path(cls), op_key(extras_of(t, FIT_SKIP)))
    if isinstance(cls, type) and issubclass(cls, MultiObjFitness) and '_weights' in t and 'wvalues' in t:
        return ('M', tuple(num_key(v) for v in t['wvalues']), tuple(num_key(v) for v in t['_weights']), _obj_path(cls),
                op_key(extras_of(t, FIT_SKIP)))
    return ('?', jkey(t))


def _canon_path(cp):
    """canonical '<module>/<qualname>' of what a class path denotes ('?<path>' when it does not resolve).  A path is
    first imported directly (independent of the serializer); only earlier names go through Serializer._get_class"""
    obj = None
    if isinstance(cp, str) and cp.count('/') == 1:
        obj = import_object(*cp.split('/'))
    if obj is None and isinstance(cp, str):
        obj = real_class(cp)
    if obj is None:
        return '?%s' % (cp,)
    return '%s/%s' % (getattr(obj, '__module__', '?'), getattr(obj, '__qualname__', '?'))


def _node_class(cp):
    """class a node of the JSON is decoded to: its own class, or LinkedGraphNode when the class path cannot be
    imported (documented fallback for external histories)"""
    c = _canon_path(cp)
    return 'golem.core.dag.linked_graph_node/LinkedGraphNode' if c.startswith('?') else c


def _obj_path(obj):
    if obj is None:
        return None
    fn = getattr(obj, '__func__', obj)
    return '%s/%s' % (getattr(fn, '__module__', '?'), getattr(fn, '__qualname__', '?'))


GRAPH_SKIP = ('operator', '_nodes', '_postprocess_nodes')
NODE_SKIP = ('content', '_nodes_from', 'uid', '_operator', '_fitted_operation', '_node_data', '_parameters')


def is_logger_name(k):
    """attributes named log* (after leading underscores) hold loggers and are left out of every save by design:
    the property cannot demand them back"""
    return k.strip('_').startswith('log')


def extras_of(d, skip):
    return {k: v for k, v in d.items() if k not in skip and k != '_class_path' and not is_logger_name(k)}



def _mem_graph_part(g):
    """(class, postprocess callback, extra fields) of one graph object, read from the object"""
    extras = extras_of(vars(g), GRAPH_SKIP)
    return (_obj_path(type(g)), _obj_path(vars(g).get('_postprocess_nodes')), op_key(extras))


def _json_graph_part(t):
    extras = extras_of(t, GRAPH_SKIP)
    pp = t.get('_postprocess_nodes')
    return (_canon_path(t.get('_class_path')), (_canon_path(pp.get('_class_path')) if isinstance(pp, dict) else pp), op_key(extras))


def graph_key_mem(g):
    """structure of a live graph: nodes (uid, content, parent uids) and, per graph object (delegate and the
    operator inside it), class, node post-processing callback and every other field"""
    if g is None:
        return ('none',)
    if isinstance(g, dict):
        return ('dict', jkey(strip_cp(g)))
    if isinstance(g, Graph):
        nodes = tuple((str(n.uid), jkey(strip_cp(n.content)), tuple(str(p.uid) if not isinstance(p, str) else p for p in n.nodes_from),
                       _obj_path(type(n)), op_key(extras_of(vars(n), NODE_SKIP)))
                      for n in g.nodes)
        parts = [_mem_graph_part(g)]
        inner = vars(g).get('operator')
        if isinstance(inner, Graph):
            parts.append(_mem_graph_part(inner))
        return ('graph', nodes, tuple(parts))
    return ('?', jkey(g))


def graph_key_json(t):
    if t is None:
        return ('none',)
    if isinstance(t, dict) and '_class_path' in t:
        if 'operator' in t and isinstance(t['operator'], dict) and '_nodes' in t['operator']:
            inner = t['operator']
            parts = (_json_graph_part(t), _json_graph_part(inner))
        elif '_nodes' in t:
            inner = t
            parts = (_json_graph_part(t),)
        else:
            return ('dict', jkey(strip_cp(t)))
        nodes = tuple((str(n['uid']), jkey(strip_cp(n['content'])), tuple(n['_nodes_from']),
                       _node_class(n.get('_class_path')), op_key(extras_of(n, NODE_SKIP))) for n in inner['_nodes'])
        return ('graph', nodes, parts)
    if isinstance(t, dict):
        return ('dict', jkey(strip_cp(t)))
    return ('?', jkey(t))


class Tok:
    """per-case interning of canonical keys into the nat tokens of the model; token 0 of a kind
    is the payload of the placeholder / of the defaults the decoder fills in"""

    def __init__(self):
        self.t = {
            'uid': {}, 'type': {}, 'op': {}, 'name': {},
            'fit': {fit_key_mem(SingleObjFitness()): 0},
            'graph': {graph_key_mem(OptGraph()): 0},
            'imeta': {(jkey(MISSING_META), CUR['ind'], '{}'): 0},
            'label': {'': 0},
            'gmeta': {jkey({}): 0},
            'tuning': {('none',): 0},
            'dir': {str(default_data_dir()): 0},
        }

    def __call__(self, kind, key):
        d = self.t[kind]
        if key not in d:
            # kinds with a reserved token 0 hold it already; the others start at 1
            d[key] = len(d) + (1 if kind in ('uid', 'type', 'op', 'name') else 0)
        return d[key]


# ----------------------------------------------------------------------------------------
# export of an in-memory history (by object identity) and parsing of a saved one
# ----------------------------------------------------------------------------------------
GIVEN_SNAPS = {}    # id(history) -> (history, [[individual...]...]): the archive snapshots as handed to add_to_archive_history


def export_hist(history, tok):
    """-> dict(heap=[ind...], obj, gens, snaps, tuning, dir); objects numbered parents first;
    identity = id(); raises ShapeError when something is not what the public types promise"""
    order, index = [], {}
    # a snapshot handed over as a tuple / one-shot iterator / other sequence denotes the list of its elements: for
    # such recipes the recorded side of the observation is the materialised argument, not the stored container
    given = GIVEN_SNAPS.get(id(history))
    archives = given[1] if given is not None and given[0] is history else history.archive_history

    def visit(root):
        if id(root) in index:
            return
        stack = [(root, iter(_parent_objs(root)))]
        index[id(root)] = None
        while stack:
            cur, it = stack[-1]
            nxt = next(it, None)
            if nxt is None:
                stack.pop()
                index[id(cur)] = len(order)
                order.append(cur)
            elif id(nxt) not in index:
                index[id(nxt)] = None
                stack.append((nxt, iter(_parent_objs(nxt))))

    def _parent_objs(ind):
        if not isinstance(ind, Individual):
            raise TypeViolation('a member / parent is %s, not an Individual' % type(ind).__name__)
        po = ind.parent_operator
        if po is None:
            return []
        if not isinstance(po, ParentOperator):
            raise TypeViolation('parent_operator is %s, not a ParentOperator' % type(po).__name__)
        return [p for p in po.parent_individuals if not isinstance(p, str)]

    for g in history.generations:
        for i in g:
            visit(i)
    for a in archives:
        for i in a:
            visit(i)
    # cyclic lineage (possible only for hand-made JSON): index may still be None for objects on a cycle
    heap = []
    for o in order:
        heap.append(ind_record(o, tok, lambda p: index[id(p)]))
    gens = []
    for g in history.generations:
        if not hasattr(g, 'generation_num'):
            raise TypeViolation('generation is %s, not a Generation' % type(g).__name__)
        gens.append({'num': g.generation_num, 'label': tok('label', g.label), 'meta': tok('gmeta', op_key(g.metadata)),
                     'members': [index[id(i)] for i in g]})
    snaps = [[index[id(i)] for i in a] for a in archives]
    o = history.objective
    if not isinstance(o, ObjectiveInfo):
        raise TypeViolation('objective is %s, not an ObjectiveInfo' % type(o).__name__)
    return {'heap': heap, 'obj': {'multi': bool(o.is_multi_objective), 'names': [tok('name', str(n)) for n in o.metric_names]},
            'gens': gens, 'snaps': snaps, 'tuning': tok('tuning', graph_key_mem(history.tuning_result)),
            'dir': tok('dir', str(history._default_save_dir)), '_objects': order}


def ind_record(o, tok, ref_of):
    po = o.parent_operator
    op = None
    if po is not None:
        parents = []
        for p in po.parent_individuals:
            parents.append(['s', tok('uid', p)] if isinstance(p, str) else ['r', ref_of(p)])
        op = {'type': tok('type', jkey(po.type_)), 'ops': [tok('op', op_key(x)) for x in po.operators],
              'uid': tok('uid', str(po.uid)), 'parents': parents}
    if not isinstance(o.metadata, dict):
        raise ShapeError('metadata is %r' % type(o.metadata))
    ng = o.native_generation
    if ng is not None and not (isinstance(ng, int) and ng >= 0):
        raise ShapeError('native_generation %r' % (ng,))
    return {'uid': tok('uid', str(o.uid)), 'fit': tok('fit', fit_key_mem(o.fitness)), 'graph': tok('graph', graph_key_mem(o.graph)),
            'meta': tok('imeta', (op_key(o.metadata), _obj_path(type(o)), op_key(extras_of(vars(o), IND_SKIP)))), 'ng': ng, 'op': op}


CUR = {
    'hist': 'golem.core.optimisers.opt_history_objects.opt_history/OptHistory',
    'ind': 'golem.core.optimisers.opt_history_objects.individual/Individual',
    'pop': 'golem.core.optimisers.opt_history_objects.parent_operator/ParentOperator',
    'gen': 'golem.core.optimisers.opt_history_objects.generation/Generation',
    'obj': 'golem.core.optimisers.objective.objective/ObjectiveInfo',
}
GD = 'golem.core.dag.graph_delegate/GraphDelegate'
LGN = 'golem.core.dag.linked_graph_node/LinkedGraphNode'
SOF = 'golem.core.optimisers.fitness.fitness/SingleObjFitness'
MOF = 'golem.core.optimisers.fitness.multi_objective_fitness/MultiObjFitness'
ENUM = 'golem.core.optimisers.genetic.operators.base_mutations/MutationTypesEnum'
# how earlier releases named the classes of a current save.  'sub': keys of LEGACY_CLASS_PATHS and classes in
# SUB-modules of the LEGACY_MODULE_PATHS keys; 'direct': classes living directly IN a module that is a key of
# LEGACY_MODULE_PATHS (class path 'K/Class'), for every key that has such a class
LEGACY_VARIANTS = {
    'sub': {
        CUR['hist']: 'fedot.core.optimisers.opt_history/OptHistory',
        CUR['ind']: 'fedot.core.optimisers.gp_comp.individual/Individual',
        CUR['pop']: 'fedot.core.optimisers.gp_comp.individual/ParentOperator',
        LGN: 'fedot.core.dag.graph_node/GraphNode',
        'golem.core.dag.linked_graph/LinkedGraph': 'fedot.core.dag.graph_operator/GraphOperator',
        'golem.core.dag.linked_graph/LinkedGraph._empty_postprocess': 'fedot.core.dag.graph_operator/GraphOperator._empty_postprocess',
        CUR['gen']: 'fedot.core.optimisers.opt_history_objects.generation/Generation',
        CUR['obj']: 'fedot.core.optimisers.objective.objective/ObjectiveInfo',
        SOF: 'fedot.core.optimisers.fitness.fitness/SingleObjFitness',
        MOF: 'fedot.core.optimisers.fitness.multi_objective_fitness/MultiObjFitness',
        GD: 'fedot.core.dag.graph_delegate/GraphDelegate',
        ENUM: 'fedot.core.optimisers.gp_comp.operators.base_mutations/MutationTypesEnum',
        'golem.core.log/default_log': 'fedot.core.log/default_log',
        'golem.core.adapter.adapt_registry/register_native': 'fedot.core.adapter.adapt_registry/register_native',
        'golem.core.dag.graph_utils/nodes_from_layer': 'fedot.core.dag.graph_utils/nodes_from_layer',
        'golem.utilities.data_structures/ensure_wrapped_in_sequence': 'fedot.core.utilities.data_structures/ensure_wrapped_in_sequence',
    },
    'direct': {
        CUR['hist']: 'fedot.core.optimisers.opt_history_objects.opt_history/OptHistory',
        CUR['ind']: 'fedot.core.optimisers.opt_history_objects.individual/Individual',
        CUR['pop']: 'fedot.core.optimisers.opt_history_objects.parent_operator/ParentOperator',
        CUR['gen']: 'fedot.core.optimisers.opt_history_objects.generation/Generation',
        CUR['obj']: 'fedot.core.optimisers.objective.objective/ObjectiveInfo',     # module = key
        GD: 'fedot.core.optimisers.graph/OptGraph',                                 # module = key
        LGN: 'fedot.core.optimisers.graph/OptNode',                                 # module = key
        SOF: 'fedot.core.optimisers.fitness/SingleObjFitness',                      # module = key
        MOF: 'fedot.core.optimisers.fitness/MultiObjFitness',                       # module = key
        'golem.core.log/default_log': 'fedot.core.log/default_log',                 # module = key
        'golem.core.adapter.adapt_registry/register_native': 'fedot.core.adapter/register_native',   # module = key
        ENUM: 'fedot.core.optimisers.gp_comp.operators.base_mutations/MutationTypesEnum',
        'golem.core.dag.graph_utils/nodes_from_layer': 'fedot.core.dag.graph_utils/nodes_from_layer',
        'golem.utilities.data_structures/ensure_wrapped_in_sequence': 'fedot.core.utilities.data_structures/ensure_wrapped_in_sequence',
    },
}
LEGACY_OF = LEGACY_VARIANTS['sub']
LEGACY_NAMES = {kind: {v[CUR[kind]] for v in LEGACY_VARIANTS.values() if CUR[kind] in v} for kind in CUR}


def _cp_ok(t, kind, legacy):
    cp = t.get('_class_path')
    return cp == CUR[kind] or (legacy and cp in LEGACY_NAMES[kind])


def parse_ehist(text, tok, legacy=False):
    """saved text -> encoded history of the model.  Strict about the shape: key sets, key order
    (current format), class-path tags.  ShapeError otherwise."""
    t = json.loads(text)
    if not isinstance(t, dict) or not _cp_ok(t, 'hist', legacy):
        raise ShapeError('top level is not an OptHistory object')
    keys = list(t)
    cur_keys = ['_default_save_dir', '_generations', '_objective', '_tuning_result', 'archive_history', 'individuals_pool', '_class_path']
    if not legacy and keys != cur_keys:
        raise ShapeError('top-level keys %r' % keys)
    gkey = '_generations' if '_generations' in t else 'individuals'
    if set(keys) != {'_default_save_dir', gkey, '_tuning_result', 'archive_history', 'individuals_pool', '_class_path',
                     ('_objective' if '_objective' in t else '_is_multi_objective')}:
        raise ShapeError('top-level keys %r' % keys)
    if '_objective' in t:
        o = t['_objective']
        if list(o) != ['is_multi_objective', 'metric_names', '_class_path'] or not _cp_ok(o, 'obj', legacy):
            raise ShapeError('objective %r' % o)
        obj = {'multi': bool(o['is_multi_objective']), 'names': [tok('name', str(n)) for n in o['metric_names']]}
    else:
        obj = {'legacy_multi': bool(t['_is_multi_objective'])}
    gens_t = t[gkey]
    if gens_t and all(isinstance(g, list) for g in gens_t):
        gens = {'lists': [[tok('uid', u) for u in g] for g in gens_t]}
    else:
        gens = {'gens': []}
        for g in gens_t:
            if not isinstance(g, dict) or list(g) != ['data', 'generation_num', 'label', 'metadata', '_class_path'] or not _cp_ok(g, 'gen', legacy):
                raise ShapeError('generation %r' % (list(g) if isinstance(g, dict) else g))
            if not all(isinstance(u, str) for u in g['data']):
                raise ShapeError('generation members are not uid strings')
            gens['gens'].append({'num': g['generation_num'], 'label': tok('label', g['label']), 'meta': tok('gmeta', op_key(g['metadata'])),
                                 'members': [tok('uid', u) for u in g['data']]})
    arch = []
    for a in t['archive_history']:
        if not all(isinstance(u, str) for u in a):
            raise ShapeError('archive members are not uid strings')
        arch.append([tok('uid', u) for u in a])
    pool = [parse_eind(i, tok, legacy) for i in t['individuals_pool']]
    return {'pool': pool, 'obj': obj, 'gens': gens, 'arch': arch, 'tuning': tok('tuning', graph_key_json(t['_tuning_result'])),
            'dir': tok('dir', str(t['_default_save_dir']))}


def parse_eind(i, tok, legacy=False):
    if not isinstance(i, dict) or not set(IND_SKIP) <= set(i) or list(i)[-1] != '_class_path' or list(i)[:-1] != sorted(list(i)[:-1]):
        raise ShapeError('individual %r' % (list(i) if isinstance(i, dict) else i))
    icls = real_class(i['_class_path'])
    if not (isinstance(icls, type) and issubclass(icls, Individual)):
        raise ShapeError('individual class path %r' % i['_class_path'])
    po = i['parent_operator']
    op = None
    if po is not None:
        if list(po) != ['operators', 'parent_individuals', 'type_', 'uid', '_class_path'] or not _cp_ok(po, 'pop', legacy):
            raise ShapeError('parent operator %r' % list(po))
        if not all(isinstance(u, str) for u in po['parent_individuals']):
            raise ShapeError('parents are not uid strings')
        op = {'type': tok('type', jkey(po['type_'])), 'ops': [tok('op', op_key(x)) for x in po['operators']],
              'uid': tok('uid', str(po['uid'])), 'parents': [tok('uid', u) for u in po['parent_individuals']]}
    ng = i['native_generation']
    if ng is not None and not (isinstance(ng, int) and ng >= 0):
        raise ShapeError('native_generation %r' % (ng,))
    return {'uid': tok('uid', str(i['uid'])), 'fit': tok('fit', fit_key_json(i['fitness'])), 'graph': tok('graph', graph_key_json(i['graph'])),
            'meta': tok('imeta', (op_key(i['metadata']), _canon_path(i.get('_class_path')), op_key(extras_of(i, IND_SKIP)))), 'ng': ng, 'op': op}


# ----------------------------------------------------------------------------------------
# Coq printers
# ----------------------------------------------------------------------------------------
def qn(x):
    """nat literal; big ones are written in binary (N) and converted during evaluation, because a
    unary literal costs its value in term size"""
    x = int(x)
    assert x >= 0
    return str(x) if x <= 12 else '(n %d)' % x


def q_nats(l):
    return '[' + ';'.join(qn(x) for x in l) + ']' if l else '(@nil nat)'


def q_opt_nat(x):
    return 'None' if x is None else '(Some %s)' % qn(x)


def q_ind(r):
    if r['op'] is None:
        op = 'None'
    else:
        ps = ['(PRef %s)' % qn(p[1]) if p[0] == 'r' else '(PStr %s)' % qn(p[1]) for p in r['op']['parents']]
        op = '(Some (mP %s %s %s %s))' % (qn(r['op']['type']), q_nats(r['op']['ops']), qn(r['op']['uid']),
                                           ('[' + ';'.join(ps) + ']') if ps else '(@nil pref)')
    return '(mI %s %s %s %s %s %s)' % (qn(r['uid']), qn(r['fit']), qn(r['graph']), qn(r['meta']), q_opt_nat(r['ng']), op)


def q_eind(r):
    if r['op'] is None:
        op = 'None'
    else:
        op = '(Some (mQ %s %s %s %s))' % (qn(r['op']['type']), q_nats(r['op']['ops']), qn(r['op']['uid']), q_nats(r['op']['parents']))
    return '(mE %s %s %s %s %s %s)' % (qn(r['uid']), qn(r['fit']), qn(r['graph']), qn(r['meta']), q_opt_nat(r['ng']), op)


def q_list(items, ty):
    return '[' + ';\n '.join(items) + ']' if items else '(@nil (%s))' % ty


def q_gen(g):
    return '(mkGen %s %s %s %s)' % (qn(g['num']), qn(g['label']), qn(g['meta']), q_nats(g['members']))


def q_obj(o):
    return '(mkObj %s %s)' % (c_bool(o['multi']), q_nats(o['names']))


def q_hist(h):
    return '(mkHist %s %s %s %s %s %s)' % (
        q_list([q_ind(r) for r in h['heap']], 'ind pref'), q_obj(h['obj']), q_list([q_gen(g) for g in h['gens']], 'gen'),
        q_list([q_nats(s) for s in h['snaps']], 'list nat'), qn(h['tuning']), qn(h['dir']))


def q_ehist(e):
    obj = '(ELegacyMulti %s)' % c_bool(e['obj']['legacy_multi']) if 'legacy_multi' in e['obj'] else '(EObj %s)' % q_obj(e['obj'])
    if 'lists' in e['gens']:
        gens = '(ELists %s)' % q_list([q_nats(l) for l in e['gens']['lists']], 'list nat')
    else:
        gens = '(EGens %s)' % q_list([q_gen(g) for g in e['gens']['gens']], 'gen')
    return '(mkEHist %s %s %s %s %s %s)' % (
        q_list([q_eind(r) for r in e['pool']], 'ind nat'), obj, gens, q_list([q_nats(s) for s in e['arch']], 'list nat'),
        qn(e['tuning']), qn(e['dir']))


def q_obs(o):
    pre = 'None' if o.get('pre') is None else '(Some %s)' % q_ehist(o['pre'])
    return '(mkObs %s %s %s %s %s %s %s %s)' % (q_hist(o['mem']), q_ehist(o['json']), q_hist(o['loaded']), q_ehist(o['json2']),
                                                pre, c_bool(o['text_equal']), c_bool(o['fitness_ok']), qn(DEPTH))


# ----------------------------------------------------------------------------------------
# observing one history
# ----------------------------------------------------------------------------------------
OPS = [('lt', lambda a, b: a < b), ('eq', lambda a, b: a == b), ('gt', lambda a, b: a > b),
       ('le', lambda a, b: a <= b), ('ge', lambda a, b: a >= b), ('dominates', lambda a, b: a.dominates(b))]


def fresh_fitness(f):
    """a fitness object built by the public constructor from raw (unweighted) values - not loaded from JSON and not
    through the wvalues= path of the constructor (which divides by the weights)"""
    if isinstance(f, SingleObjFitness):
        return SingleObjFitness(*[v for v in f.values])
    if isinstance(f, MultiObjFitness):
        w = tuple(f.weights)
        if not len(f.wvalues):
            g = MultiObjFitness(values=tuple(0.0 for _ in w), weights=w) if len(w) else MultiObjFitness()
            del g.values
            return g
        raw = tuple((wv / wt) if wt != 0 else 0.0 for wv, wt in zip(f.wvalues, w))     # dyadic grid: exact
        return MultiObjFitness(values=raw, weights=w)
    return None


def fitness_check(loaded_objs, original_objs=None, limit=8):
    """loaded fitness values against freshly built ones (built by the constructors from the values of the fitness
    objects of the history that was saved): <, ==, >, <=, >=, dominates must not raise and must answer what two fresh
    objects answer - in particular a loaded fitness equals the fresh one with the saved values -, hashes agree.
    -> (ok, detail)"""
    orig = {}
    for o in (original_objs if original_objs is not None else loaded_objs):
        orig.setdefault(str(o.uid), o.fitness)
    seen, sample, fresh = set(), [], []
    for o in loaded_objs:
        k = fit_key_mem(o.fitness)
        src = orig.get(str(o.uid))
        if src is None or type(src) is not type(o.fitness):
            continue
        k = (k, fit_key_mem(src))
        if k not in seen and k[0][0] in ('S', 'M'):
            seen.add(k)
            sample.append(o.fitness)
            fresh.append(fresh_fitness(src))
        if len(sample) >= limit:
            break
    for i, lf in enumerate(sample):
        try:
            expected_hash = hash(fresh[i])
        except Exception:
            expected_hash = None
        if expected_hash is not None:
            try:
                if hash(lf) != expected_hash:
                    return False, 'hash of loaded %r differs from the hash of fresh %r' % (lf, fresh[i])
            except Exception as ex:
                return False, 'hash of loaded %r raises %s: %s' % (lf, type(ex).__name__, ex)
        for j, ff in enumerate(fresh):
            if type(lf) is not type(ff):
                continue
            for name, op in OPS:
                try:
                    expected = bool(op(fresh[i], ff))
                    expected_r = bool(op(ff, fresh[i]))
                except Exception:  # two fresh ones do not compare either: nothing to demand
                    continue
                try:
                    got, got_r = bool(op(lf, ff)), bool(op(ff, lf))
                except Exception as ex:
                    return False, 'loaded %r %s fresh %r raises %s: %s' % (lf, name, ff, type(ex).__name__, ex)
                if got != expected or got_r != expected_r:
                    return False, 'loaded %r %s fresh %r gives %r, fresh objects give %r' % (lf, name, ff, (got, got_r), (expected, expected_r))
    return True, ''


class ImplRaised(Exception):
    """the implementation raised while saving / loading a history (stage, exception text)"""


def observe(history, tok=None, pre_text=None, legacy=False):
    """save -> load -> save of a live history; everything canonicalised for the model.
    ImplRaised when the first save or the load raises; a raising second save is recorded in the
    observation (the property then fails on a complete case)"""
    tok = tok or Tok()
    o = {'pre': parse_ehist(pre_text, tok, legacy=True) if pre_text is not None else None}
    o['mem'] = export_hist(history, tok)
    try:
        text = history.save()
    except Exception as ex:
        raise ImplRaised('save raises %s: %s' % (type(ex).__name__, ex))
    o['json'] = parse_ehist(text, tok)
    try:
        loaded = OptHistory.load(text)
    except Exception as ex:
        raise ImplRaised('load of the saved history raises %s: %s' % (type(ex).__name__, ex))
    if not isinstance(loaded, OptHistory):
        raise ShapeError('load returned %r' % type(loaded))
    try:
        o['loaded'] = export_hist(loaded, tok)
    except TypeViolation as ex:
        raise ImplRaised('the loaded history has an object of the wrong type: %s' % ex)
    try:
        text2 = loaded.save()
        o['json2'] = parse_ehist(text2, tok)
        o['resave_raised'] = None
    except ShapeError:
        raise
    except Exception as ex:
        text2 = None
        o['json2'] = o['json']
        o['resave_raised'] = '%s: %s' % (type(ex).__name__, ex)
    o['text_equal'] = (text == text2)
    o['fitness_ok'], o['fitness_detail'] = fitness_check(o['loaded']['_objects'], o['mem']['_objects'])
    if o['fitness_ok']:     # the flag of the model covers the usability of the loaded payloads: fitness and graph callbacks
        o['fitness_ok'], o['fitness_detail'] = graph_behaviour_check(o['loaded']['_objects'], o['mem']['_objects'])
    o['text'] = text
    o['_loaded_history'] = loaded
    return o


def summary(o, desc):
    m = o['mem']
    return {'desc': desc, 'generations': [(g['num'], len(g['members'])) for g in m['gens']][:12], 'snapshots': len(m['snaps']),
            'objects': len(m['heap']), 'pool': len(o['json']['pool']),
            'intermediate': sum(1 for r in o['json']['pool'] if r['ng'] is None),
            'loaded_objects': len(o['loaded']['heap']), 'text_equal': o['text_equal'], 'fitness_ok': o['fitness_ok'],
            'resave_raised': o.get('resave_raised'),
            'fitness_detail': o.get('fitness_detail', '')}


# ----------------------------------------------------------------------------------------
# individual dumps
# ----------------------------------------------------------------------------------------
def dump_case(ind, path, tok=None):
    """(mini heap with the individual last, its ref, parsed file, exported Individual.load)"""
    tok = tok or Tok()
    parents = [p for p in (ind.parent_operator.parent_individuals if ind.parent_operator else []) if not isinstance(p, str)]
    stubs, ref = [], {}
    for p in parents:
        if id(p) not in ref:
            ref[id(p)] = len(stubs)
            stubs.append({'uid': tok('uid', str(p.uid)), 'fit': 0, 'graph': 0, 'meta': 0, 'ng': None, 'op': None})
    mem = ind_record(ind, tok, lambda p: ref[id(p)])
    with open(path) as f:
        file_rec = parse_eind(json.load(f), tok)
    try:
        loaded = Individual.load(path)
    except Exception as ex:
        raise ImplRaised('Individual.load of the dump raises %s: %s' % (type(ex).__name__, ex))
    if not isinstance(loaded, Individual):
        raise ShapeError('Individual.load returned %r' % type(loaded))
    lrec = ind_record(loaded, tok, lambda p: 0)
    ok_fit, _ = fitness_check([loaded], [ind], limit=1)
    return {'heap': stubs + [mem], 'ref': len(stubs), 'file': file_rec, 'loaded': lrec, 'fitness_ok': ok_fit}


def q_dump(d):
    return '(%s, %s, %s, %s, %s)' % (q_list([q_ind(r) for r in d['heap']], 'ind pref'), qn(d['ref']), q_eind(d['file']), q_ind(d['loaded']),
                                     c_bool(d['fitness_ok']))


DUMP_FN = 'fun c => match c with (h, r, f, l, ok) => [dump_agree h r f l; dump_holds_b h r l && ok] end'


def collect_dumps(history, directory, out, desc, limit, recipe=None):
    """dump files of the last generation against the live individuals (called right after the dump);
    limit=None: every member"""
    if not history.generations:
        return
    gi = history.generations_count - 1
    members, seen = [], set()
    for ind in history.generations[gi]:
        if id(ind) not in seen:
            seen.add(id(ind))
            members.append(ind)
    if limit is not None and len(members) > limit:
        members = members[:limit - 1] + [members[-1]]       # the last member is always looked at
    for ind in members:
        path = os.path.join(directory, str(gi), str(ind.uid), '%s.json' % ind.uid)
        base = {'desc': desc, 'recipe': recipe, 'generation': gi}
        if not os.path.exists(path):
            out.append(dict(base, missing=os.path.join(str(gi), str(ind.uid)), members=[str(i.uid)[:8] for i in history.generations[gi]]))
            continue
        try:
            d = dump_case(ind, path)
        except ShapeError as ex:
            out.append(dict(base, shape=str(ex)))
            continue
        except ImplRaised as ex:
            out.append(dict(base, raised=str(ex), uid=str(ind.uid), fitness=repr(ind.fitness)))
            continue
        d['desc'] = '%s gen %d' % (desc, gi)
        d['recipe'] = recipe
        out.append(d)


# ----------------------------------------------------------------------------------------
# histories: real runs
# ----------------------------------------------------------------------------------------
def real_history(cfg, dumps, dump_limit):
    tmp = tempfile.mkdtemp(prefix='c10_hist_')
    try:
        with patch('os.urandom', urandom_mock):
            random.seed(cfg.get('seed', 0))
            np.random.seed(cfg.get('seed', 0))
            use_dir = cfg['optimiser'] in optrun.POPULATIONAL
            opt, objective, _ = optrun.make_optimiser(cfg, [], tmp if use_dir else None)

            def cb(population, optimiser):
                if use_dir:
                    collect_dumps(optimiser.history, tmp, dumps, cfg['optimiser'], dump_limit)
            opt.set_iteration_callback(cb)
            try:
                opt.optimise(objective)
            except Exception:  # the history recorded so far is still a history
                pass
        return opt.history
    finally:
        shutil.rmtree(tmp, ignore_errors=True)


# ----------------------------------------------------------------------------------------
# histories: synthetic, through the public constructors
# ----------------------------------------------------------------------------------------
DY = [0.0, 0.5, 1.0, 1.5, 2.0, -1.0, 3.25]


CALLS = []


def remember_size(graph, nodes):
    """module-level node post-processing callback of harness graphs"""
    CALLS.append(('remember_size', len(nodes)))


class HCallbacks:
    @staticmethod
    def count_nodes(graph, nodes):
        """node post-processing callback given as a static method"""
        CALLS.append(('count_nodes', len(nodes)))


class HLinkedGraph(LinkedGraph):
    """LinkedGraph subclass with extra fields (one name contains 'log' in the middle, one is a logger-like name)"""

    def __init__(self, nodes=(), postprocess_nodes=None, budget=None, tags=None):
        super().__init__(nodes, postprocess_nodes)
        self.budget = budget
        self.tags = tags if tags is not None else []
        self.topology = 'dag-%s' % budget
        self._log_note = 'left out of every save by design'


class HNode(OptNode):
    """node subclass with extra attributes whose names contain 'log' not at the start"""

    def __init__(self, content, nodes_from=None, catalog_key=None):
        super().__init__(content, nodes_from)
        self.catalog_key = catalog_key
        self.dialog = {'topology': [1, 2], 'analog_gain': 0.5}
        self.logbook = 'left out of every save by design'


class HIndividual(Individual):
    """individual subclass carrying an extra attribute"""


def h_individual(graph, **kw):
    ind = HIndividual(graph, **kw)
    object.__setattr__(ind, 'genealogy', {'catalog_id': 7, 'branch': 'x'})
    object.__setattr__(ind, 'logged_at', 'left out of every save by design')
    return ind


class HFitness(SingleObjFitness):
    """fitness subclass with an extra attribute"""

    def __init__(self, *values, analog_gain=None):
        super().__init__(*values)
        self.analog_gain = analog_gain


class HOptGraph(OptGraph):
    """OptGraph subclass with an extra field, delegating to the LinkedGraph subclass"""

    def __init__(self, *args, label=None, **kwargs):
        super().__init__(*args, delegate_cls=HLinkedGraph, **kwargs)
        self.label = label


def mk_graph(rng, shape=None):
    shape = rng.randrange(9) if shape is None else shape
    if shape == 0:
        return OptGraph(OptNode('a'))
    if shape == 1:
        return OptGraph(OptNode('a', [OptNode('b')]))
    if shape == 2:
        b = OptNode('b')
        return OptGraph(OptNode('c', [OptNode({'name': 'a', 'params': {'k': 1}}, [b]), b]))
    if shape == 3:
        return OptGraph()
    if shape == 4:      # non-default callback: module-level function
        return OptGraph(OptNode('a', [OptNode('b'), OptNode('c')]), postprocess_nodes=remember_size)
    if shape == 5:      # non-default callback: static method
        return OptGraph(OptNode('a', [OptNode('b')]), postprocess_nodes=HCallbacks.count_nodes)
    if shape == 6:      # subclasses with extra fields, default callback
        return HOptGraph(OptNode('a', [OptNode('b')]), label='variant', budget=3, tags=['x', {'k': 1.5}])
    if shape == 7:
        return HOptGraph(OptNode('r', [OptNode('p'), OptNode('q')]), label=None, postprocess_nodes=remember_size, budget=0, tags=[])
    p = HNode('p', catalog_key='k-1')     # nodes of a subclass with extra attributes
    return OptGraph(HNode({'name': 'r', 'params': {'x': 1}}, [p, OptNode('plain')], catalog_key=None))


def graph_behaviour_check(loaded_objs, original_objs):
    """an edit of a loaded graph triggers the node post-processing callback exactly as the same edit of the saved
    graph does (checked on deep copies, for graphs with a non-default callback) -> (ok, detail)"""
    import copy
    orig = {}
    for o in original_objs:
        orig.setdefault(str(o.uid), o)
    checked = 0
    for lo in loaded_objs:
        so = orig.get(str(lo.uid))
        if so is None or not isinstance(so.graph, Graph) or not isinstance(lo.graph, Graph) or not so.graph.nodes:
            continue
        inner = vars(so.graph).get('operator', so.graph)
        if _obj_path(vars(inner).get('_postprocess_nodes')) == 'golem.core.dag.linked_graph/LinkedGraph._empty_postprocess':
            continue
        traces = []
        for g in (so.graph, lo.graph):
            try:
                c = copy.deepcopy(g)
                del CALLS[:]
                c.delete_node(c.nodes[-1])
                c.add_node(OptNode('z'))
                traces.append(list(CALLS))
            except Exception as ex:
                traces.append('raises %s: %s' % (type(ex).__name__, ex))
        if traces[0] != traces[1]:
            return False, 'editing the loaded graph of %s calls the post-processing callback %r, the saved graph %r' % (lo.uid, traces[1], traces[0])
        checked += 1
        if checked >= 4:
            break
    return True, ''


# weight vectors of multi-objective fitness: default, negative, fractional, ZERO (a metric that is logged but
# switched off), mixed
WEIGHT_SETS = [(1.0, 1.0), (1.0, -1.0), (-1.0, -1.0), (0.5, -2.0), (-1.0, 0.0, 0.5), (0.0, 1.0), (0.0, 0.0), (-0.25, 4.0, 0.0)]


def mk_fitness(rng, multi, weights=None, values=None, reset=False):
    r = rng.random()
    if multi:
        weights = tuple(weights) if weights is not None else (1.0, rng.choice([1.0, -1.0]))
        if values is None and not reset and r < 0.12:
            return MultiObjFitness()
        vals = tuple(values) if values is not None else tuple(rng.choice(DY) for _ in weights)
        f = MultiObjFitness(values=vals, weights=weights)
        if reset or (values is None and r > 0.9):
            del f.values          # invalid again, the explicit weights stay
        return f
    if values is not None:
        return SingleObjFitness(*values)
    if r < 0.15:
        return SingleObjFitness()
    if r < 0.5:
        return SingleObjFitness(rng.choice(DY))
    return SingleObjFitness(rng.choice(DY), rng.choice(DY))


class HEnum(ComparableEnum):
    """enum of the harness whose values are not spelled like the member names (int, float, str values)"""
    three = 3
    half = 0.5
    text = 'some text value'
    other_name = 'three'      # a value that is the NAME of another member


def resolve_meta(x):
    """metadata of a recipe: '@strength:<m>' / '@henum:<m>' / '@enum:<m>' strings stand for enum members"""
    if isinstance(x, dict):
        return {k: resolve_meta(v) for k, v in x.items()}
    if isinstance(x, list):
        return [resolve_meta(v) for v in x]
    if isinstance(x, str) and x.startswith('@strength:'):
        return MutationStrengthEnum[x[10:]]
    if isinstance(x, str) and x.startswith('@henum:'):
        return HEnum[x[7:]]
    if isinstance(x, str) and x.startswith('@enum:'):
        return MutationTypesEnum[x[6:]]
    return x


META_SPECS = [{}, {}, {'k': 1}, {'note': 'x', 'vals': [1, 2.5, None], 'nested': {'a': True}}, {'b': 'text', 'a': 0},
              {'mutation_strength': '@strength:strong', 'mutation_type': '@enum:single_add'},
              {'h': '@henum:three', 'nested': {'list': ['@henum:half', {'deep': '@henum:text'}, '@strength:weak'], 'n': 1}},
              {'alias': '@henum:other_name', 's': '@strength:mean'}]


def mk_meta(rng):
    return resolve_meta(rng.choice(META_SPECS))


def mk_operator(x):
    """operator entry of a recipe: a plain name, '@enum:<member>' (a MutationTypesEnum member) or
    '@func:<module>/<name>' (a function object; saved as a class-path dict)"""
    if isinstance(x, str) and x.startswith('@enum:'):
        from golem.core.optimisers.genetic.operators.base_mutations import MutationTypesEnum
        return MutationTypesEnum[x[6:]]
    if isinstance(x, str) and x.startswith('@func:'):
        m, nm = x[6:].split('/')
        return getattr(importlib.import_module(m), nm)
    return x


SNAP_KINDS = ['tuple', 'gen', 'iter', 'filter', 'map', 'userlist_mutated', 'list_mutated', 'deque_mutated']


def hand_over_snapshot(h, members, kind):
    """add_to_archive_history with the snapshot given as something else than a fresh list (same elements, same order);
    the *_mutated kinds change the caller's own container afterwards: the recorded snapshot must not follow"""
    if kind == 'tuple':
        h.add_to_archive_history(tuple(members))
    elif kind == 'gen':
        h.add_to_archive_history(m for m in members)
    elif kind == 'iter':
        h.add_to_archive_history(iter(members))
    elif kind == 'filter':
        h.add_to_archive_history(filter(lambda m: True, members))
    elif kind == 'map':
        h.add_to_archive_history(map(lambda m: m, members))
    elif kind in ('userlist_mutated', 'list_mutated', 'deque_mutated'):
        box = {'userlist_mutated': collections.UserList, 'list_mutated': list, 'deque_mutated': collections.deque}[kind](members)
        h.add_to_archive_history(box)
        box.reverse()
        box.clear()
    else:
        raise ValueError(kind)


class Synth:
    """builds a history from a JSON-able recipe:
    inds: list of dict(parents=[idx...], op=type or None, graph seed, fitness, meta, ng preset)
    gens: list of dict(members=[idx...], label, meta); snaps: list of [idx...]"""

    def __init__(self, recipe):
        self.recipe = recipe

    def build(self, dump_dir=None, dumps=None, dump_limit=4):
        rc = self.recipe
        rng = random.Random(rc.get('seed', 0))
        multi = bool(rc.get('multi'))
        weights = rc.get('weights')
        inds = []
        for k, spec in enumerate(rc['inds']):
            po = None
            if spec.get('op'):
                ops = [mk_operator(x) for x in spec.get('ops', ['op%d' % (k % 3)])]
                po = ParentOperator(spec['op'], tuple(ops), tuple(inds[p] for p in spec['parents']))
            kw = {}
            if spec.get('ng') is not None:
                kw['native_generation'] = spec['ng']
            if spec.get('uid') is not None:
                kw['uid'] = spec['uid']
            fit = mk_fitness(rng, multi, weights, spec.get('values'), bool(spec.get('reset'))) if spec.get('evaluated', True) \
                else (MultiObjFitness() if multi else SingleObjFitness())
            meta = dict(mk_meta(rng))
            if spec.get('meta') is not None:
                meta = resolve_meta(spec['meta'])
            sub = spec.get('subclass', not multi and rng.random() < 0.12)
            if sub and isinstance(fit, SingleObjFitness) and fit.valid:
                fit = HFitness(*fit.values, analog_gain=rng.choice([None, 0.25]))
            make = h_individual if sub else Individual
            inds.append(make(mk_graph(rng, spec.get('graph')), parent_operator=po, metadata=meta, fitness=fit, **kw))
        objective = ObjectiveInfo(multi, tuple(rc.get('metric_names', ())))
        h = OptHistory(objective, rc.get('save_dir')) if rc.get('objective', True) else OptHistory()
        steps = rc.get('steps')
        given = []
        if steps is None:
            steps = [('g', i) for i in range(len(rc['gens']))] + [('s', i) for i in range(len(rc['snaps']))]
        for kind, i in steps:
            if kind == 'g':
                g = rc['gens'][i]
                h.add_to_history([inds[m] for m in g['members']], g.get('label'), resolve_meta(g.get('meta')))
                if dump_dir is not None:
                    h.save_current_results(dump_dir)
                    collect_dumps(h, dump_dir, dumps, 'synthetic', dump_limit, rc)
                    if rc.get('redump'):
                        # members that were recorded unevaluated get their evaluation result; the generation is dumped again
                        changed = False
                        for ind in h.generations[-1]:
                            if not ind.fitness.valid:
                                ind.set_evaluation_result(mk_fitness(random.Random(7), multi, rc.get('weights'),
                                                                     [1.5] * (len(rc['weights']) if multi and rc.get('weights') else (2 if multi else 1))))
                                changed = True
                        if changed:
                            h.save_current_results(dump_dir)
                            collect_dumps(h, dump_dir, dumps, 'synthetic-redump', dump_limit, rc)
            else:
                members = [inds[m] for m in rc['snaps'][i]]
                kind = (rc.get('snap_kinds') or [])[i:i + 1]
                given.append(list(members))
                if kind and kind[0] != 'list':
                    hand_over_snapshot(h, members, kind[0])
                else:
                    h.add_to_archive_history(members)
        if rc.get('snap_kinds'):
            GIVEN_SNAPS[id(h)] = (h, given)
        if rc.get('tuning'):
            h.tuning_result = mk_graph(random.Random(5))
        return h


def build_with_dumps(rc, directory, dumps):
    """builds the history of a recipe, dumping every generation to `directory` (None: no dumps) and comparing every
    dumped member; 'earlier_run': the directory already holds the dumps of another run (other payloads, same layout)"""
    if directory is not None and rc.get('earlier_run'):
        Synth(dict(rc, seed=rc.get('seed', 0) + 1, redump=False)).build(dump_dir=directory, dumps=[], dump_limit=None)
    return Synth(rc).build(dump_dir=directory, dumps=dumps, dump_limit=None)


def fixed_recipes():
    """the adversarial shapes named by the property"""
    R = []
    R.append(('empty', {'inds': [], 'gens': [], 'snaps': [], 'objective': False}))
    R.append(('zero generations with objective and tuning result',
              {'inds': [], 'gens': [], 'snaps': [], 'multi': True, 'metric_names': ['m1', 'm2'], 'tuning': True, 'save_dir': '/tmp/c10_custom_dir'}))
    R.append(('one empty generation', {'inds': [], 'gens': [{'members': []}], 'snaps': [[]]}))
    R.append(('shared parents',
              {'inds': [{}, {}, {'op': 'crossover', 'parents': [0, 1]}, {'op': 'crossover', 'parents': [0, 1]}, {'op': 'mutation', 'parents': [0]}],
               'gens': [{'members': [0, 1], 'label': 'initial_assumptions'}, {'members': [2, 3, 4]}], 'snaps': [[0], [2, 0]]}))
    R.append(('deep intermediate lineage',
              {'inds': [{}] + [{'op': 'mutation', 'parents': [k], 'evaluated': False} for k in range(0, 12)] + [{'op': 'mutation', 'parents': [12]}],
               'gens': [{'members': [0]}, {'members': [13]}], 'snaps': [[0], [13]]}))
    R.append(('shared intermediate ancestor (diamond without native generation)',
              {'inds': [{}, {'op': 'crossover', 'parents': [0, 0], 'evaluated': False}, {'op': 'mutation', 'parents': [1], 'evaluated': False},
                        {'op': 'mutation', 'parents': [1], 'evaluated': False}, {'op': 'crossover', 'parents': [2, 3]}, {'op': 'mutation', 'parents': [2]}],
               'gens': [{'members': [0]}, {'members': [4, 5]}], 'snaps': [[4]]}))
    R.append(('individual repeated across generations and inside one',
              {'inds': [{}, {'op': 'mutation', 'parents': [0]}],
               'gens': [{'members': [0]}, {'members': [1, 0, 1]}, {'members': [0, 1], 'label': 'final_choices', 'meta': {'why': 'done'}}],
               'snaps': [[0], [1], [1]]}))
    R.append(('multi-objective with labels and metadata',
              {'multi': True, 'metric_names': ['acc', 'size'], 'inds': [{}, {}, {'op': 'crossover', 'parents': [0, 1], 'ops': ['subtree', 'one_point']}],
               'gens': [{'members': [0, 1], 'label': 'initial_assumptions', 'meta': {'t': 1.5, 'tags': ['a', 'b']}}, {'members': [2, 1], 'label': 'evolved'}],
               'snaps': [[0, 1], [2, 1]]}))
    R.append(('archive member that is an intermediate ancestor',
              {'inds': [{}, {'op': 'mutation', 'parents': [0], 'evaluated': False}, {'op': 'mutation', 'parents': [1]}],
               'gens': [{'members': [0]}, {'members': [2]}], 'snaps': [[0], [1, 2]]}))
    R.append(('child listed before its parent',
              {'inds': [{}, {'op': 'mutation', 'parents': [0]}, {'op': 'mutation', 'parents': [1]}, {'op': 'crossover', 'parents': [2, 0]}],
               'gens': [{'members': [3, 2, 1, 0]}], 'snaps': [[3]]}))
    R.append(('archive recorded before the generations',
              {'inds': [{}, {'op': 'mutation', 'parents': [0]}], 'gens': [{'members': [0]}, {'members': [1]}], 'snaps': [[0], [1]],
               'steps': [('g', 0), ('s', 0), ('g', 1), ('s', 1)]}))
    R.insert(4, ('operators recorded as enum members and function objects',
                 {'inds': [{}, {'op': 'mutation', 'parents': [0], 'ops': ['@enum:single_add', '@func:golem.core.log/default_log']},
                           {'op': 'crossover', 'parents': [0, 1], 'ops': ['@func:golem.core.adapter.adapt_registry/register_native',
                                                                          '@func:golem.core.dag.graph_utils/nodes_from_layer',
                                                                          '@func:golem.utilities.data_structures/ensure_wrapped_in_sequence', 'plain']}],
                  'multi': True, 'metric_names': ['a', 'b'],
                  'gens': [{'members': [0]}, {'members': [1, 2]}], 'snaps': [[0], [2]]}))
    R.insert(5, ('multi-objective fitness with explicit weights: negative, zero, fractional; a reset fitness keeping its weights',
                 {'multi': True, 'metric_names': ['rmse', 'size', 'time'], 'weights': [-1.0, 0.0, 0.5],
                  'inds': [{'values': [0.25, 3.0, 1.5]}, {'values': [0.5, 4.0, 2.5]}, {'op': 'mutation', 'parents': [0], 'reset': True},
                           {'op': 'crossover', 'parents': [0, 1], 'values': [0.0, 0.0, -1.0]}],
                  'gens': [{'members': [0, 1], 'label': 'initial_assumptions'}, {'members': [2, 3, 0]}], 'snaps': [[0], [3, 0]]}))
    R.insert(6, ('multi-objective fitness with all weights zero and with large fractional weights',
                 {'multi': True, 'metric_names': ['a', 'b'], 'weights': [0.0, 0.0],
                  'inds': [{'values': [1.5, -1.0]}, {'op': 'mutation', 'parents': [0], 'values': [2.0, 3.25]}],
                  'gens': [{'members': [0]}, {'members': [1]}], 'snaps': [[0], [1]]}))
    R.insert(7, ('metadata of generations and individuals holding enum members whose values differ from their names',
                 {'inds': [{'meta': {'mutation_type': '@enum:single_add'}},
                           {'op': 'mutation', 'parents': [0], 'meta': {'mutation_strength': '@strength:strong', 'h': ['@henum:three', {'x': '@henum:half'}]}},
                           {'op': 'mutation', 'parents': [1], 'evaluated': False, 'meta': {'alias': '@henum:other_name', 't': '@henum:text'}}],
                  'gens': [{'members': [0], 'meta': {'mutation_type': '@enum:simple'}},
                           {'members': [1, 0], 'label': 'evolution', 'meta': {'mutation_strength': '@strength:mean', 'nested': {'l': ['@henum:half', 1]}}}],
                  'snaps': [[0], [1, 2]], 'dump': True}))
    R.insert(7, ('graphs with a non-default postprocess_nodes callback (function, static method) and graph subclasses with extra fields',
                 {'inds': [{'graph': 1}, {'graph': 4}, {'graph': 5, 'op': 'mutation', 'parents': [1]}, {'graph': 6, 'op': 'crossover', 'parents': [0, 1]},
                           {'graph': 7, 'op': 'mutation', 'parents': [3], 'evaluated': False}, {'graph': 4, 'op': 'mutation', 'parents': [4]}],
                  'gens': [{'members': [0, 1]}, {'members': [2, 3, 5]}], 'snaps': [[1], [3, 5]], 'dump': True, 'tuning': True}))
    R.insert(7, ('user subclasses of node, graph, individual and fitness with extra attributes whose names contain "log"',
                 {'inds': [{'graph': 8, 'subclass': True}, {'graph': 6, 'subclass': True, 'op': 'mutation', 'parents': [0]},
                           {'graph': 8, 'op': 'crossover', 'parents': [0, 1]}, {'graph': 1, 'subclass': True, 'op': 'mutation', 'parents': [2], 'evaluated': False}],
                  'gens': [{'members': [0]}, {'members': [1, 2]}], 'snaps': [[0], [2, 3]], 'dump': True}))
    # incremental dumps
    R.insert(7, ('generation listing an individual twice before other members (dumped)',
                 {'inds': [{}, {}, {'op': 'mutation', 'parents': [0]}, {'op': 'crossover', 'parents': [0, 1]}],
                  'gens': [{'members': [0, 1]}, {'members': [0, 2, 0, 3], 'meta': {'strength': '@strength:weak'}}, {'members': [3, 3, 1, 2]}],
                  'snaps': [[0], [2], [3]], 'dump': True}))
    R.insert(8, ('members evaluated after their generation was dumped: the generation is dumped again',
                 {'inds': [{}, {'op': 'mutation', 'parents': [0], 'evaluated': False}, {'op': 'mutation', 'parents': [0], 'evaluated': False},
                           {'op': 'crossover', 'parents': [1, 2], 'evaluated': False}],
                  'gens': [{'members': [0, 1]}, {'members': [2, 1, 3]}], 'snaps': [[0], [1]], 'dump': True, 'redump': True}))
    R.insert(9, ('dumps into a directory that holds an earlier run with the same uids',
                 {'inds': [{'uid': 'fixed-a'}, {'uid': 'fixed-b', 'op': 'mutation', 'parents': [0]}, {'uid': 'fixed-c', 'op': 'mutation', 'parents': [1], 'evaluated': False}],
                  'gens': [{'members': [0]}, {'members': [1, 0, 2]}], 'snaps': [[0], [1]], 'dump': True, 'redump': True, 'earlier_run': True, 'seed': 11}))
    # individuals recorded nowhere but as parents / in the archive
    R.append(('shared parent with native generation that is in no generation',
              {'inds': [{'ng': 0}, {'op': 'mutation', 'parents': [0]}, {'op': 'mutation', 'parents': [0]}],
               'gens': [{'members': [1, 2]}], 'snaps': [[1]]}))
    R.append(('archive member in no generation', {'inds': [{}, {}], 'gens': [{'members': [0]}], 'snaps': [[0, 1]]}))
    R.append(('archive-only member with parents and an ancestor recorded nowhere',
              {'inds': [{}, {'ng': 3}, {'op': 'crossover', 'parents': [0, 1], 'evaluated': False}, {'op': 'mutation', 'parents': [2]},
                        {'op': 'mutation', 'parents': [2]}],
               'gens': [{'members': [0]}], 'snaps': [[0, 3], [4, 3]]}))
    R.append(('only an archive, no generation', {'inds': [{}, {'op': 'mutation', 'parents': [0]}], 'gens': [], 'snaps': [[1]]}))
    # archive snapshots handed over as other containers than a fresh list (round 8)
    for kinds in (['tuple', 'gen', 'list'], ['filter', 'map', 'iter'], ['userlist_mutated', 'list_mutated', 'deque_mutated']):
        R.append(('archive snapshots given as %s' % ' / '.join(kinds),
                  {'inds': [{}, {}, {'op': 'crossover', 'parents': [0, 1]}, {'op': 'mutation', 'parents': [2], 'evaluated': False},
                            {'op': 'mutation', 'parents': [3]}, {}],
                   'gens': [{'members': [0, 1]}, {'members': [2, 4, 0]}], 'snaps': [[1, 0], [2, 3, 0], [4, 5]], 'snap_kinds': kinds,
                   'steps': [('g', 0), ('s', 0), ('g', 1), ('s', 1), ('s', 2)]}))
    # outside the domain of the property (two objects carry one uid): correspondence only
    R.append(('two distinct individuals with one uid (out of domain)',
              {'inds': [{'uid': 'dup'}, {'uid': 'dup'}, {'op': 'mutation', 'parents': [0]}],
               'gens': [{'members': [0]}, {'members': [1, 2]}], 'snaps': [[0], [1]]}))
    return R


def random_recipe(rng):
    n = rng.randrange(1, 14)
    multi = rng.random() < 0.35
    inds, members_of, evaluated = [], [], []
    n_gens = rng.randrange(1, 5)
    gens = [{'members': []} for _ in range(n_gens)]
    for k in range(n):
        spec = {}
        if k and rng.random() < 0.75:
            spec['op'] = rng.choice(['mutation', 'crossover'])
            np_ = 1 if spec['op'] == 'mutation' else rng.choice([1, 2, 2, 3])
            spec['parents'] = [rng.randrange(k) for _ in range(np_)]
            spec['ops'] = [rng.choice(['single_add', 'single_drop', 'subtree', 'one_point'])] * rng.choice([1, 1, 2])
        inter = k and rng.random() < 0.3     # in no generation: an intermediate ancestor, usually not evaluated
        spec['evaluated'] = (not inter) or rng.random() < 0.2
        if inter and rng.random() < 0.2:
            spec['ng'] = rng.randrange(4)    # carries a native generation although no generation lists it
        inds.append(spec)
        if not inter:
            gi = min(n_gens - 1, (k * n_gens) // max(1, n))
            gens[gi]['members'].append(k)
            if rng.random() < 0.25 and gi + 1 < n_gens:
                gens[gi + 1]['members'].append(k)   # survives into the next generation
    # an intermediate individual nobody descends from would be unreachable: harmless
    for g in gens:
        if rng.random() < 0.3:
            g['label'] = rng.choice(['initial_assumptions', 'final_choices', 'custom label'])
        if rng.random() < 0.3:
            g['meta'] = rng.choice([{'n': 1}, {'s': 'x', 'l': [1, 2]}, {'strength': '@strength:mean', 'l': ['@henum:half', {'d': '@henum:three'}]},
                                    {'t': '@henum:text', 'type': '@enum:simple'}])
        rng.shuffle(g['members'])
    snaps = []
    for g in gens:
        if g['members']:
            snaps.append(sorted(set(rng.sample(g['members'], rng.randrange(1, len(g['members']) + 1)))))
        else:
            snaps.append([])
        if rng.random() < 0.2:
            snaps[-1].append(rng.randrange(n))   # an archive member taken from anywhere (possibly in no generation)
    weights = list(rng.choice(WEIGHT_SETS)) if multi else None
    rc = {'seed': rng.randrange(10 ** 6), 'multi': multi, 'weights': weights,
          'metric_names': (['m%d' % i for i in range(len(weights))] if multi else rng.choice([[], ['q']])),
          'inds': inds, 'gens': gens, 'snaps': snaps, 'tuning': rng.random() < 0.2}
    r2 = random.Random(rc['seed'] + 17)    # (own stream: the recipes themselves stay what they were)
    if r2.random() < 0.3:     # some snapshots handed over as a tuple / one-shot iterator / caller-owned container
        rc['snap_kinds'] = [r2.choice(SNAP_KINDS) if r2.random() < 0.6 else 'list' for _ in snaps]
    return rc


# ----------------------------------------------------------------------------------------
# legacy formats
# ----------------------------------------------------------------------------------------
def to_legacy_text(text, plain_lists, variant='sub'):
    """rewrites a current-format save the way an older release wrote it: earlier class paths,
    key `individuals`, key `_is_multi_objective`, optionally generations as plain uid lists"""
    t = json.loads(text)

    def walk(x):
        if isinstance(x, dict):
            if x.get('_class_path') in LEGACY_VARIANTS[variant]:
                x['_class_path'] = LEGACY_VARIANTS[variant][x['_class_path']]
            for v in x.values():
                walk(v)
        elif isinstance(x, list):
            for v in x:
                walk(v)
    walk(t)
    out = {}
    for k, v in t.items():
        if k == '_generations':
            out['individuals'] = [g['data'] for g in v] if plain_lists else v
        elif k == '_objective' and not v['metric_names']:
            out['_is_multi_objective'] = v['is_multi_objective']
        else:
            out[k] = v
    return json.dumps(out, indent=4)


def real_class(path):
    """what Serializer._get_class resolves a class path to (the object), None when it does not resolve"""
    try:
        return Serializer._get_class({'_class_path': path})
    except Exception:
        return None


def observed_class(path):
    return real_class(path)


def import_object(module, qualname):
    try:
        obj = importlib.import_module(module)
        for part in qualname.split('.'):
            obj = getattr(obj, part)
        return obj
    except Exception:
        return None


def q_pairs(items):
    return '[' + ';\n '.join('(%s, %s)' % (c_str(a), c_str(b)) for a, b in items) + ']'


def check_legacy_tables(ctx):
    import re
    cls = list(ser_mod.LEGACY_CLASS_PATHS.items())
    mods = list(ser_mod.LEGACY_MODULE_PATHS.items())
    paths = [k for k, _ in cls] + [v for _, v in cls] + [l for v in LEGACY_VARIANTS.values() for l in v.values()] + [
        'fedot.core.optimisers.gp_comp.operators.mutation/Mutation', 'fedot.core.dag.graph/Graph',
        'fedot.core.optimisers.graph/OptNode', 'fedot.core.utilities.data_structures/UniqueList',
        'fedot.core.log/default_log', 'fedot.core.adapter.adapter/IdentityAdapter',
        'golem.core.optimisers.graph/OptGraph', 'fedot.core.dag.fedot.core.dag/X', 'no_such_module/Thing']
    paths = list(dict.fromkeys(paths))
    # the model's resolution, evaluated by Coq; the objects are then compared by identity
    term = ('List.map (fun p => match resolve_class_path p with Some (m, c) => (m ++ "|" ++ c)%%string | None => "NONE"%%string end) [%s]'
            % '; '.join(c_str(p) for p in paths))
    txt = ctx.coq_print(REQ, term)
    answers = re.findall(r'"([^"]*)"', txt.split('     : ')[0])
    if len(answers) != len(paths):
        raise CoqEvalError('cannot read the model resolution of the class paths: %s' % txt[-600:])
    alias_of = {l: c for v in LEGACY_VARIANTS.values() for c, l in v.items()}
    for p, ans in zip(paths, answers):
        real = real_class(p)
        model = None
        if ans != 'NONE' and '|' in ans:
            model = import_object(*ans.split('|', 1))
        if p in alias_of and (model is None or model is not import_object(*alias_of[p].split('/'))):
            # the driver's own table of earlier names must be right according to the model
            ctx.disagree('legacy-paths', {'path': p, 'current': alias_of[p], 'model': ans},
                         'alias table of the driver: the earlier path does not denote the current class')
        if p in alias_of and real is None:
            ctx.violate('legacy-paths', {'path': p, 'current': alias_of[p]},
                        'a class path written by an earlier release does not resolve: the object stays a plain dict')
        ctx.count('legacy-paths', key=p, nontrivial=p.startswith('fedot'), kind=('legacy' if p.startswith('fedot') else 'current'),
                  resolves=real is not None)
        if real is not model:
            ctx.disagree('legacy-paths', {'path': p, 'model': ans, 'real': repr(real)},
                         'Serializer._get_class resolves the path differently from the model')
        if p in ser_mod.LEGACY_CLASS_PATHS and real is None:
            ctx.violate('legacy-paths', {'path': p}, 'a key of LEGACY_CLASS_PATHS does not resolve to an existing class')
    # tables of the implementation = tables of the model; canary: a permuted table must be rejected
    pre = 'Definition obs_cls := %s.\nDefinition obs_mods := %s.\n' % (q_pairs(cls), q_pairs(mods))
    ctx.canaries += 1
    res = ctx.coq_cases('legacy-tables', REQ, 'fun c : bool => [if c then tables_agree obs_cls obs_mods else tables_agree obs_cls (List.rev obs_mods)]',
                        ['true', 'false'], 1, preamble=pre)
    if res[1][0] is False:
        ctx.canaries_caught += 1
    ctx.count('legacy-tables', key='tables', nontrivial=True)
    if not res[0][0]:
        ctx.disagree('legacy-tables', {'class_paths': cls, 'module_paths': mods}, 'the legacy tables of serializer.py differ from the tables of the model')
    # every target of the tables exists in the tree under test
    for old, new in mods:
        try:
            importlib.import_module(new)
        except Exception as ex:
            ctx.violate('legacy-paths', {'module': new, 'legacy': old},
                        'target of LEGACY_MODULE_PATHS is not importable (%s): classes saved under %s.* are not restored' % (ex, old))
    for old, new in cls:
        m, c = new.split('/')
        if import_object(m, c) is None:
            ctx.violate('legacy-paths', {'class': new, 'legacy': old}, 'target of LEGACY_CLASS_PATHS does not exist')
    # what the model calls the current classes / modules exists in the tree under test
    txt = ctx.coq_print(REQ, '(CURRENT_MODULES, List.map (fun p => (fst p ++ "|" ++ snd p)%string) CURRENT_OBJECTS)')
    names = re.findall(r'"([^"]*)"', txt.split('     : ')[0])
    if len(names) < 10:
        raise CoqEvalError('cannot read the current modules / objects of the model: %s' % txt[-400:])
    for nm in names:
        ok = import_object(*nm.split('|', 1)) is not None if '|' in nm else _importable(nm)
        ctx.count('legacy-paths', key='current ' + nm, nontrivial=False, kind='model-current')
        if not ok:
            ctx.disagree('legacy-paths', {'name': nm}, 'the model lists it as a current module / class but it does not exist in the tree')


def _importable(module):
    try:
        importlib.import_module(module)
        return True
    except Exception:
        return False


# ----------------------------------------------------------------------------------------
# the run
# ----------------------------------------------------------------------------------------
def non_trivial(o):
    return len(o['json']['pool']) >= 2 and any(r['op'] for r in o['json']['pool'])


def evaluate(ctx, group, items):
    """items: list of (desc, case_json, obs).  Coq evaluation + bookkeeping."""
    if not items:
        return
    cases = [q_obs(o) for _, _, o in items]
    res = ctx.coq_cases(group, REQ, FN, cases, 3, shard=6, preamble=PRE)
    for (desc, case, o), (ag, ho, guard) in zip(items, res):
        s = summary(o, desc)
        ctx.count(group, key=json.dumps(case, sort_keys=True, default=str), nontrivial=non_trivial(o), in_guard=guard,
                  intermediate=min(s['intermediate'], 5), generations=min(len(o['mem']['gens']), 8),
                  multi=o['mem']['obj']['multi'])
        vc = dict(case, summary=s) if isinstance(case, dict) and ('legacy_variant' in case or 'extend_seed' in case or 'plugin_sequence' in case) else {'recipe': case, 'summary': s}
        if not ag:
            ctx.disagree(group, vc, 'model and implementation differ (encode / decode / re-encode)')
        if not ho and guard:
            # (outside the guard - two live objects with one uid, uid strings as parents - the property does not apply)
            ctx.violate(group, vc, 'round trip does not preserve the history: ' + (
                s['fitness_detail'] if not o['fitness_ok'] else (
                    ('saving the loaded history raises ' + o['resave_raised']) if o.get('resave_raised') else
                    ('re-saved text differs' if not o['text_equal'] else 'content or sharing differs'))))
    return res


def evaluate_dumps(ctx, dumps):
    good = [d for d in dumps if 'heap' in d]
    for d in dumps:
        if 'missing' in d:
            ctx.violate('dumps', d, 'individual of the last generation was not dumped to history_dir/<gen>/<uid>/<uid>.json')
        elif 'shape' in d:
            ctx.disagree('dumps', d, 'dump file has an unexpected shape')
        elif 'raised' in d:
            ctx.violate('dumps', d, 'dumped individual does not load back: %s' % d['raised'])
    if not good:
        return
    cases = [q_dump(d) for d in good]
    # canary: a dump whose loaded uid is wrong
    bad = json.loads(json.dumps(good[0]))
    bad['loaded']['uid'] += 1
    cases.append(q_dump(bad))
    ctx.canaries += 1
    res = ctx.coq_cases('dumps', REQ, DUMP_FN, cases, 2, shard=60, preamble=PRE)
    if res[-1] == (False, False):
        ctx.canaries_caught += 1
    for d, (ag, ho) in zip(good, res[:-1]):
        ctx.count('dumps', key=json.dumps([d['file'], d['desc']], sort_keys=True), nontrivial=d['file']['op'] is not None,
                  has_parents=d['file']['op'] is not None, source=d['desc'].split(' ')[0])
        case = {'desc': d['desc'], 'file': d['file'], 'loaded': d['loaded'], 'recipe': d.get('recipe')}
        if not ag:
            ctx.disagree('dumps', case, 'dumped individual differs from the model encoding / decoding')
        if not ho:
            ctx.violate('dumps', case, 'individual loaded from its dump differs from the in-memory individual')


def run(ctx):
    ctx.rule = ('one case = one history taken through save -> load -> save; (a) histories of real runs of the five optimiser '
                'classes over random configurations, (b) synthetic histories built with OptHistory / Individual / ParentOperator / '
                'add_to_history / add_to_archive_history: the fixed adversarial shapes (empty, zero generations, shared parents, deep '
                'and shared intermediate lineage, repeated individuals, multi-objective, labels, metadata, archive of intermediates, '
                'parents and archive members recorded in no generation) and random lineage DAGs, (c) the stored legacy files and current saves rewritten to the earlier '
                'class paths / keys / plain-list generations, (d) continuation: a loaded history extended through add_to_history / add_to_archive_history with new individuals and taken through a second round trip; plus every individual dump written during (a) and (b), plus the legacy '
                'path tables; distinct = distinct configuration / recipe / file; non-trivial = pool of at least 2 individuals with a parent link')
    ctx.trusted_extra = [
        'json.dumps / json.loads between JSON trees and text (the model works on trees; the driver also compares the texts)',
        'payloads passed through by the history codec (fitness, graph, metadata, operator names) are opaque tokens in the model; '
        'the driver canonicalises them independently on the object side and on the JSON side (graph codec itself: C11)',
        'python recursion depth is a budget parameter of the model (400 in the correspondence)',
        'export of live histories follows parent_operator links by object identity (id())']
    rng = ctx.rng
    dumps = []
    dump_limit = ctx.pick(3, 4)

    # ---- (a) real runs
    items = []
    n_real = ctx.budget(12, 90)
    kinds = list(optrun.OPTIMISERS)
    for i in range(n_real):
        cfg = optrun.random_config(rng, optimiser=kinds[i % len(kinds)])
        cfg['num_of_generations'] = min(cfg['num_of_generations'], 4)
        cfg['pop_size'] = min(cfg['pop_size'], 6)
        try:
            h = real_history(cfg, dumps, dump_limit)
            o = observe(h)
        except ShapeError as ex:
            ctx.disagree('real-runs', {'cfg': cfg}, 'unexpected shape: %s' % ex)
            continue
        except ImplRaised as ex:
            ctx.violate('real-runs', {'recipe': cfg}, 'history of a real run: %s' % ex)
            continue
        items.append(('real run %s' % cfg['optimiser'], cfg, o))
        if i < 2:
            ctx.sample(summary(o, 'real run %s' % cfg['optimiser']))
        # light save of the same history: the model's lighten + encode
        if i % 3 == 0:
            light_case(ctx, h, cfg)
    real_items = list(items)
    evaluate(ctx, 'real-runs', items)

    # ---- (b) synthetic
    items = []
    tmp = tempfile.mkdtemp(prefix='c10_syn_')
    try:
        recipes = fixed_recipes()
        n_rand = ctx.budget(22, 280)
        for k in range(n_rand):
            recipes.append(('random lineage', random_recipe(rng)))
        for k, (desc, rc) in enumerate(recipes):
            d = os.path.join(tmp, str(k))
            try:
                h = build_with_dumps(rc, d if (k % 2 == 0 or rc.get('dump')) else None, dumps)
                o = observe(h)
            except ShapeError as ex:
                ctx.disagree('synthetic', {'recipe': rc}, 'unexpected shape: %s' % ex)
                continue
            except ImplRaised as ex:
                if 'out of domain' not in desc:
                    ctx.violate('synthetic', {'recipe': rc, 'desc': desc}, 'synthetic history: %s' % ex)
                continue
            items.append((desc, rc, o))
            if desc.startswith('deep') or desc.startswith('shared parent with'):
                ctx.sample(summary(o, desc))
        syn_items = list(items)
        # canary: a loaded history in which one individual lost its native generation
        bad = None
        for desc, rc, o in items:
            if any(r['ng'] is not None for r in o['loaded']['heap']):
                bad = json.loads(json.dumps({k: v for k, v in o.items() if not k.startswith('_') and k != 'mem' and k != 'loaded'}))
                bad['mem'] = {k: v for k, v in o['mem'].items() if k != '_objects'}
                bad['loaded'] = json.loads(json.dumps({k: v for k, v in o['loaded'].items() if k != '_objects'}))
                r = next(r for r in bad['loaded']['heap'] if r['ng'] is not None)
                r['ng'] = None
                break
        res = evaluate(ctx, 'synthetic', items)
        if bad is not None:
            ctx.canaries += 1
            r = ctx.coq_cases('synthetic-canary', REQ, FN, [q_obs(bad)], 3, preamble=PRE)
            if r[0][0] is False and r[0][1] is False:
                ctx.canaries_caught += 1
    finally:
        shutil.rmtree(tmp, ignore_errors=True)

    # ---- (c) legacy
    items = []
    for fn in ['test_history.json', 'zero_gen_history.json', 'external_history_composite_bn_healthcare.json']:
        path = os.path.join(REPO, 'test', 'data', fn)
        if fn.startswith('external') and ctx.tier == 'quick' and ctx.scale == 1 and False:
            continue
        try:
            with open(path) as f:
                text = f.read()
            h = OptHistory.load(text)
            o = observe(h, pre_text=text)
        except TypeViolation as ex:
            ctx.violate('legacy', {'file': fn}, 'stored legacy history is not restored: %s' % ex)
            continue
        except ShapeError as ex:
            ctx.disagree('legacy', {'file': fn}, 'unexpected shape: %s' % ex)
            continue
        except ImplRaised as ex:
            ctx.violate('legacy', {'file': fn}, 'history loaded from the stored file: %s' % ex)
            continue
        except Exception as ex:
            ctx.violate('legacy', {'file': fn}, 'stored legacy history does not load: %s: %s' % (type(ex).__name__, ex))
            continue
        items.append(('legacy file ' + fn, {'file': fn}, o))
    # current saves rewritten to what earlier releases wrote, under both families of earlier class paths
    pick = [it for it in (real_items[:ctx.pick(3, 16)] + syn_items[:ctx.pick(9, 40)])]
    k = 0
    for desc, case, o0 in pick:
        for variant in ('sub', 'direct'):
            k += 1
            it = legacy_rewritten_case(ctx, desc, case, o0, variant, plain=(k % 3 == 0))
            if it is not None:
                items.append(it)
    evaluate(ctx, 'legacy', items)
    if items:
        ctx.sample(summary(items[0][2], items[0][0]))

    # ---- (d) continuation: the loaded history is extended and taken through a second round trip
    items = []
    pick = real_items[:ctx.pick(4, 30)] + syn_items[:ctx.pick(14, 120)]
    for k, (desc, case, o0) in enumerate(pick):
        it = continuation_case(ctx, desc, case, o0, rng.randrange(10 ** 6))
        if it is not None:
            items.append(it)
    evaluate(ctx, 'continuation', items)
    if items:
        ctx.sample(summary(items[-1][2], items[-1][0]))

    # ---- (e) one text loaded repeatedly while the module of its node class goes away and comes back
    items = []
    for k in range(ctx.budget(2, 6)):
        items.extend(plugin_sequence(ctx, rng.randrange(10 ** 6)))
    evaluate(ctx, 'plugin-reload', items)

    evaluate_dumps(ctx, dumps)
    check_legacy_tables(ctx)


def extend_history(h, seed):
    """continues a (loaded) history through the public API: 1-2 new generations / archive snapshots holding new
    individuals (children of individuals already in the history, of each other, fresh ones) and old ones"""
    rng = random.Random(seed)
    old, seen = [], set()
    for grp in list(h.generations) + list(h.archive_history):
        for i in grp:
            if id(i) not in seen:
                seen.add(id(i))
                old.append(i)
    multi = bool(h.objective.is_multi_objective)

    def new_ind(pool):
        po = None
        if pool and rng.random() < 0.75:
            if len(pool) < 2 or rng.random() < 0.5:
                po = ParentOperator('mutation', ('ext_mutation',), (rng.choice(pool),))
            else:
                po = ParentOperator('crossover', ('ext_crossover',), tuple(rng.sample(pool, 2)))
        return Individual(mk_graph(rng), parent_operator=po, metadata=dict(mk_meta(rng)), fitness=mk_fitness(rng, multi))
    new = []
    for _ in range(rng.randrange(1, 4)):
        new.append(new_ind(old + new))
    members = list(new) + ([rng.choice(old)] if old and rng.random() < 0.5 else [])
    h.add_to_history(members, rng.choice([None, 'continued']), rng.choice([None, {'round': 2}]))
    h.add_to_archive_history([rng.choice(members)] + ([rng.choice(old)] if old and rng.random() < 0.3 else []))
    if rng.random() < 0.5:
        hidden = new_ind(old + new)                  # an ancestor recorded in no generation
        late = Individual(mk_graph(rng), parent_operator=ParentOperator('mutation', ('ext_mutation',), (hidden,)),
                          fitness=mk_fitness(rng, multi))
        if rng.random() < 0.5:
            h.add_to_history([late, rng.choice(new)])
        h.add_to_archive_history([late])
    return h


def continuation_case(ctx, desc, case, o0, seed):
    """save -> load -> EXTEND the loaded history -> save -> load -> save: the whole property on the second round trip"""
    ident = {'recipe': case, 'extend_seed': seed}
    try:
        h = extend_history(o0['_loaded_history'], seed)
        o = observe(h)
    except TypeViolation as ex:
        ctx.violate('continuation', ident, 'continued history is not restored: %s' % ex)
        return None
    except ShapeError as ex:
        ctx.disagree('continuation', ident, 'unexpected shape: %s' % ex)
        return None
    except ImplRaised as ex:
        ctx.violate('continuation', ident, 'history continued after loading: %s' % ex)
        return None
    return ('continued after load: ' + desc, ident, o)


PLUGIN_SOURCE = '''
from golem.core.optimisers.graph import OptNode


class PluginNode(OptNode):
    """domain node of a plug-in module"""

    def gain(self):
        return self.content.get('params', {}).get('gain', 1.0)
'''


def plugin_sequence(ctx, seed):
    """one saved text loaded repeatedly in this process: first while the module defining its node class is NOT
    importable (documented fallback: nodes become LinkedGraphNode), then with the module importable again.
    Every load is judged on its own: the fallback load as a history in its own right (its re-save / re-load),
    the later load against the history that was saved.  -> list of (desc, ident, obs)"""
    import sys
    rng = random.Random(seed)
    name = 'c10_plugin_%d_%d' % (os.getpid(), seed)
    tmp = tempfile.mkdtemp(prefix='c10_plugin_')
    ident = {'plugin_sequence': seed}
    items = []

    def install():
        sys.path.insert(0, tmp)
        importlib.invalidate_caches()
        _RESOLVABLE.clear()
        return importlib.import_module(name)

    def uninstall():
        if tmp in sys.path:
            sys.path.remove(tmp)
        sys.modules.pop(name, None)
        importlib.invalidate_caches()
        _RESOLVABLE.clear()
    try:
        with open(os.path.join(tmp, name + '.py'), 'w') as f:
            f.write(PLUGIN_SOURCE)
        mod = install()

        def g(tag):
            first = mod.PluginNode({'name': tag + '_in', 'params': {'gain': 0.5}})
            return OptGraph([mod.PluginNode({'name': tag + '_out', 'params': {'gain': 2.0}}, nodes_from=[first]), first])
        h = OptHistory(ObjectiveInfo(False, ('loss',)))
        a = Individual(g('a'), fitness=SingleObjFitness(rng.choice(DY)))
        b = Individual(g('b'), fitness=SingleObjFitness(rng.choice(DY)))
        h.add_to_history([a, b], 'initial_assumptions')
        h.add_to_archive_history([a])
        c = Individual(g('c'), parent_operator=ParentOperator('mutation', ('single_change',), (a,)), fitness=SingleObjFitness(rng.choice(DY)))
        h.add_to_history([c, a])
        h.add_to_archive_history([c])
        text = h.save()
        for round_no in range(2):
            # the module is not importable: the text loads with the fallback node class
            uninstall()
            try:
                fallback = OptHistory.load(text)
                o = observe(fallback, pre_text=text)
                items.append(('plug-in module not importable (load %d)' % (2 * round_no + 1), dict(ident, load=2 * round_no + 1), o))
            except (TypeViolation, ImplRaised) as ex:
                ctx.violate('plugin-reload', dict(ident, load=2 * round_no + 1), 'load without the plug-in module: %s' % ex)
            # the module is importable again: the same text must come back with the saved node class
            mod2 = install()
            try:
                o = observe(h)
                o['text_equal'] = o['text_equal'] and o['text'] == text
                if o['fitness_ok'] and not all(hasattr(n, 'gain') for i in o['loaded']['_objects'] for n in i.graph.nodes):
                    o['fitness_ok'], o['fitness_detail'] = False, 'nodes of the loaded graphs are not of the saved (plug-in) class'
                items.append(('plug-in module importable again (load %d)' % (2 * round_no + 2), dict(ident, load=2 * round_no + 2), o))
            except (TypeViolation, ImplRaised) as ex:
                ctx.violate('plugin-reload', dict(ident, load=2 * round_no + 2), 'load with the plug-in module importable: %s' % ex)
    finally:
        uninstall()
        shutil.rmtree(tmp, ignore_errors=True)
    return items


def legacy_rewritten_case(ctx, desc, case, o0, variant, plain):
    """the current-format save o0['text'] rewritten to an earlier format -> load -> the usual chain.  The objects
    must come back with their types (not as dicts) and the re-saved text must be the current-format original."""
    mem = o0['mem']
    if plain and (any(g['label'] or g['meta'] for g in mem['gens']) or [g['num'] for g in mem['gens']] != list(range(len(mem['gens'])))):
        plain = False
    ltext = to_legacy_text(o0['text'], plain, variant)
    ident = {'recipe': case, 'legacy_variant': variant, 'plain': plain}
    try:
        h = OptHistory.load(ltext)
        if not isinstance(h, OptHistory):
            raise TypeViolation('load returned %s, not an OptHistory' % type(h).__name__)
        o = observe(h, pre_text=ltext)
    except TypeViolation as ex:
        ctx.violate('legacy', ident, 'history written under earlier class paths (%s) is not restored: %s' % (variant, ex))
        return None
    except ShapeError as ex:
        ctx.disagree('legacy', ident, 'unexpected shape: %s' % ex)
        return None
    except ImplRaised as ex:
        ctx.violate('legacy', ident, 'history loaded from the earlier format (%s): %s' % (variant, ex))
        return None
    except Exception as ex:
        ctx.violate('legacy', ident, 'history written under earlier class paths (%s) does not load: %s: %s' % (variant, type(ex).__name__, ex))
        return None
    # a history that came through the legacy path must be saved exactly as the current-format original
    o['text_equal'] = o['text_equal'] and (o['text'] == o0['text'])
    return ('rewritten to legacy (%s paths, %s): %s' % (variant, 'plain lists' if plain else 'Generation objects', desc), ident, o)


def light_case(ctx, h, cfg):
    tok = Tok()
    try:
        mem = export_hist(h, tok)
        e = parse_ehist(h.save(is_save_light=True), tok)
    except ShapeError as ex:
        ctx.disagree('light', {'cfg': cfg}, 'unexpected shape: %s' % ex)
        return
    res = ctx.coq_cases('light', REQ, 'fun c => [light_agree %s (fst c) (snd c)]' % qn(DEPTH), ['(%s, %s)' % (q_hist(mem), q_ehist(e))], 1, preamble=PRE)
    ctx.count('light', key=json.dumps(cfg, sort_keys=True), nontrivial=len(mem['heap']) > 1)
    if not res[0][0]:
        ctx.disagree('light', {'cfg': cfg}, 'light save differs from the model (lighten + encode)')


def replay(ctx, payload):
    v = payload.get('violation') or payload.get('first_disagreement') or payload
    case = (v.get('case') or {}) if isinstance(v, dict) else {}
    if case.get('plugin_sequence') is not None:
        evaluate(ctx, 'replay', plugin_sequence(ctx, case['plugin_sequence']))
        return
    rc = case.get('recipe')
    if not isinstance(rc, dict):
        return
    if 'inds' in rc:
        tmp = tempfile.mkdtemp(prefix='c10_replay_')
        try:
            dumps = []
            h = build_with_dumps(rc, tmp, dumps)
            evaluate_dumps(ctx, dumps)
        finally:
            shutil.rmtree(tmp, ignore_errors=True)
    elif 'optimiser' in rc:
        h = real_history(rc, [], 0)
    else:
        return
    try:
        o = observe(h)
    except ImplRaised as ex:
        ctx.count('replay', key=json.dumps(rc, sort_keys=True), nontrivial=True)
        ctx.violate('replay', {'recipe': rc}, 'replayed history: %s' % ex)
        return
    if case.get('extend_seed') is not None:
        it = continuation_case(ctx, 'replay', rc, o, case['extend_seed'])
        if it is not None:
            evaluate(ctx, 'replay', [it])
        return
    if case.get('legacy_variant'):
        it = legacy_rewritten_case(ctx, 'replay', rc, o, case['legacy_variant'], bool(case.get('plain')))
        if it is not None:
            evaluate(ctx, 'replay', [it])
        return
    evaluate(ctx, 'replay', [('replay', rc, o)])
