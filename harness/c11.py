"""C11 - graphs and individuals survive JSON round-trips in content and behaviour.

Implementation: golem.serializers.serializer.Serializer (json.dumps(obj, cls=Serializer) /
json.loads(text, cls=Serializer)), Individual.save / Individual.load, the coders under
golem/serializers/coders, LinkedGraphNode, LinkedGraph / OptGraph editing methods.
Model: coq/theories/Serial/{Json,GraphCodec}.v (save_graph / load_graph / save_individual /
load_individual / run_op; agree_* / holds_*).

Groups
  graphs      one round trip of a graph: snapshot, save, snapshot, load, compare, save again
  individuals the same for Individual objects (fitness, metadata, parent operator)
  json-load   hand-edited JSON (unknown parent uid, duplicated uid / parent, legacy class path,
              `nodes` key ...): model decoder against the real one (the property is silent there)
  lockstep    random editing sequences applied to the original and to the loaded copy
"""
import copy
import enum
import json
import math
import numbers as numbers_abc

from common import c_Q, c_bool, c_list, c_opt, c_str, c_Z

from golem.core.dag.graph import ReconnectType
from golem.core.dag.linked_graph import LinkedGraph
from golem.core.log import default_log
from golem.core.optimisers.genetic.operators.base_mutations import MutationStrengthEnum, MutationTypesEnum
from golem.core.optimisers.fitness import MultiObjFitness, SingleObjFitness
from golem.core.optimisers.graph import OptGraph, OptNode
from golem.core.optimisers.opt_history_objects.individual import Individual
from golem.core.optimisers.opt_history_objects.parent_operator import ParentOperator
from golem.serializers.serializer import Serializer
from golem.utilities.data_structures import ComparableEnum, UniqueList

REQ = ['Serial.GraphCodec']

FN_GRAPH = 'fun c => match c with (h, g, o) => agree_graph h g o :: holds_graph h g o end'
K_GRAPH = 5
FN_IND = 'fun c => match c with (h, i, o) => agree_ind h i o :: holds_ind h i o end'
K_IND = 6
FN_LOCK = ('fun c => match c with (vo, vl, steps, meta_same) => '
           '[agree_lock (Some vo) (Some vl) steps; holds_lock vo vl steps && meta_same] end')

GRAPH_CLAUSES = ['the saved graph was changed by saving',
                 'the loaded graph differs from the saved one (uids / names / parameters / parent order / '
                 'container kind / shared objects)',
                 'structural identifier or graph equality differs after the round trip',
                 'saving the loaded graph does not reproduce the same JSON']
IND_CLAUSES = ['the saved individual (or its graph) was changed by saving',
               'the loaded individual differs from the saved one (uid / fitness values / metadata / native '
               'generation / parent operator description / graph)',
               'the loaded fitness does not behave like the original one (comparison or hash raises / differs)',
               'structural identifier of the graph differs after the round trip',
               'saving the loaded individual does not reproduce the same JSON']


# ------------------------------------------------------------------------------------------
# python value -> Coq json term
# ------------------------------------------------------------------------------------------
# frequent strings are printed as Coq constants (defined in the model / in PRE): elaborating string
# literals dominates the cost of a case file
CONST = {
    '_class_path': 'CP', 'golem.core.dag.linked_graph_node/LinkedGraphNode': 'node_path',
    'golem.core.dag.linked_graph/LinkedGraph': 'linked_path',
    'golem.core.dag.graph_delegate/GraphDelegate': 'delegate_path',
    'golem.core.dag.linked_graph/LinkedGraph._empty_postprocess': 'postproc_path',
    'golem.core.optimisers.opt_history_objects.individual/Individual': 'individual_path',
    'golem.core.optimisers.opt_history_objects.parent_operator/ParentOperator': 'parent_op_path',
    'golem.core.optimisers.fitness.fitness/SingleObjFitness': 'single_fit_path',
    'golem.core.optimisers.fitness.multi_objective_fitness/MultiObjFitness': 'multi_fit_path',
}
KEYS = ['_nodes_from', 'content', 'uid', '_nodes', '_postprocess_nodes', 'operator', 'name', 'params', 'fitness',
        'graph', 'metadata', 'native_generation', 'parent_operator', 'operators', 'parent_individuals', 'type_',
        '_values', '_weights', 'wvalues', 'extra', 'three', 'computation_time_in_seconds', 'evaluation',
        'scaling', 'mutation', 'crossover', 'single_add', 'single_drop', 'one_point', 'subtree', 'selection',
        '', 'a', 'b', 'c', 'op', 'n', 'x y', '7', '0', '3', '-12', '1050', 'True', 'None', 'two', 'x', 'y', 'z', 'q', 'k', 'm',
        'w', 'lr', 'depth', 'flag', 'note', 'ok', 'dup', 'nobody', 'nobody-else', 'simple', 'm1', 'm2', 'p',
        '#Infinity#', '#-Infinity#', '#NaN#', 'limit', 'lo', 'deep', 'u', 'hi', 'penalty', 'bound', 'gap'] + \
    ['n%d' % i for i in range(8)] + ['FRESH%d' % i for i in range(4)]
for _i, _k in enumerate(KEYS):
    CONST[_k] = 'k%d_' % _i
PRE_BASE = ('From GolemV Require Import Serial.Json.\nLocal Open Scope nat_scope.\n' +
            '\n'.join('Definition k%d_ : string := %s.' % (i, c_str(k)) for i, k in enumerate(KEYS)) +
            '\nDefinition jn_ (us : list json) (c : list (string * json)) (u : string) : json := '
            'JObj [(k0_, JArr us); (k1_, JObj c); (k2_, JStr u); (CP, JStr node_path)].\n')
GLOBAL = {}      # json.dumps(value) -> name of a Coq constant holding the value (pools of params / metadata)


TOKENS = {'Infinity': '#Infinity#', '-Infinity': '#-Infinity#', 'NaN': '#NaN#'}


def tok(x):
    """reserved string for a non-finite float (nan equals nan, infinities by sign); None for other values"""
    if isinstance(x, float) and not isinstance(x, bool):
        if x != x:
            return TOKENS['NaN']
        if x in (math.inf, -math.inf):
            return TOKENS['Infinity'] if x > 0 else TOKENS['-Infinity']
    return None


def canon_value(v):
    """deep copy of a JSON-like value with every non-finite float replaced by its token"""
    if isinstance(v, dict):
        return {k: canon_value(x) for k, x in v.items()}
    if isinstance(v, (list, tuple)):
        return type(v)(canon_value(x) for x in v)
    if isinstance(v, enum.Enum) and not isinstance(v, str):
        # round 8: an enum member (ComparableEnum: metadata, ParentOperator.operators, node params) is shown to the
        # model as the JSON object its coder is specified to write - the member's VALUE and the class path, both
        # computed here from the member itself (not taken from the implementation's output)
        return {'value': canon_value(v.value), '_class_path': '%s/%s' % (type(v).__module__, type(v).__qualname__)}
    t = tok(v)
    return v if t is None else t


CUR = [None]


def eval_cases(ctx, group, fn, cases, k, per_shard=100, parallel=6):
    """coqc elaborates a case list in super-linear time: small shards, a few at a time"""
    out = []
    step = per_shard * parallel
    for i in range(0, len(cases), step):
        out.extend(ctx.coq_cases(group, REQ, fn, cases[i:i + step], k, shard=per_shard, preamble=PRE))
    return out


class Em:
    """collects `let` bindings for sub-terms that occur more than once in a case (every string
    literal is bound once: interpreting a string literal is the most expensive step for coqc)"""

    def __init__(self):
        self.names = {}
        self.order = []
        CUR[0] = self

    def sh(self, term, always=False):
        if len(term) <= 28 and not always:
            return term
        name = self.names.get(term)
        if name is None:
            name = 'z%d_' % len(self.names)
            self.names[term] = name
            self.order.append((name, term))
        return name

    def wrap(self, body):
        return '(%s %s)' % (' '.join('let %s := %s in' % (n, t) for n, t in self.order), body)


def cs(s):
    return CONST.get(s) or CUR[0].sh(c_str(s), always=True)


NODE_KEYS = ['_nodes_from', 'content', 'uid', '_class_path']


def c_json(v, em):
    if v is None:
        return 'JNull'
    if v is True or v is False:
        return '(JBool %s)' % c_bool(v)
    if tok(v) is not None:
        return '(JStr %s)' % cs(tok(v))
    if isinstance(v, (int, float)):
        return '(JNum %s)' % c_Q(v)
    if isinstance(v, str):
        return '(JStr %s)' % cs(v)
    if isinstance(v, (list, tuple, dict)) and len(v) > 0 and GLOBAL:
        g = GLOBAL.get(json.dumps(v))
        if g:
            return g
    if isinstance(v, (list, tuple)):
        return em.sh('(JArr %s)' % c_list([c_json(x, em) for x in v], 'json'))
    if isinstance(v, dict):
        if (list(v.keys()) == NODE_KEYS and v['_class_path'] == 'golem.core.dag.linked_graph_node/LinkedGraphNode'
                and isinstance(v['_nodes_from'], list) and isinstance(v['content'], dict) and isinstance(v['uid'], str)):
            # abbreviation expanded by Coq (jn_ in the preamble)
            return em.sh('(jn_ %s %s %s)' % (c_list([c_json(x, em) for x in v['_nodes_from']], 'json'),
                                             c_kv(v['content'], em), cs(v['uid'])))
        return em.sh('(JObj %s)' % c_kv(v, em))
    raise TypeError('not a JSON-like value: %r' % (v,))


def c_kv(d, em):
    for k in d:
        assert isinstance(k, str), k
    return em.sh(c_list(['(%s, %s)' % (cs(k), c_json(x, em)) for k, x in d.items()], '(string * json)'))


def c_nats(l):
    return c_list([str(int(x)) for x in l], 'nat')


def c_cell(cell, em):
    if cell is None:
        return 'NoneObj'
    uid, content, parents, uniq = cell
    return em.sh('(Obj (mkNode %s %s %s %s))' % (cs(uid), c_kv(content, em), c_nats(parents), c_bool(uniq)))


def c_heap(cells, em):
    return em.sh(c_list([c_cell(c, em) for c in cells], 'cell'))


def c_graph(kind, refs):
    return '(mkGraph %s %s)' % ('GDelegate' if kind == 'opt' else 'GLinked', c_nats(refs))


def c_ojson(tree, em):
    return '(@None json)' if tree is None else '(Some %s)' % c_json(tree, em)


# ------------------------------------------------------------------------------------------
# building graphs from specs
# ------------------------------------------------------------------------------------------
PARAMS = [None, {}, {'a': 1}, {'x': 0.5, 'y': {'z': [1, 2.5, 'q', None, True]}}, {'k': {'m': {'n': -3}}, 'w': []},
          {'lr': 0.125, 'depth': 7, 'flag': False},
          {'limit': math.inf}, {'lo': -math.inf, 'deep': {'u': [math.nan, 1, {'hi': math.inf}]}}]
NAMES = ['a', 'b', 'c', 'op', 'n', 'scaling', 'x y', '7']


class C11Operation(str, enum.Enum):
    """the usual `class Operation(str, Enum)` idiom: str(member) is 'C11Operation.scaling', the value is 'scale'"""
    scaling = 'scale'
    forest = 'rf'
    ridge = 'ridge'


class C11Shown(str):
    """a str subclass whose str() differs from its value"""

    def __str__(self):
        return 'shown:' + self[:]


class C11Level(ComparableEnum):
    """a user enum whose values (int / dyadic float / str) all differ from the member names"""
    low = 1
    half = 0.5
    high = 'HI'


class C11Swap(ComparableEnum):
    """every member's name is the VALUE of the other member"""
    first = 'second'
    second = 'first'


ENUMS = {'strength': MutationStrengthEnum, 'mtype': MutationTypesEnum, 'level': C11Level, 'swap': C11Swap}
MEMBERS = [['strength', 'weak'], ['strength', 'mean'], ['strength', 'strong'], ['mtype', 'simple'], ['mtype', 'single_add'],
           ['level', 'low'], ['level', 'half'], ['level', 'high'], ['swap', 'first'], ['swap', 'second']]


def materialise_enums(v):
    """enum members are kept in the (JSON) specs as {'$member': [enum key, member name]}"""
    if isinstance(v, dict):
        if list(v) == ['$member']:
            return ENUMS[v['$member'][0]][v['$member'][1]]
        return {k: materialise_enums(x) for k, x in v.items()}
    if isinstance(v, (list, tuple)):
        return type(v)(materialise_enums(x) for x in v)
    return v


def has_member(v):
    return '"$member"' in json.dumps(v)


def materialise_name(v):
    """names that JSON cannot carry are kept in the specs as one-key dicts"""
    if isinstance(v, dict) and len(v) == 1:
        (k, x), = v.items()
        if k == '$enum':
            return C11Operation[x]
        if k == '$strsub':
            return C11Shown(x)
        if k == '$tuple':
            return tuple(x)
    return v


def materialise_content(content):
    c = copy.deepcopy(content)
    if 'name' in c:
        c['name'] = materialise_name(c['name'])
    if 'params' in c:
        c['params'] = materialise_enums(c['params'])
    return c


def canon_content(content):
    """content as it is shown to the model: a name that is not a plain str / int / bool / None (a float, a tuple,
    a str-subclass object such as a str-Enum member) is shown as str(name), which is what LinkedGraphNode.name
    and the encoder make of it; that saving leaves the object itself alone is checked by the typed snapshot"""
    c = copy.deepcopy(content)
    if 'name' in c:
        v = c['name']
        if not (v is None or type(v) in (str, int, bool)):
            c['name'] = str(v)
    return canon_value(c)


def make_content(rng, style=None):
    """a content dict (insertion order matters for the JSON text)"""
    style = style if style is not None else rng.choice(
        ['str', 'str', 'str', 'int', 'int', 'noname', 'noname', 'params-first', 'extra', 'bool',
         'enum', 'enum', 'strsub', 'float', 'tuple'])
    params = rng.choice(PARAMS)
    if style == 'noname':
        return {} if params is None else {'params': copy.deepcopy(params)}
    name = {'str': rng.choice(NAMES), 'int': rng.choice([0, 3, -12, 1050]), 'params-first': rng.choice(NAMES),
            'extra': rng.choice(NAMES), 'bool': True, 'none': None,
            'enum': {'$enum': rng.choice(['scaling', 'forest', 'ridge'])},
            'strsub': {'$strsub': rng.choice(NAMES)}, 'float': rng.choice([2.5, -0.125]),
            'tuple': {'$tuple': ['t', 1]}}[style]
    if style == 'params-first':
        return {'params': copy.deepcopy(params if params is not None else {'a': 1}), 'name': name}
    c = {'name': name}
    if params is not None:
        c['params'] = copy.deepcopy(params)
    if style == 'extra':
        c['extra'] = [1, 'two', {'three': 3.5}]
    return c


def name_style(content):
    if 'name' not in content:
        return 'noname'
    n = content['name']
    if isinstance(n, dict):
        return next(iter(n))[1:]
    return ('none' if n is None else 'bool' if isinstance(n, bool) else 'int' if isinstance(n, int)
            else 'float' if isinstance(n, float) else 'str')


def c11_postprocess(graph, nodes):
    """a user postprocess_nodes function (module level, so that it is serialised by its path):
    it visibly edits the nodes - counts its calls in every node's params"""
    for n in nodes:
        params = n.content.get('params')
        if not isinstance(params, dict):
            params = {}
            n.content['params'] = params
        params['pp'] = params.get('pp', 0) + 1


class C11Node(OptNode):
    """a user node class with its own coders (registered after the serializer's first use)"""


class C11CatalogNode(OptNode):
    """a user node class with public attributes whose names contain 'log' but do not start with it: they are
    ordinary data (saved and restored), unlike log* attributes, which the serializer leaves out by design"""
    catalog_key = 'none'
    dialog = None

    def description(self):
        return '%s<%s|%s>' % (super().description(), self.catalog_key, self.dialog)


class C11TopoGraph(OptGraph):
    """a user graph class whose `topology` decides what connect_nodes does ('chain': a node gets one parent at most)"""

    def __init__(self, *args, **kwargs):
        super().__init__(*args, **kwargs)
        self.topology = 'free'
        self.technology = {'level': 1}

    def connect_nodes(self, node_parent, node_child):
        if self.topology == 'chain' and len(node_child.nodes_from) >= self.technology['level']:
            return
        super().connect_nodes(node_parent, node_child)


class C11LogGraph(OptGraph):
    """a user graph class that keeps a logger and an edit journal (the `self.log = default_log(self)` pattern):
    the serializer skips every log* attribute on purpose, the constructor re-creates them when the graph is loaded"""

    def __init__(self, *args, **kwargs):
        super().__init__(*args, **kwargs)
        self.log = default_log(self)
        self.log_records = []

    def delete_node(self, node, reconnect=ReconnectType.single):
        self.log.debug('delete %s' % node.uid)
        self.log_records.append(('delete', node.uid))
        super().delete_node(node, reconnect)

    def connect_nodes(self, node_parent, node_child):
        self.log.debug('connect %s -> %s' % (node_parent.uid, node_child.uid))
        self.log_records.append(('connect', node_parent.uid, node_child.uid))
        super().connect_nodes(node_parent, node_child)

    def disconnect_nodes(self, node_parent, node_child, clean_up_leftovers=False):
        self.log_records.append(('disconnect', node_parent.uid, node_child.uid))
        super().disconnect_nodes(node_parent, node_child, clean_up_leftovers)


class C11Graph(C11LogGraph):
    """a user graph class with an extra field, a journal and its own coders"""


class C11Individual(Individual):
    """a user individual class with its own coders"""


class C11Lab:
    """user classes and postprocess hooks nested one, two and three levels deep: their class path has two, three
    and four (for the hooks up to four) dot-separated parts, e.g. `c11/C11Lab.Models.Deep.Graph`"""

    class Node(OptNode):
        pass

    class Graph(OptGraph):
        pass

    class Ind(Individual):
        pass

    @staticmethod
    def hook(graph, nodes):
        c11_postprocess(graph, nodes)

    class Models:
        class Node(OptNode):
            pass

        class Graph(OptGraph):
            pass

        class Ind(Individual):
            pass

        @staticmethod
        def hook(graph, nodes):
            c11_postprocess(graph, nodes)

        class Deep:
            class Node(OptNode):
                pass

            class Graph(OptGraph):
                pass

            class Ind(Individual):
                pass

            @staticmethod
            def hook(graph, nodes):
                c11_postprocess(graph, nodes)


def nested_level(depth):
    return {1: C11Lab, 2: C11Lab.Models, 3: C11Lab.Models.Deep}[depth]


def c11_node_to_json(obj):
    # reversible: every parameter value is stored as a tagged JSON string
    from golem.serializers.coders import graph_node_to_json
    enc = graph_node_to_json(obj)
    content = dict(enc['content'])
    if isinstance(content.get('params'), dict):
        content['params'] = {k: 'py:' + json.dumps(v) for k, v in content['params'].items()}
    enc['content'] = content
    return enc


def c11_node_from_json(cls, json_obj):
    from golem.serializers.any_serialization import any_from_json
    obj = any_from_json(cls, json_obj)
    params = obj.content.get('params')
    if isinstance(params, dict):
        obj.content['params'] = {k: json.loads(v[3:]) for k, v in params.items()}
    return obj


def c11_graph_to_json(obj):
    from golem.serializers.any_serialization import any_to_json
    enc = any_to_json(obj)
    enc['label'] = enc['label'][::-1]
    return enc


def c11_graph_from_json(cls, json_obj):
    from golem.serializers.coders import graph_from_json
    obj = graph_from_json(cls, json_obj)
    obj.label = obj.label[::-1]
    return obj


def c11_ind_to_json(obj):
    from golem.serializers.any_serialization import any_to_json
    enc = any_to_json(obj)
    enc['metadata'] = {'packed': json.dumps(enc['metadata'])}
    return enc


def c11_ind_from_json(cls, json_obj):
    from golem.serializers.any_serialization import any_from_json
    obj = any_from_json(cls, json_obj)
    object.__setattr__(obj, 'metadata', json.loads(obj.metadata['packed']))
    return obj


_USER_CODERS = [False]


def ensure_user_coders():
    """registers the user classes - after the serializer has been used at least once in this process"""
    if _USER_CODERS[0]:
        return
    json.loads(json.dumps(OptGraph(OptNode('warm-up')), cls=Serializer), cls=Serializer)
    Serializer.register_coders(C11Node, c11_node_to_json, c11_node_from_json)
    Serializer.register_coders(C11Graph, c11_graph_to_json, c11_graph_from_json)
    Serializer.register_coders(C11Individual, c11_ind_to_json, c11_ind_from_json)
    _USER_CODERS[0] = True


def inner_graph(graph):
    return graph.operator if isinstance(graph, OptGraph) else graph


def build_graph(spec):
    """spec = {'kind': 'opt'|'linked', 'nodes': [{'uid', 'content', 'parents': [idx]}], 'order': [idx]}
    returns (graph, node objects in creation order)"""
    objs = []
    user = bool(spec.get('user'))
    if user:
        ensure_user_coders()
    level = nested_level(spec['nested']) if spec.get('nested') else None
    attrs = spec.get('attrs')
    node_cls = C11Node if user else level.Node if level else C11CatalogNode if attrs else OptNode
    for j, ns in enumerate(spec['nodes']):
        n = node_cls(materialise_content(ns['content']))
        if attrs:
            n.catalog_key = attrs['keys'][j % len(attrs['keys'])]
            if j % 2:
                n.dialog = {'step': j}
        n.uid = ns['uid']
        objs.append(n)
    for ns, n in zip(spec['nodes'], objs):
        n.nodes_from = [objs[p] for p in ns['parents']]
    kw = {'postprocess_nodes': (level.hook if level else c11_postprocess)} if spec.get('post') else {}
    if level:
        graph = level.Graph(**kw)
    elif attrs:
        graph = C11TopoGraph(**kw)
        graph.topology = attrs['topology']
        graph.technology = {'level': attrs['level']}
    elif user:
        graph = C11Graph(**kw)
        graph.label = 'user-graph'
    elif spec.get('journal'):
        graph = C11LogGraph(**kw)
    else:
        graph = OptGraph(**kw) if spec['kind'] == 'opt' else LinkedGraph(**kw)
    graph.nodes = [objs[i] for i in spec['order']]
    return graph, objs


def snap_nodes(objs, base=0):
    """cells of node objects: (uid, content copy, parent references, is UniqueList); references are
    base + position in `objs`; a None parent is the cell after the last one"""
    index = {id(n): base + i for i, n in enumerate(objs)}
    cells, none_used = [], False
    for n in objs:
        ps = []
        for p in n.nodes_from:
            if p is None:
                ps.append(base + len(objs))
                none_used = True
            else:
                ps.append(index[id(p)])
        cells.append((n.uid, canon_content(n.content), tuple(ps), isinstance(n.nodes_from, UniqueList)))
    if none_used:
        cells.append(None)
    return cells


def typed(v):
    """deep copy of a JSON-like value that keeps python types apart (1 vs 1.0 vs True, tuple vs list)"""
    if isinstance(v, dict):
        return ('dict', tuple((typed(k), typed(x)) for k, x in v.items()))
    if isinstance(v, (list, tuple)):
        return (type(v).__name__, tuple(typed(x) for x in v))
    return (type(v).__name__, v)


def typed_snapshot(objs):
    return tuple((n.uid, typed(n.content), tuple(id(p) for p in n.nodes_from), type(n.nodes_from).__name__,
                  tuple(sorted(vars(n)))) for n in objs)


def _try(fn):
    try:
        return ('ok', fn())
    except RecursionError:
        return ('exc', 'RecursionError')
    except Exception as ex:  # noqa
        return ('exc', type(ex).__name__)


def parse_tree(text):
    """plain JSON tree of a text; the tokens Infinity / -Infinity / NaN become the reserved strings"""
    try:
        return json.loads(text, parse_constant=lambda name: TOKENS[name])
    except ValueError:
        return None


def dumps(obj, pretty=False):
    return json.dumps(obj, indent=4, cls=Serializer) if pretty else json.dumps(obj, cls=Serializer)


# ------------------------------------------------------------------------------------------
# group: graphs
# ------------------------------------------------------------------------------------------
def observe_loaded_graph(loaded, expected_cls):
    """(cells, refs-relative-positions, class_ok) of a loaded graph; None if it is not a graph of the class"""
    if type(loaded) is not expected_cls:
        return None
    nodes = loaded.nodes
    if not isinstance(nodes, list) or any(type(n) is not OptNode for n in nodes):
        return None
    return nodes


def observe_graph(spec):
    graph, objs = build_graph(spec)
    h = snap_nodes(objs)
    t_before = typed_snapshot(objs)
    order_before = [id(n) for n in graph.nodes]
    o = {'json': None, 'loaded': None, 'resave': None, 'text_same': False, 'descid_same': False, 'eq': False}
    r = _try(lambda: dumps(graph))
    after = snap_nodes(objs)
    o['after'] = after
    # python-level purity (types of names, identity of parents, attributes, the nodes list)
    o['typed_same'] = (typed_snapshot(objs) == t_before and [id(n) for n in graph.nodes] == order_before)
    if r[0] == 'ok':
        text = r[1]
        o['json'] = parse_tree(text)
        lr = _try(lambda: json.loads(text, cls=Serializer))
        nr = _try(lambda: observe_loaded_graph(lr[1], type(graph))) if lr[0] == 'ok' else ('exc', '')
        nodes = nr[1] if nr[0] == 'ok' else None
        sn = _try(lambda: snap_nodes(nodes, len(objs))) if nodes is not None else ('exc', '')
        if sn[0] == 'ok':
            loaded = lr[1]
            base = len(objs)
            o['loaded'] = (sn[1], [base + i for i in range(len(nodes))])
            o['shares'] = any(id(n) in {id(x) for x in objs} for n in nodes)
            r2 = _try(lambda: dumps(loaded))
            if r2[0] == 'ok':
                o['resave'] = parse_tree(r2[1])
                o['text_same'] = (r2[1] == text)
            d1, d2 = _try(lambda: graph.descriptive_id), _try(lambda: loaded.descriptive_id)
            o['descid_same'] = (d1 == d2)
            o['eq'] = (_try(lambda: (graph == loaded, loaded == graph)) == ('ok', (True, True))
                       and _try(lambda: (loaded.operator if spec['kind'] == 'opt' else loaded)._postprocess_nodes
                                is LinkedGraph._empty_postprocess) == ('ok', True)
                       and _try(lambda: [n.name for n in loaded.nodes]) == ('ok', [n.name for n in graph.nodes])
                       and not o['shares'])
    return h, o


def graph_case(spec, h, o, tamper=False):
    em = Em()
    oj = o['json']
    if tamper:     # canary: a wrong uid in the observed JSON
        oj = json.loads(json.dumps(oj).replace(spec['nodes'][0]['uid'], 'WRONG'))
    loaded = '(@None (list cell * graph))'
    if o['loaded'] is not None:
        loaded = '(Some (%s, %s))' % (c_heap(o['loaded'][0], em), c_graph(spec['kind'], o['loaded'][1]))
    obs = '(mkGObs %s %s %s %s %s %s %s)' % (
        c_ojson(oj, em), c_heap(o['after'], em), loaded, c_ojson(o['resave'], em), c_bool(o['text_same']),
        c_bool(o['descid_same']), c_bool(o['eq'] and o['typed_same']))
    return em.wrap('(%s, %s, %s)' % (c_heap(h, em), c_graph(spec['kind'], spec['order']), obs))


def has_cycle(spec):
    n = len(spec['nodes'])
    color = [0] * n

    def go(i):
        color[i] = 1
        for p in spec['nodes'][i]['parents']:
            if color[p] == 1 or (color[p] == 0 and go(p)):
                return True
        color[i] = 2
        return False
    return any(color[i] == 0 and go(i) for i in range(n))


def gen_graph_specs(ctx):
    rng = ctx.rng
    specs = []

    def mk(kind, plists, order=None, styles=None, uid_style='short'):
        n = len(plists)
        nodes = []
        for i, ps in enumerate(plists):
            uid = ('n%d' % i) if uid_style == 'short' else '%08x-c11a-4e5f-8a9b-%012x' % (rng.getrandbits(32), i)
            nodes.append({'uid': uid, 'content': make_content(rng, styles[i] if styles else None),
                          'parents': list(ps)})
        order = list(order) if order is not None else list(range(n))
        return {'kind': kind, 'nodes': nodes, 'order': order}

    # exhaustive: every digraph (self-loops included) on <= 3 nodes, one spec each; the node kinds
    # rotate so that each kind meets each position
    styles = ['str', 'int', 'noname', 'params-first', 'extra', 'bool', 'enum', 'strsub', 'float', 'tuple']
    k = 0
    for n in range(0, 4):
        pairs = [(c, p) for c in range(n) for p in range(n)]
        for mask in range(1 << len(pairs)):
            pl = [[] for _ in range(n)]
            for b, (c, p) in enumerate(pairs):
                if mask >> b & 1:
                    pl[c].append(p)
            if (mask + n) % 3 == 0:
                pl = [list(reversed(x)) for x in pl]        # parent order is part of the content
            order = list(range(n))
            if mask % 4 == 1:
                order.reverse()
            specs.append(('exh3', mk('opt' if mask % 5 else 'linked', pl, order,
                                     [styles[(k + i) % len(styles)] for i in range(n)])))
            k += 1
    # every 4-node DAG over a fixed topological numbering (shared ancestors, several sinks)
    pairs = [(c, p) for c in range(4) for p in range(c)]
    for mask in range(1 << len(pairs)):
        pl = [[] for _ in range(4)]
        for b, (c, p) in enumerate(pairs):
            if mask >> b & 1:
                pl[c].append(p)
        order = list(range(4))
        rng.shuffle(order)
        specs.append(('dag4', mk('opt', pl, order)))
    # random: 4..6 nodes, cyclic or not, any listing order, real-looking uids now and then
    n_rand = ctx.budget(700, 9000)
    for _ in range(n_rand):
        n = rng.choice([4, 4, 4, 5, 5, 6])
        dag = rng.random() < 0.5
        dens = rng.choice([0.2, 0.35, 0.6])
        pl = []
        for c in range(n):
            cand = list(range(c)) if dag else list(range(n))
            ps = [p for p in cand if rng.random() < dens]
            rng.shuffle(ps)
            pl.append(ps)
        order = list(range(n))
        rng.shuffle(order)
        specs.append(('random', mk(rng.choice(['opt', 'opt', 'linked']), pl, order,
                                  uid_style=rng.choice(['short', 'short', 'uuid']))))
    # nodes whose name is None (the key is present): LinkedGraphNode.name is '' for them
    for i in range(ctx.budget(6, 40)):
        n = rng.choice([1, 2, 3])
        pl = [[p for p in range(c) if rng.random() < 0.6] for c in range(n)]
        st = [rng.choice(['none', 'str']) for _ in range(n)]
        st[rng.randrange(n)] = 'none'
        specs.append(('none-name', mk('opt', pl, None, st)))
    return specs


def run_graphs(ctx):
    specs = gen_graph_specs(ctx)
    cases, meta = [], []
    for origin, spec in specs:
        h, o = observe_graph(spec)
        cases.append(graph_case(spec, h, o))
        meta.append((origin, spec, o))
    ctx.set_exhaustive('graphs', False)
    ctx.set_exhaustive('graphs-exhaustive', True)   # every digraph on <= 3 nodes, every 4-node DAG (fixed numbering)
    # canary
    cspec = specs[40][1]
    h, o = observe_graph(cspec)
    cases.append(graph_case(cspec, h, o, tamper=True))
    ctx.canaries += 1
    res = eval_cases(ctx, 'graphs', FN_GRAPH, cases, K_GRAPH)
    if not res[-1][0]:
        ctx.canaries_caught += 1
    seen_samples = 0
    for (origin, spec, o), r in zip(meta, res[:-1]):
        n = len(spec['nodes'])
        edges = sum(len(x['parents']) for x in spec['nodes'])
        styles = sorted({name_style(x['content']) for x in spec['nodes']})
        cyc = has_cycle(spec)
        ctx.count('graphs-exhaustive' if origin in ('exh3', 'dag4') else 'graphs',
                  key=json.dumps(spec, sort_keys=True), nontrivial=(n >= 2 and edges >= 1),
                  origin=origin, nodes=n, cyclic=cyc, kind=spec['kind'],
                  int_named='int' in styles, unnamed='noname' in styles)
        case = {'group': 'graphs', 'spec': spec}
        if not r[0]:
            ctx.disagree('graphs', case, 'model and implementation differ on the round trip '
                                         '(JSON tree / heap after save / loaded structure / second JSON)')
        for ok, what in zip(r[1:], GRAPH_CLAUSES):
            if not ok:
                ctx.violate('graphs', case, what)
        if seen_samples < 2 and n == 3 and edges >= 2:
            seen_samples += 1
            ctx.sample({'group': 'graphs', 'spec': spec, 'saved_json': o['json'],
                        'loaded_nodes': [(c[0], c[1], list(c[2]), c[3]) for c in o['loaded'][0] if c] if o['loaded'] else None,
                        'second_text_equal': o['text_same'], 'model_agrees': r[0], 'clauses_hold': list(r[1:])})


# ------------------------------------------------------------------------------------------
# group: individuals
# ------------------------------------------------------------------------------------------
def build_fitness(fs):
    if fs is None:
        return None
    if fs[0] == 'S':
        return SingleObjFitness(*fs[1])
    return MultiObjFitness(values=tuple(fs[1]), weights=tuple(fs[2]))


def build_individual(spec):
    graph, objs = build_graph(spec['graph'])
    kw = {}
    f = build_fitness(spec['fitness'])
    if f is not None:
        kw['fitness'] = f
    if spec['metadata'] is not None:
        kw['metadata'] = materialise_enums(copy.deepcopy(spec['metadata']))
    if spec['native'] is not None:
        kw['native_generation'] = spec['native']
    parents = []
    if spec['pop'] is not None:
        by_uid = {}     # a uid listed twice is ONE individual listed twice (self-crossover)
        for pu in spec['pop']['parents']:
            if pu not in by_uid:
                by_uid[pu] = Individual(OptGraph(OptNode('p')), uid=pu, native_generation=0)
            parents.append(by_uid[pu])
        ops = materialise_enums(spec['pop']['operators'])
        kw['parent_operator'] = ParentOperator(spec['pop']['type'], ops if len(ops) != 1 else ops[0], parents)
    ind = Individual(graph, uid=spec['uid'], **kw)
    return ind, objs, parents


def seq_kind(x):
    return 'Tuple' if isinstance(x, tuple) else 'PList' if isinstance(x, list) else None


def rec_fitness(f):
    """description of a fitness object as it is in memory; None if it has an unexpected shape"""
    def numeric(xs):
        return all(x is None or (isinstance(x, (int, float)) and not isinstance(x, bool)) for x in xs)
    if type(f) is SingleObjFitness:
        v = f._values
        if seq_kind(v) is None or not numeric(v):
            return None
        return ('S', seq_kind(v), list(v))
    if type(f) is MultiObjFitness:
        w, v = f._weights, f.wvalues
        if seq_kind(w) is None or seq_kind(v) is None or not numeric(w) or not numeric(v) or None in w or None in v:
            return None
        return ('M', seq_kind(w), seq_kind(v), list(w), list(v))
    return None


def rec_pop(po):
    if po is None:
        return 'none'
    if type(po) is not ParentOperator or seq_kind(po.operators) is None or seq_kind(po.parent_individuals) is None:
        return None
    ps = []
    for p in po.parent_individuals:
        if p is None:
            ps.append(('N', ''))
        elif isinstance(p, str):
            ps.append(('U', p))
        elif type(p) is Individual:
            ps.append(('L', p.uid))
        else:
            return None
    return (po.type_, seq_kind(po.operators), canon_value(copy.deepcopy(list(po.operators))), seq_kind(po.parent_individuals), ps, po.uid)


def rec_individual(ind):
    f, po = rec_fitness(ind.fitness), rec_pop(ind.parent_operator)
    if f is None or po is None or not isinstance(ind.metadata, dict):
        return None
    ng = ind.native_generation
    if not (ng is None or (isinstance(ng, int) and not isinstance(ng, bool))):
        return None
    return {'fitness': f, 'metadata': canon_value(copy.deepcopy(ind.metadata)), 'native': ng, 'pop': po, 'uid': ind.uid}


def c_fnum(x):
    t = tok(x)
    if t is None:
        return '(Fin %s)' % c_Q(x)
    return {'#Infinity#': 'PInf', '#-Infinity#': 'NInf', '#NaN#': 'FNaN'}[t]


def c_individual(rec, kind, refs, em):
    f = rec['fitness']
    if f[0] == 'S':
        ft = '(FSingle %s %s)' % (f[1], c_list([c_opt(x, c_fnum, 'fnum') for x in f[2]], '(option fnum)'))
    else:
        ft = '(FMulti %s %s %s %s)' % (f[1], f[2], c_list([c_fnum(x) for x in f[3]], 'fnum'),
                                       c_list([c_fnum(x) for x in f[4]], 'fnum'))
    po = rec['pop']
    if po == 'none':
        pt = '(@None parent_op)'
    else:
        tag = {'N': 'PNoneInd', 'U': '(PUid %s)', 'L': '(PLive %s)'}
        ps = [tag[k] if k == 'N' else tag[k] % cs(u) for k, u in po[4]]
        pt = em.sh('(Some (mkPO %s %s %s %s %s %s))' % (cs(po[0]), po[1], c_list([c_json(x, em) for x in po[2]], 'json'),
                                                     po[3], c_list(ps, 'pind'), cs(po[5])))
    return em.sh('(mkInd %s %s %s %s %s %s)' % (em.sh(ft), c_graph(kind, refs), c_kv(rec['metadata'], em),
                                               c_opt(rec['native'], c_Z, 'Z'), pt, cs(rec['uid'])))


CMP = [lambda a, b: a == b, lambda a, b: a < b, lambda a, b: a > b, lambda a, b: a <= b, lambda a, b: a >= b,
       lambda a, b: a != b]


def observe_individual(spec, via_methods):
    ind, objs, parents = build_individual(spec)
    kind = spec['graph']['kind']
    h = snap_nodes(objs)
    refs = spec['graph']['order']
    ind_term = rec_individual(ind)
    t_before = (typed_snapshot(objs), typed(ind.metadata), id(ind.graph), id(ind.fitness), id(ind.parent_operator),
                [(p.uid, id(p)) for p in parents], tuple(sorted(vars(ind))))
    o = {'json': None, 'loaded': None, 'resave': None, 'text_same': False, 'descid_same': False,
         'cmp_raised': False, 'cmp_equal': False, 'hash_raised': False, 'hash_same': False}
    r = _try(lambda: ind.save() if via_methods else dumps(ind))
    o['after_heap'] = snap_nodes(objs)
    o['after'] = rec_individual(ind)
    o['typed_same'] = ((typed_snapshot(objs), typed(ind.metadata), id(ind.graph), id(ind.fitness),
                        id(ind.parent_operator), [(p.uid, id(p)) for p in parents], tuple(sorted(vars(ind)))) == t_before)
    if r[0] == 'ok':
        text = r[1]
        o['json'] = parse_tree(text)
        lr = _try(lambda: Individual.load(text) if via_methods else json.loads(text, cls=Serializer))
        loaded = lr[1] if lr[0] == 'ok' and type(lr[1]) is Individual else None
        nr = _try(lambda: observe_loaded_graph(loaded.graph, type(ind.graph))) if loaded is not None else ('exc', '')
        nodes = nr[1] if nr[0] == 'ok' else None
        if nodes is not None:
            base = len(objs)
            # a loaded object that lacks an attribute cannot be described: it counts as not loaded
            lr2 = _try(lambda: (snap_nodes(nodes, base), rec_individual(loaded), [base + i for i in range(len(nodes))]))
            if lr2[0] == 'ok' and lr2[1][1] is not None:
                o['loaded'] = lr2[1]
            r2 = _try(lambda: loaded.save() if via_methods else dumps(loaded))
            if r2[0] == 'ok':
                o['resave'] = parse_tree(r2[1])
                o['text_same'] = (r2[1] == text)
            o['descid_same'] = (_try(lambda: ind.graph.descriptive_id) == _try(lambda: loaded.graph.descriptive_id)
                                and _try(lambda: ind == loaded) == ('ok', True))
            lf, of = getattr(loaded, 'fitness', None), ind.fitness
            outs = []
            for op in CMP:
                ref = _try(lambda: op(of, of))
                outs.append((_try(lambda: op(lf, of)), _try(lambda: op(of, lf)), ref))
            o['cmp_raised'] = any(a[0] == 'exc' or b[0] == 'exc' for a, b, ref in outs)
            def numbers(f):     # the stored numbers, integers told from floats (7 is not 7.0; numpy scalars count
                # as what they are instances of)
                def kind(x):
                    return ('none' if x is None else 'bool' if isinstance(x, bool) else
                            'int' if isinstance(x, numbers_abc.Integral) else 'float', canon_value(x))
                return [[kind(x) for x in getattr(f, a, ())] for a in ('_values', 'wvalues', '_weights')]
            o['cmp_equal'] = all(a == ref and b == ref for a, b, ref in outs) and \
                (_try(lambda: lf.valid) == _try(lambda: of.valid)) and \
                (_try(lambda: numbers(lf)) == _try(lambda: numbers(of)))
            hl, ho = _try(lambda: hash(lf)), _try(lambda: hash(of))
            o['hash_raised'] = (hl[0] == 'exc' and ho[0] == 'ok')
            # hash(nan) is per object in CPython >= 3.10, so two equal-looking fitness objects holding a nan (already
            # the original and a deep copy of it) hash differently: nothing can be demanded of the loaded copy then
            holds_nan = any(tok(x) == TOKENS['NaN'] for a in ('_values', 'wvalues') for x in getattr(of, a, ()))
            o['hash_same'] = (hl == ho) or holds_nan
    return h, ind_term, o


def ind_case(spec, h, ind_rec, o, tamper=False):
    em = Em()
    kind = spec['graph']['kind']
    refs = spec['graph']['order']
    oj = o['json']
    if tamper:
        oj = json.loads(json.dumps(oj).replace(spec['uid'], 'WRONG'))
    loaded = '(@None (list cell * individual))'
    if o['loaded'] is not None:
        loaded = '(Some (%s, %s))' % (c_heap(o['loaded'][0], em), c_individual(o['loaded'][1], kind, o['loaded'][2], em))
    it = c_individual(ind_rec, kind, refs, em)
    obs = '(mkIObs %s %s %s %s %s %s %s %s %s %s %s)' % (
        c_ojson(oj, em), c_heap(o['after_heap'], em), c_individual(o['after'] or ind_rec, kind, refs, em), loaded,
        c_ojson(o['resave'], em),
        c_bool(o['text_same']), c_bool(o['descid_same']), c_bool(o['cmp_raised']), c_bool(o['cmp_equal']),
        c_bool(o['hash_raised']), c_bool(o['hash_same'] and o['typed_same'] and o['after'] is not None))
    return em.wrap('(%s, %s, %s)' % (c_heap(h, em), it, obs))


DY = [0.0, 1.0, -1.0, 0.5, 1.5, 2.0, 0.25, -3.75, 100.0, 2.0 ** -20]
INTS = [7, 0, -3, 2]
NONFINITE = [math.inf, -math.inf, math.nan]
WEIGHTS = [1.0, -1.0, 0.5, 0.0, 0, 1, -1, 2, 0.25, -2.5]
METADATA = [None, {}, {'computation_time_in_seconds': 0.5}, {'k': [1, 2, {'a': None}], 'evaluation': {'ok': True}},
            {'note': 'x', 'n': 3}, {'penalty': -math.inf, 'bound': [math.inf, {'gap': math.nan}]}]


def _make_pre():
    """constants for the pooled parameter / metadata values (printed once per case file)"""
    defs = []
    pool = [p for p in PARAMS if p] + [m for m in METADATA if m] + [[1, 'two', {'three': 3.5}]]
    em = Em()
    em.sh = lambda t, always=False: t          # no sharing inside the constants
    pool = [canon_value(v) for v in pool]
    for i, v in enumerate(pool):
        defs.append('Definition g%d_ : json := %s.' % (i, c_json(v, em)))
    for i, v in enumerate(pool):
        GLOBAL[json.dumps(v)] = 'g%d_' % i
    return PRE_BASE + '\n'.join(defs) + '\n'


PRE = _make_pre()


def gen_ind_specs(ctx):
    rng = ctx.rng
    out = []
    n_ind = ctx.budget(450, 3500)
    for i in range(n_ind):
        n = rng.choice([1, 2, 3, 4])
        pl = [[p for p in range(c) if rng.random() < 0.5] for c in range(n)]
        nodes = [{'uid': 'n%d' % j, 'content': make_content(rng, rng.choice(['str', 'str', 'int', 'noname', 'params-first', 'enum', 'strsub'])),
                  'parents': pl[j]} for j in range(n)]
        order = list(range(n))
        rng.shuffle(order)
        def val():      # now and then a non-finite float (an infinite penalty, a nan)
            return rng.choice(NONFINITE) if rng.random() < 0.15 else rng.choice(DY + INTS)
        fk = i % 6
        if fk == 0:
            fit = None                                             # not evaluated: default null fitness
        elif fk == 1:
            fit = ('S', [None])
        elif fk == 2:
            fit = ('S', [val()])
        elif fk == 3:
            fit = ('S', [val(), val()])
        elif fk == 4:
            # weighted values: zero / negative / fractional / integer weights, int-valued objectives
            # (an int objective with an int weight is stored - and printed - as an int)
            k = rng.choice([1, 2, 3])
            fit = ('M', [val() for _ in range(k)], [rng.choice(WEIGHTS) for _ in range(k)])
        else:
            fit = ('M', [], [])
        pk = (i // 6) % 6
        if pk == 0:
            pop = None
        elif pk == 1:
            pop = {'type': 'mutation', 'operators': [rng.choice(['single_add', 'single_drop', 'simple'])],
                   'parents': ['par-%d-a' % i]}
        elif pk == 2:
            pop = {'type': 'crossover', 'operators': [rng.choice(['one_point', 'subtree'])],
                   'parents': ['par-%d-a' % i, 'par-%d-b' % i]}
        elif pk == 3:
            pop = {'type': rng.choice(['mutation', 'selection']), 'operators': ['m1', 'm2'], 'parents': []}
        elif pk == 4:
            # self-crossover: both parents are the same individual (selection with replacement)
            pop = {'type': 'crossover', 'operators': [rng.choice(['one_point', 'subtree'])],
                   'parents': ['par-%d-a' % i, 'par-%d-a' % i]}
        else:
            # three parents with a repeat, at any position
            three = ['par-%d-a' % i, 'par-%d-b' % i, rng.choice(['par-%d-a' % i, 'par-%d-b' % i])]
            rng.shuffle(three)
            pop = {'type': 'crossover', 'operators': ['one_point', 'subtree'], 'parents': three}
        out.append({'uid': 'ind-%d' % i if rng.random() < 0.7 else '%08x-0000-4000-8000-%012x' % (rng.getrandbits(32), i),
                    'graph': {'kind': 'opt', 'nodes': nodes, 'order': order},
                    'fitness': fit, 'metadata': copy.deepcopy(rng.choice(METADATA)),
                    'native': rng.choice([None, 0, 1, 17]), 'pop': pop})
    # round 8: enum members (GOLEM's own ComparableEnum types and user ones; names equal to / different from the
    # values, numeric values, a name that is another member's value) in metadata, ParentOperator.operators, node params
    def member():
        return {'$member': list(rng.choice(MEMBERS))}
    for j, base in enumerate(MEMBERS + [rng.choice(MEMBERS) for _ in range(ctx.budget(20, 150))]):
        i = n_ind + j
        m = {'$member': list(base)}
        where = j % 4
        content = {'name': rng.choice(NAMES)}
        if where in (2, 3):
            content['params'] = {'strength': m, 'grid': [member(), 2, {'deep': member()}]} if j % 8 < 4 else {'op': m}
        nodes = [{'uid': 'n0', 'content': content, 'parents': []},
                 {'uid': 'n1', 'content': make_content(rng, 'str'), 'parents': [0]}]
        metadata = ({'kind': m, 'note': 'x'} if where == 0 else {'k': [member(), {'a': m}], 'n': 3} if where == 3
                    else rng.choice([None, {}, {'n': 3}]))
        pop = None
        if where in (1, 3):
            pop = {'type': 'mutation', 'operators': [m] if j % 8 < 4 else [member(), 'simple', m],
                   'parents': ['par-%d-a' % i]}
        out.append({'uid': 'ind-%d' % i, 'graph': {'kind': 'opt', 'nodes': nodes, 'order': [1, 0]},
                    'fitness': ('S', [rng.choice(DY)]) if j % 2 else None, 'metadata': metadata,
                    'native': rng.choice([None, 0, 1]), 'pop': pop})
    return out


def run_individuals(ctx):
    specs = gen_ind_specs(ctx)
    cases, meta = [], []
    for i, spec in enumerate(specs):
        h, term, o = observe_individual(spec, via_methods=(i % 2 == 1))
        cases.append(ind_case(spec, h, term, o))
        meta.append((spec, o))
    h, term, o = observe_individual(specs[0], False)
    cases.append(ind_case(specs[0], h, term, o, tamper=True))
    ctx.canaries += 1
    res = eval_cases(ctx, 'individuals', FN_IND, cases, K_IND)
    if not res[-1][0]:
        ctx.canaries_caught += 1
    sampled = 0
    for (spec, o), r in zip(meta, res[:-1]):
        f = spec['fitness']
        fk = 'default' if f is None else ('single' if f[0] == 'S' else 'multi')
        valid = f is not None and ((f[0] == 'S' and f[1][0] is not None) or (f[0] == 'M' and len(f[1]) > 0))
        ctx.count('individuals', key=json.dumps(spec, sort_keys=True), nontrivial=(valid or spec['pop'] is not None),
                  fitness=fk, evaluated=valid, parent_operator=(spec['pop'] or {}).get('type'),
                  zero_weight=(fk == 'multi' and any(w == 0 for w in f[2])),
                  int_objective=(f is not None and any(isinstance(x, int) for x in f[1])),
                  nonfinite_fitness=(f is not None and any(tok(x) is not None for x in f[1])),
                  nonfinite_metadata=('penalty' in (spec['metadata'] or {})),
                  n_parents=len((spec['pop'] or {}).get('parents', [])), metadata=bool(spec['metadata']),
                  enum_member=('metadata' if has_member(spec['metadata']) else 'operators' if has_member(spec['pop'])
                               else 'params' if has_member(spec['graph']) else 'none'),
                  repeated_parent=(len(set((spec['pop'] or {}).get('parents', [])))
                                   != len((spec['pop'] or {}).get('parents', []))))
        case = {'group': 'individuals', 'spec': spec}
        if not r[0]:
            ctx.disagree('individuals', case, 'model and implementation differ on the individual round trip')
        for ok, what in zip(r[1:], IND_CLAUSES):
            if not ok:
                ctx.violate('individuals', case, what)
        if sampled < 2 and valid and spec['pop'] is not None:
            sampled += 1
            ctx.sample({'group': 'individuals', 'spec': spec, 'saved_json': o['json'], 'second_text_equal': o['text_same'],
                        'fitness_comparison_raised': o['cmp_raised'], 'model_agrees': r[0], 'clauses_hold': list(r[1:])})


# ------------------------------------------------------------------------------------------
# group: json-load (hand-edited JSON; correspondence of the decoder only)
# ------------------------------------------------------------------------------------------
def edit_tree(rng, tree, kind):
    """returns (what, edited tree); the tree is the JSON of a graph"""
    t = copy.deepcopy(tree)
    inner = t['operator'] if kind == 'opt' else t
    nodes = inner['_nodes']
    what = rng.choice(['drop-node', 'dup-node', 'dup-parent', 'unknown-parent', 'nodes-key', 'legacy-paths',
                       'no-postprocess', 'reorder-keys', 'no-operator', 'no-nodes'])
    if what == 'drop-node' and nodes:
        del nodes[rng.randrange(len(nodes))]
    elif what == 'dup-node' and nodes:
        d = copy.deepcopy(rng.choice(nodes))
        d['content'] = {'name': 'dup'}
        d['_nodes_from'] = []
        nodes.insert(rng.randrange(len(nodes) + 1), d)
    elif what == 'dup-parent' and nodes:
        nd = rng.choice(nodes)
        if nd['_nodes_from']:
            nd['_nodes_from'].insert(rng.randrange(len(nd['_nodes_from']) + 1), rng.choice(nd['_nodes_from']))
    elif what == 'unknown-parent' and nodes:
        nd = rng.choice(nodes)
        nd['_nodes_from'].insert(rng.randrange(len(nd['_nodes_from']) + 1), 'nobody')
        if rng.random() < 0.5:
            rng.choice(nodes)['_nodes_from'].append('nobody-else')
    elif what == 'nodes-key':
        inner['nodes'] = inner.pop('_nodes')
    elif what == 'legacy-paths':
        for nd in nodes:
            nd['_class_path'] = 'fedot.core.dag.graph_node/GraphNode'
        inner['_class_path'] = 'fedot.core.dag.graph_operator/GraphOperator'
        inner['_postprocess_nodes'] = {'_class_path': 'fedot.core.dag.graph_operator/GraphOperator._empty_postprocess'}
        if kind == 'opt':
            t['operator'] = inner
    elif what == 'no-postprocess':
        del inner['_postprocess_nodes']
    elif what == 'reorder-keys':
        for i, nd in enumerate(nodes):
            nodes[i] = dict(reversed(list(nd.items())))
    elif what == 'no-operator' and kind == 'opt':
        del t['operator']
    elif what == 'no-nodes':
        del inner['_nodes']
    return what, t


def observe_load(tree, kind):
    """decoder on a JSON tree: (cells, refs) or None when it raised; then the second save"""
    cls = OptGraph if kind == 'opt' else LinkedGraph
    text = json.dumps(tree)
    lr = _try(lambda: json.loads(text, cls=Serializer))
    if lr[0] != 'ok':
        return None, None
    nr = _try(lambda: observe_loaded_graph(lr[1], cls))
    if nr[0] != 'ok':
        return None, None          # a decoded object that cannot even be inspected counts as "decoding failed"
    nodes = nr[1]
    if nodes is None:
        return 'unexpected', None
    sn = _try(lambda: snap_nodes(nodes, 0))
    if sn[0] != 'ok':
        return None, None
    cells = sn[1]
    r2 = _try(lambda: dumps(lr[1]))
    return (cells, list(range(len(nodes)))), (parse_tree(r2[1]) if r2[0] == 'ok' else None)


def run_json_load(ctx):
    rng = ctx.rng
    n = ctx.budget(250, 1800)
    cases, meta = [], []
    specs = [s for o, s in gen_graph_specs_small(ctx, n)]
    for spec in specs:
        graph, objs = build_graph(spec)
        tree = parse_tree(dumps(graph))
        what, t = edit_tree(rng, tree, spec['kind'])
        loaded, resave = observe_load(t, spec['kind'])
        if loaded == 'unexpected':
            ctx.error('json-load', 'decoder returned an object that is not a graph for %s' % what)
            continue
        em = Em()
        lt = '(@None (list cell))' if loaded is None else '(Some %s)' % c_heap(loaded[0], em)
        g = c_graph(spec['kind'], loaded[1] if loaded else [])
        cases.append(em.wrap('(%s, %s, %s, %s)' % (c_json(t, em), lt, g, c_ojson(resave, em))))
        meta.append((what, spec, t, loaded))
    # canary: claim one more node than was loaded
    graph, objs = build_graph(specs[0])
    tree = parse_tree(dumps(graph))
    loaded, resave = observe_load(tree, specs[0]['kind'])
    em = Em()
    cases.append(em.wrap('(%s, (Some %s), %s, %s)' % (c_json(tree, em), c_heap(loaded[0] + [('zz', {}, (), True)], em),
                                                      c_graph(specs[0]['kind'], loaded[1]), c_ojson(resave, em))))
    ctx.canaries += 1
    fn = ('fun c => match c with (j, frag, g, rs) => [match load_graph [] j, frag with '
          '| Ok (h, g1), Some f => heap_eqb h f && graph_eqb g1 g && res_json_eqb (fst (save_graph h g1)) rs '
          '| Raise Unmodelled, _ => false | Raise _, None => true | _, _ => false end] end')
    res = eval_cases(ctx, 'json-load', fn, cases, 1)
    if not res[-1][0]:
        ctx.canaries_caught += 1
    for (what, spec, t, loaded), r in zip(meta, res[:-1]):
        ctx.count('json-load', key=json.dumps(t, sort_keys=True), nontrivial=True, edit=what, raised=(loaded is None))
        if not r[0]:
            ctx.disagree('json-load', {'group': 'json-load', 'edit': what, 'tree': t, 'kind': spec['kind']},
                         'model decoder and implementation differ on hand-edited JSON (%s)' % what)


def gen_graph_specs_small(ctx, count):
    rng = ctx.rng
    out = []
    for _ in range(count):
        n = rng.choice([1, 2, 3, 3, 4])
        dag = rng.random() < 0.6
        pl = []
        for c in range(n):
            cand = list(range(c)) if dag else list(range(n))
            ps = [p for p in cand if rng.random() < 0.5]
            rng.shuffle(ps)
            pl.append(ps)
        nodes = [{'uid': 'n%d' % j, 'content': make_content(rng, rng.choice(['str', 'int', 'noname', 'params-first'])),
                  'parents': pl[j]} for j in range(n)]
        order = list(range(n))
        rng.shuffle(order)
        out.append(('small', {'kind': rng.choice(['opt', 'opt', 'linked']), 'nodes': nodes, 'order': order}))
    return out


# ------------------------------------------------------------------------------------------
# group: lockstep
# ------------------------------------------------------------------------------------------
MODES = {'none': ('RNone', ReconnectType.none), 'single': ('RSingle', ReconnectType.single),
         'all': ('RAll', ReconnectType.all)}


def view(graph, known, fresh):
    """canonical form: per node (uid or FRESHk, name, parameters, parent positions, is UniqueList);
    `fresh` names the uids made by uuid4 during the run (kept for the whole sequence, per side)"""
    nodes = list(graph.nodes)
    index = {}
    for i, n in enumerate(nodes):
        index.setdefault(id(n), i)
    out = []
    for n in nodes:
        uid = n.uid
        if uid not in known:
            uid = fresh.setdefault(uid, 'FRESH%d' % len(fresh))
        ps = []
        for p in n.nodes_from:
            ps.append(9998 if p is None else index.get(id(p), 9999))
        params = n.parameters
        out.append((uid, n.name, canon_value(copy.deepcopy(params)), tuple(ps), isinstance(n.nodes_from, UniqueList)))
    return tuple(out)


def view_key(v):
    return json.dumps([(a, b, c, list(d), e) for a, b, c, d, e in v], sort_keys=True)


def c_view(v, em):
    return c_list([em.sh('(mkV %s %s %s %s %s)' % (cs(u), cs(nm), c_json(pr, em), c_nats(ps), c_bool(uq)))
                   for u, nm, pr, ps, uq in v], 'vnode')


def make_new(graph, newspec):
    """fresh node objects for add / update; parents are positions in the current nodes list"""
    nodes = graph.nodes
    chain = None
    for lvl, ns in enumerate(newspec['chain']):
        n = OptNode(materialise_content(ns['content']))
        n.uid = ns['uid']
        ps = [nodes[i] for i in ns['parents'] if i < len(nodes)]
        if chain is not None:
            ps.append(chain)
        n.nodes_from = ps
        chain = n
    return chain


def apply_op(graph, op):
    kind = op[0]
    nodes = graph.nodes
    if kind == 'connect':
        graph.connect_nodes(nodes[op[1]], nodes[op[2]])
    elif kind == 'disconnect':
        graph.disconnect_nodes(nodes[op[1]], nodes[op[2]], clean_up_leftovers=op[3])
    elif kind == 'delete':
        graph.delete_node(nodes[op[1]], MODES[op[2]][1])
    elif kind == 'delsub':
        graph.delete_subtree(nodes[op[1]])
    elif kind == 'update_node':
        graph.update_node(nodes[op[1]], make_new(graph, op[2]))
    elif kind == 'update_subtree':
        graph.update_subtree(nodes[op[1]], make_new(graph, op[2]))
    elif kind == 'update_subtree_existing':
        graph.update_subtree(nodes[op[1]], nodes[op[2]])
    elif kind == 'add':
        graph.add_node(make_new(graph, op[1]))
    else:
        raise AssertionError(kind)


def c_op(op, post=False):
    if post:
        return 'OOther'        # the user callback edits the nodes: not an operation of the model
    if op[0] == 'connect':
        return '(OConnect %d %d)' % (op[1], op[2])
    if op[0] == 'disconnect' and not op[3]:
        return '(ODisconnect %d %d)' % (op[1], op[2])
    if op[0] == 'delete':
        return '(ODelete %d %s)' % (op[1], MODES[op[2]][0])
    return 'OOther'


def gen_op(rng, n, counter):
    """an operation on a graph that currently has n nodes"""
    def newspec():
        chain = []
        for _ in range(rng.choice([1, 1, 1, 2])):
            counter[0] += 1
            chain.append({'uid': 'x%d' % counter[0], 'content': make_content(rng, rng.choice(['str', 'int', 'noname', 'enum'])),
                          'parents': [p for p in range(n) if rng.random() < 0.3]})
        return {'chain': chain}
    if n == 0:
        return ('add', newspec())
    kinds = ['connect', 'connect', 'connect', 'disconnect', 'disconnect', 'delete', 'delete', 'delete', 'delsub',
             'update_node', 'update_subtree', 'update_subtree_existing', 'add']
    k = rng.choice(kinds)
    a, b = rng.randrange(n), rng.randrange(n)
    if k == 'connect':
        return ('connect', a, b)
    if k == 'disconnect':
        return ('disconnect', a, b, rng.random() < 0.3)
    if k == 'delete':
        return ('delete', a, rng.choice(['none', 'single', 'all', 'all']))
    if k == 'delsub':
        return ('delsub', a)
    if k == 'update_node':
        return ('update_node', a, newspec())
    if k == 'update_subtree':
        return ('update_subtree', a, newspec())
    if k == 'update_subtree_existing':
        return ('update_subtree_existing', a, b)
    return ('add', newspec())


def known_uids(spec, ops):
    k = {ns['uid'] for ns in spec['nodes']}
    for op in ops:
        for x in op:
            if isinstance(x, dict):
                k.update(ns['uid'] for ns in x['chain'])
    return k


def extra_state(graph):
    """user attributes that views do not show"""
    st = {'topology': getattr(graph, 'topology', None), 'technology': getattr(graph, 'technology', None),
          'nodes': [(getattr(n, 'catalog_key', None), getattr(n, 'dialog', None), getattr(n, 'unit', None))
                    for n in graph.nodes]}
    return st


def sentinel(tag):
    """a view no graph has: makes the comparison of the original with the loaded copy fail"""
    return ((tag, '', None, (), False),)


def safe_view(graph, known, fresh):
    r = _try(lambda: view(graph, known, fresh))
    return r[1] if r[0] == 'ok' else sentinel('CANNOT-INSPECT-' + str(r[1]))


def lock_run(spec, ops, via_individual):
    """applies ops to the original and to its loaded copy; returns (vo, vl, [(op, o_view|None, l_view|None)], flag).
    Whatever the LOADED copy raises while it is loaded, inspected or edited (and the original does not) shows
    up as a differing view, i.e. as a violation with this input - never as a driver error."""
    graph, objs = build_graph(spec)
    known = known_uids(spec, ops)
    fo, fl = {}, {}
    vo = view(graph, known, fo)
    ind_same = True
    if via_individual:
        icls = (C11Individual if spec.get('user') else
                nested_level(spec['nested']).Ind if spec.get('nested') else Individual)
        ind = icls(graph, fitness=SingleObjFitness(1.0), metadata={'t': 0.5, 'tags': ['a', 1]}, native_generation=3)
        sr = _try(lambda: ind.save())
        if sr[0] != 'ok':        # the property promises that any individual can be saved
            return vo, sentinel('SAVE-RAISED-' + str(sr[1])), [], False
        text = sr[1]
        lr = _try(lambda: Individual.load(text))
        gr = _try(lambda: lr[1].graph) if lr[0] == 'ok' else lr
        if gr[0] != 'ok':
            return vo, sentinel('LOAD-RAISED-' + str(gr[1])), [], False
        lind, loaded = lr[1], gr[1]
        ind_same = _try(lambda: (type(lind) is icls and lind.metadata == ind.metadata and lind.uid == ind.uid and
                                 lind.native_generation == 3 and lind.save() == text)) == ('ok', True)
    else:
        sr = _try(lambda: dumps(graph))
        if sr[0] != 'ok':
            return vo, sentinel('SAVE-RAISED-' + str(sr[1])), [], False
        text = sr[1]
        lr = _try(lambda: json.loads(text, cls=Serializer))
        if lr[0] != 'ok':
            return vo, sentinel('LOAD-RAISED-' + str(lr[1])), [], False
        loaded = lr[1]
    vl = safe_view(loaded, known, fl)
    # before any editing: the loaded copy saves to the same text and carries the same postprocess function
    meta_same = (ind_same and type(loaded) is type(graph) and
                 _try(lambda: [type(n) for n in loaded.nodes]) == ('ok', [type(n) for n in graph.nodes]) and
                 getattr(loaded, 'label', None) == getattr(graph, 'label', None) and
                 _try(lambda: extra_state(loaded)) == _try(lambda: extra_state(graph)) and
                 _try(lambda: loaded.descriptive_id) == _try(lambda: graph.descriptive_id) and
                 _try(lambda: (graph == loaded, loaded == graph)) == ('ok', (True, True)) and
                 _try(lambda: dumps(loaded) == dumps(graph)) == ('ok', True) and
                 _try(lambda: inner_graph(loaded)._postprocess_nodes is inner_graph(graph)._postprocess_nodes)
                 == ('ok', True))
    steps = []
    for op in ops:
        ro = _try(lambda: apply_op(graph, op))
        rl = _try(lambda: apply_op(loaded, op))
        a, b = view(graph, known, fo), safe_view(loaded, known, fl)
        def journal(g, fresh):     # uids made by uuid4 during the run are named as in the views
            rec = getattr(g, 'log_records', None)
            return None if rec is None else [tuple(fresh.get(x, x) for x in r) for r in rec]
        if _try(lambda: journal(graph, fo)) != _try(lambda: journal(loaded, fl)):
            b = sentinel('JOURNAL-DIFFERS')
        if _try(lambda: extra_state(graph)) != _try(lambda: extra_state(loaded)):
            b = sentinel('USER-ATTRIBUTES-DIFFER')
        if ro[0] == 'ok' and rl[0] == 'ok':
            steps.append((op, a, b))
        elif ro[0] == 'exc' and rl[0] == 'exc' and ro[1] == rl[1] and a == b:
            steps.append((op, None, None))
        else:
            # one raised and the other did not, or different exceptions, or different states after raising
            steps.append((op, None if ro[0] == 'exc' else a, sentinel('EXC-' + str(rl[1])) if rl[0] == 'exc' else b))
            if ro[0] == 'exc' and rl[0] == 'exc':
                steps[-1] = (op, a, sentinel('MISMATCH-AFTER-RAISE'))
        if ro[0] == 'exc' or rl[0] == 'exc':
            break          # the state after an exception is compared above; the sequence ends there
    return vo, vl, steps, meta_same


def lock_case(vo, vl, steps, meta_same=True, post=False, tamper=False):
    em = Em()
    names = {}

    def plain(v):
        k = view_key(v)
        if k not in names:
            names[k] = em.sh(c_view(v, em) + ' ')      # the blank keeps short views shareable as well
        return names[k]

    def ref(v):
        return '(@None view)' if v is None else '(Some %s)' % plain(v)
    a, b = plain(vo), plain(vl)
    ss = []
    for i, (op, x, y) in enumerate(steps):
        if tamper and i == len(steps) - 1 and y is not None:
            y = y[:-1] if len(y) else y + (('t', 't', None, (), True),)
        ss.append('mkStep %s %s %s' % (c_op(op, post), ref(x), ref(y)))
    return em.wrap('(%s, %s, %s, %s)' % (a, b, c_list(ss, 'lstep'), c_bool(meta_same)))


def gen_lock_specs(ctx):
    rng = ctx.rng
    n_seq = ctx.budget(1300, 10000)
    out = []
    counter = [0]
    for i in range(n_seq):
        n = rng.choice([2, 3, 3, 4, 4, 5])
        dag = rng.random() < 0.7
        pl = []
        for c in range(n):
            cand = list(range(c)) if dag else list(range(n))
            ps = [p for p in cand if rng.random() < 0.45]
            rng.shuffle(ps)
            pl.append(ps)
        nodes = [{'uid': 'n%d' % j, 'content': make_content(rng, rng.choice(['str', 'str', 'int', 'noname', 'enum', 'strsub', 'tuple'])),
                  'parents': pl[j]} for j in range(n)]
        order = list(range(n))
        if dag and rng.random() < 0.7:
            order.reverse()            # sinks first, as the constructor lists them
        else:
            rng.shuffle(order)
        spec = {'kind': rng.choice(['opt', 'opt', 'opt', 'linked']), 'nodes': nodes, 'order': order}
        if i % 4 == 1:
            # a graph with a user postprocess_nodes function (serialised by path), LinkedGraph directly
            # half of the time: delete_node / disconnect_nodes / update_node call it
            spec['post'] = True
            spec['kind'] = rng.choice(['linked', 'opt'])
        if i % 8 == 7:
            # a user graph class with a constructor-made logger and journal that its editing methods use
            spec['journal'] = True
            spec['kind'] = 'opt'
        if i % 8 == 2:
            # user node / graph classes with data attributes named catalog_key, dialog, topology, technology ('log'
            # inside the name): description() and connect_nodes depend on them; named nodes only, so that the
            # structural identifier holds no uid and can be compared after every step
            spec['attrs'] = {'keys': rng.sample(['k1', 'k2', 'k3'], 2), 'topology': rng.choice(['chain', 'free']),
                             'level': rng.choice([1, 2])}
            spec['kind'] = 'opt'
            for ns in nodes:
                if 'name' not in ns['content']:
                    ns['content']['name'] = rng.choice(NAMES)
        if i % 8 == 6:
            # user node / graph / individual classes (and, half of the time, a postprocess hook that is a static
            # method) nested 1, 2 or 3 classes deep: class paths with up to four dot-separated parts
            spec['nested'] = rng.choice([1, 2, 2, 3, 3])
            spec['kind'] = 'opt'
            if rng.random() < 0.5:
                spec['post'] = True
        if i % 8 == 3:
            # user subclasses of OptNode / OptGraph / Individual with their own (reversible) coders, registered after
            # the serializer's first use: original vs loaded copy
            spec['user'] = True
            spec['kind'] = 'opt'
            for ns in nodes:
                if rng.random() < 0.7:
                    ns['content']['params'] = copy.deepcopy(rng.choice([p for p in PARAMS if p]))
        out.append((spec, rng.randrange(1 << 30),
                    (i % 5 == 4 or (i % 16 == 3) or (i % 16 == 6)) and spec['kind'] == 'opt'))
    return out


def lock_ops(spec, seed, length=8):
    """ops are drawn while running on a scratch copy so that positions are valid for the current size"""
    import random
    rng = random.Random(seed)
    graph, _ = build_graph(spec)
    ops, counter = [], [0]
    for _ in range(length):
        op = gen_op(rng, len(graph.nodes), counter)
        ops.append(op)
        if _try(lambda: apply_op(graph, op))[0] == 'exc':
            break
    return ops


def run_lockstep(ctx):
    cases, meta = [], []
    for spec, seed, via_ind in gen_lock_specs(ctx):
        ops = lock_ops(spec, seed)
        vo, vl, steps, meta_same = lock_run(spec, ops, via_ind)
        post = bool(spec.get('post') or spec.get('attrs'))
        cases.append(lock_case(vo, vl, steps, meta_same, post))
        meta.append((spec, ops, via_ind, vo, vl, steps))
    # canary: the last observed view of the loaded copy is falsified
    for spec, ops, via_ind, vo, vl, steps in meta:
        if steps and steps[-1][2] is not None and steps[-1][1] is not None:
            cases.append(lock_case(vo, vl, steps, True, bool(spec.get('post') or spec.get('attrs')), tamper=True))
            ctx.canaries += 1
            break
    res = eval_cases(ctx, 'lockstep', FN_LOCK, cases, 2, per_shard=120)
    if len(res) > len(meta) and not res[-1][1]:
        ctx.canaries_caught += 1
    sampled = 0
    for (spec, ops, via_ind, vo, vl, steps), r in zip(meta, res):
        case = {'group': 'lockstep', 'spec': spec, 'ops': ops, 'via_individual': via_ind}
        dup = any(len(set(x[3])) != len(x[3]) for st in steps for v in st[1:] if v for x in v)
        for op, a, b in steps:
            ctx.count('lockstep', key=(view_key(vo), json.dumps(ops, sort_keys=True)), nontrivial=True, op=op[0],
                      raised=(a is None), modelled=(c_op(op, bool(spec.get('post') or spec.get('attrs'))) != 'OOther'),
                      duplicate_links=dup, user_postprocess=bool(spec.get('post')), graph_class=spec['kind'],
                      user_coders=bool(spec.get('user')), via_individual=via_ind,
                      journal_graph=bool(spec.get('journal') or spec.get('user')),
                      nested_classes=spec.get('nested', 0), data_attributes=bool(spec.get('attrs')))
        if not steps:
            ctx.count('lockstep', key=(view_key(vo), 'no-ops'), nontrivial=False, op='none')
        if not r[0]:
            ctx.disagree('lockstep', case, 'model of connect/disconnect/delete_node differs from the implementation')
        if not r[1]:
            ctx.violate('lockstep', case, 'the loaded copy and the original differ after the same editing operations '
                                          '(or before them: postprocess function / saved text of the loaded copy)')
        if sampled < 1 and len(steps) >= 4:
            sampled += 1
            ctx.sample({'group': 'lockstep', 'spec': spec, 'ops': ops,
                        'views_equal_after_every_step': r[1], 'model_agrees': r[0]})


# ------------------------------------------------------------------------------------------
# group: reload (one saved text loaded several times in one process while the defining module of a user node
# class is unimportable / importable / reloaded; every load is judged on its own)
# ------------------------------------------------------------------------------------------
USER_MODULE_SOURCE = '''
from golem.core.optimisers.graph import OptNode


class DomainNode(OptNode):
    """node of a user's domain: the unit of the node is a part of its description"""

    def __init__(self, content, nodes_from=None, unit='m'):
        super().__init__(content, nodes_from)
        self.unit = unit

    def description(self):
        return '%s[%s]' % (super().description(), self.unit)
'''
_MODULE_COUNTER = [0]


def reload_scenario(spec, loads, via_individual):
    """spec: graph spec (nodes become DomainNode objects of a fresh temporary module); loads: list of
    'visible' | 'hidden' | 'reloaded'.  Returns [(state, vo, vl, flag)], one entry per load."""
    import importlib
    import os
    import shutil
    import sys
    import tempfile
    _MODULE_COUNTER[0] += 1
    name = 'c11_user_domain_%d_%d' % (os.getpid(), _MODULE_COUNTER[0])
    user_dir = tempfile.mkdtemp(prefix='c11_user_pkg_')
    out = []
    try:
        with open(os.path.join(user_dir, name + '.py'), 'w') as f:
            f.write(USER_MODULE_SOURCE)
        sys.path.insert(0, user_dir)
        importlib.invalidate_caches()
        module = importlib.import_module(name)
        cls = module.DomainNode
        objs = []
        for j, ns in enumerate(spec['nodes']):
            n = cls(materialise_content(ns['content']), unit=['m', 'kg', 's'][j % 3])
            n.uid = ns['uid']
            objs.append(n)
        for ns, n in zip(spec['nodes'], objs):
            n.nodes_from = [objs[p] for p in ns['parents']]
        graph = OptGraph()
        graph.nodes = [objs[i] for i in spec['order']]
        saved_obj = Individual(graph, fitness=SingleObjFitness(0.5), native_generation=1) if via_individual else graph
        text = saved_obj.save() if via_individual else dumps(graph)
        known = {ns['uid'] for ns in spec['nodes']}
        vo = view(graph, known, {})
        hidden = None
        for state in loads:
            if state == 'hidden' and hidden is None:
                sys.path.remove(user_dir)
                hidden = sys.modules.pop(name)
                importlib.invalidate_caches()
            elif state != 'hidden' and hidden is not None:
                sys.path.insert(0, user_dir)
                sys.modules[name] = hidden
                hidden = None
                importlib.invalidate_caches()
            if state == 'reloaded':
                module = importlib.reload(module)
            lr = _try(lambda: Individual.load(text).graph if via_individual else json.loads(text, cls=Serializer))
            if lr[0] != 'ok':
                out.append((state, vo, sentinel('LOAD-RAISED-' + str(lr[1])), False))
                continue
            loaded = lr[1]
            vl = safe_view(loaded, known, {})
            if state == 'hidden':
                # documented fallback: base nodes; only ids, names, parameters and edges (the view) are demanded
                flag = True
            else:
                want = module.DomainNode
                flag = (_try(lambda: all(type(n) is want for n in loaded.nodes)) == ('ok', True) and
                        _try(lambda: [n.unit for n in loaded.nodes]) == ('ok', [n.unit for n in graph.nodes]) and
                        _try(lambda: loaded.descriptive_id) == _try(lambda: graph.descriptive_id) and
                        _try(lambda: (graph == loaded, loaded == graph)) == ('ok', (True, True)) and
                        _try(lambda: dumps(loaded) == dumps(graph)) == ('ok', True))
            out.append((state, vo, vl, flag))
    finally:
        if user_dir in sys.path:
            sys.path.remove(user_dir)
        sys.modules.pop(name, None)
        shutil.rmtree(user_dir, ignore_errors=True)
        importlib.invalidate_caches()
    return out


RELOAD_ORDERS = [['hidden', 'visible', 'reloaded'], ['visible', 'hidden', 'visible', 'reloaded'],
                 ['hidden', 'hidden', 'visible'], ['visible', 'reloaded', 'hidden', 'visible']]


def run_reload(ctx):
    rng = ctx.rng
    n = ctx.budget(24, 200)
    cases, meta = [], []
    specs = [sp for _, sp in gen_graph_specs_small(ctx, n)]
    for i, spec in enumerate(specs):
        for ns in spec['nodes']:
            if 'name' not in ns['content']:
                ns['content']['name'] = rng.choice(NAMES)     # the structural identifier then holds no uid
        spec['kind'] = 'opt'
        loads = RELOAD_ORDERS[i % len(RELOAD_ORDERS)]
        via = (i % 3 == 1)
        for k, (state, vo, vl, flag) in enumerate(reload_scenario(spec, loads, via)):
            cases.append(lock_case(vo, vl, [], flag))
            meta.append((spec, loads, via, k, state))
    res = eval_cases(ctx, 'reload', FN_LOCK, cases, 2, per_shard=120)
    for (spec, loads, via, k, state), r in zip(meta, res):
        ctx.count('reload', key=(json.dumps(spec, sort_keys=True), tuple(loads), k), nontrivial=True, module_state=state,
                  load_number=k + 1, via_individual=via)
        if not r[1]:
            ctx.violate('reload', {'group': 'reload', 'spec': spec, 'loads': loads, 'via_individual': via, 'failing_load': k},
                        'load number %d of one saved text (module %s) does not give back the saved graph' % (k + 1, state))


# ------------------------------------------------------------------------------------------
def run(ctx):
    ctx.rule = ('graphs: every digraph on <= 3 nodes (self-loops included) + every 4-node DAG over a fixed numbering '
                '+ random 4..6-node graphs (DAG / cyclic, OptGraph / LinkedGraph, str / int / bool / missing names, '
                'nested params, extra content keys, shuffled listing and parent order); individuals: default / invalid / '
                'single / multi-objective fitness on a dyadic grid x metadata x native generation x parent operator '
                '(none / mutation with 1 parent / crossover with 2 / no parents), alternately through json.dumps/loads '
                'and Individual.save/load; json-load: hand-edited JSON; lockstep: <= 8 random editing operations applied to '
                'the original and the loaded copy, one evaluation per operation. distinct = distinct spec; non-trivial = '
                'graph with an edge / individual with valid fitness or parent operator / every lock-step operation')
    ctx.trusted_extra = [
        'a node name that is not a plain str / int / bool / None (float, tuple, str-subclass object such as a str-Enum '
        'member) is shown to the model as str(name); the typed before/after snapshot of the harness checks that saving '
        'leaves the name object itself unchanged',
        'graphs with a user postprocess function and user graph / node / individual subclasses (own coders, '
        'constructor-made logger and journal, classes and static-method hooks nested up to three classes deep) are '
        'compared original-vs-loaded only, without the model',
        'json text <-> tree (CPython json.dumps / json.loads: key order = dict order, float printing) is compared '
        'textually by the harness (second text == first text) and not modelled',
        'non-finite floats (inf / -inf / nan, anywhere in params / metadata / fitness) are shown to the model as the '
        'reserved strings #Infinity# / #-Infinity# / #NaN# (also the tokens Infinity / -Infinity / NaN of the JSON text)',
        'inputs hold only JSON-native values (string keys, no tuples, dyadic non-integral or non-finite floats, ints); '
        'the JSON-tree model does not tell 1 from 1.0',
        'lock-step: only connect_nodes, disconnect_nodes (without clean-up) and delete_node are run through the '
        'model; the other editing methods are compared original-vs-loaded only (their model is Graph/Ops.v, C04)',
        'uuid4 values renewed by update_subtree are compared through canonical renaming']
    run_graphs(ctx)
    run_individuals(ctx)
    run_json_load(ctx)
    run_lockstep(ctx)
    run_reload(ctx)


def replay_cases(ctx, cases):
    """re-observes stored cases (replay files, corpus) and evaluates them, one coqc call per group"""
    by = {'graphs': [], 'individuals': [], 'lockstep': [], 'reload': []}
    for case in cases:
        if isinstance(case, dict) and case.get('group') in by:
            by[case['group']].append(case)
    if by['graphs']:
        terms = []
        for case in by['graphs']:
            h, o = observe_graph(case['spec'])
            terms.append(graph_case(case['spec'], h, o))
        for case, r in zip(by['graphs'], ctx.coq_cases('replay', REQ, FN_GRAPH, terms, K_GRAPH, preamble=PRE)):
            ctx.count('replay', key=json.dumps(case, sort_keys=True), nontrivial=True, kind='graphs')
            if not r[0]:
                ctx.disagree('replay', case, 'model and implementation differ on the round trip')
            for ok, what in zip(r[1:], GRAPH_CLAUSES):
                if not ok:
                    ctx.violate('replay', case, what)
    if by['individuals']:
        terms = []
        for case in by['individuals']:
            h, term, o = observe_individual(case['spec'], case.get('via_methods', False))
            terms.append(ind_case(case['spec'], h, term, o))
        for case, r in zip(by['individuals'], ctx.coq_cases('replay', REQ, FN_IND, terms, K_IND, preamble=PRE)):
            ctx.count('replay', key=json.dumps(case, sort_keys=True), nontrivial=True, kind='individuals')
            if not r[0]:
                ctx.disagree('replay', case, 'model and implementation differ on the individual round trip')
            for ok, what in zip(r[1:], IND_CLAUSES):
                if not ok:
                    ctx.violate('replay', case, what)
    if by['reload']:
        replay_reload(ctx, by['reload'])
    if by['lockstep']:
        terms = []
        for case in by['lockstep']:
            ops = [tuple(o) for o in case['ops']]
            vo, vl, steps, meta_same = lock_run(case['spec'], ops, case.get('via_individual', False))
            terms.append(lock_case(vo, vl, steps, meta_same, bool(case['spec'].get('post') or case['spec'].get('attrs'))))
        for case, r in zip(by['lockstep'], ctx.coq_cases('replay', REQ, FN_LOCK, terms, 2, preamble=PRE)):
            ctx.count('replay', key=json.dumps(case, sort_keys=True), nontrivial=True, kind='lockstep')
            if not r[0]:
                ctx.disagree('replay', case, 'model of the editing operations differs from the implementation')
            if not r[1]:
                ctx.violate('replay', case, 'the loaded copy and the original differ after the same editing operations')


def replay_reload(ctx, cases):
    terms, meta = [], []
    for case in cases:
        for k, (state, vo, vl, flag) in enumerate(reload_scenario(case['spec'], case['loads'], case.get('via_individual', False))):
            terms.append(lock_case(vo, vl, [], flag))
            meta.append((case, k, state))
    for (case, k, state), r in zip(meta, ctx.coq_cases('replay', REQ, FN_LOCK, terms, 2, preamble=PRE)):
        ctx.count('replay', key=(json.dumps(case, sort_keys=True), k), nontrivial=True, kind='reload')
        if not r[1]:
            ctx.violate('replay', dict(case, failing_load=k),
                        'load number %d of one saved text (module %s) does not give back the saved graph' % (k + 1, state))


def replay(ctx, payload):
    """a replay file written by the runner (one case) or a corpus file {'cases': [...]}"""
    if isinstance(payload, dict) and 'cases' in payload:
        replay_cases(ctx, payload['cases'])
        return
    v = payload.get('violation') or payload.get('first_disagreement') or payload
    case = v.get('case') if isinstance(v, dict) else None
    if case:
        replay_cases(ctx, [case])
