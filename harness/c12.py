"""C12 - structural queries agree with graph-theoretic ground truth.
Implementation: golem.core.dag.graph_utils (graph_has_cycle, ordered_subnodes_hierarchy, node_depth,
distance_to_*), golem.core.dag.linked_graph (root_nodes, node_children, get_edges, depth) driven through
OptGraph / OptNode.
Model: coq/theories/Graph/Queries.v (agree_l); ground truth: coq/theories/Graph/QueriesSpec.v (holds_l,
boolean transitive closure - independent of the depth-first searches of the model)."""
import itertools
import signal
import sys

from common import c_Z, c_bool, c_list, c_nat, c_opt

from golem.core.dag.graph_utils import (graph_has_cycle, ordered_subnodes_hierarchy, node_depth,
                                        distance_to_primary_level, distance_to_root_level)
from golem.core.optimisers.graph import OptGraph, OptNode

REQ = ['Graph.QueriesSpec', 'Graph.Queries']
FN = 'check_case'
AGREE = ['graph_has_cycle', 'depth', 'root_nodes', 'node_children', 'get_edges', 'ordered_subnodes_hierarchy',
         'node_depth', 'node_depth(list)', 'distance_to_primary_level', 'distance_to_root_level']
HOLDS = ['cycle detection answers true exactly when a directed cycle exists',
         'root_nodes returns exactly the sinks',
         'node_children returns exactly the successors',
         'get_edges returns exactly the edge set',
         'depth is the number of nodes on the longest path (0 empty, -1 cyclic)',
         'ordered_subnodes_hierarchy: node first, then exactly its ancestors once; error iff a cycle is reachable',
         'node_depth is the number of nodes on the longest path ending in the node; -1 iff a cycle is reachable',
         'node_depth of a list of nodes is the maximum; -1 iff a cycle is reachable from one of them']
K = len(AGREE) + len(HOLDS)
WATCHDOG_S = 5


class Hang(Exception):
    pass


def _alarm(signum, frame):
    raise Hang()


def build(par):
    """real graph whose i-th listed node has the parents par[i] (indices), in that order"""
    nodes = [OptNode('n%d' % i) for i in range(len(par))]
    for i, ps in enumerate(par):
        nodes[i].nodes_from = [nodes[p] for p in ps]
    g = OptGraph()
    g.nodes = list(nodes)
    return g, nodes


def observe(par, queries):
    """all observations on one graph; raises Hang when the watchdog fires"""
    g, nodes = build(par)
    idx = {id(nd): i for i, nd in enumerate(nodes)}
    ix = lambda nd: idx[id(nd)]
    odd = []     # unexpected exception kinds (reported as disagreements)

    def hier(v):
        try:
            return [ix(x) for x in ordered_subnodes_hierarchy(nodes[v])]
        except ValueError:
            return None
        except Hang:
            raise
        except Exception as ex:  # any other exception kind: an error signal, but not the modelled one
            odd.append('ordered_subnodes_hierarchy(%d): %s' % (v, type(ex).__name__))
            return None

    def ndl(vs):
        try:
            return int(node_depth([nodes[v] for v in vs]))
        except ValueError:
            return None

    def droot(v):
        r = distance_to_root_level(g, nodes[v])
        return -2 if r is None else int(r)

    signal.signal(signal.SIGALRM, _alarm)
    signal.setitimer(signal.ITIMER_REAL, WATCHDOG_S)
    try:
        o = {
            'cycle': bool(graph_has_cycle(g)),
            'depth': int(g.depth),
            'roots': [ix(x) for x in g.root_nodes()],
            'children': [[ix(x) for x in g.node_children(nd)] for nd in nodes],
            'edges': [[ix(p), ix(c)] for p, c in g.get_edges()],
            'hier': [hier(v) for v in range(len(nodes))],
            'ndepth': [int(node_depth(nd)) for nd in nodes],
            'ndlist': [[list(vs), ndl(vs)] for vs in queries],
            'dprim': [int(distance_to_primary_level(nd)) for nd in nodes],
            'droot': [droot(v) for v in range(len(nodes))],
        }
    finally:
        signal.setitimer(signal.ITIMER_REAL, 0)
    # the queries must not have edited the graph
    if [[ix(p) for p in nd.nodes_from] for nd in g.nodes] != [list(ps) for ps in par] or \
            [id(x) for x in g.nodes] != [id(x) for x in nodes]:
        odd.append('a query modified the graph')
    return o, odd


def nl(xs):
    return c_list([c_nat(x) for x in xs], 'nat')


def case_coq(par, o):
    g = c_list([nl(ps) for ps in par], '(list nat)')
    ob = ('{| ob_cycle := %s; ob_depth := %s; ob_roots := %s; ob_children := %s; ob_edges := %s; '
          'ob_hier := %s; ob_ndepth := %s; ob_ndlist := %s; ob_dprim := %s; ob_droot := %s |}') % (
        c_bool(o['cycle']), c_Z(o['depth']), nl(o['roots']),
        c_list([nl(cs) for cs in o['children']], '(list nat)'),
        c_list(['(%s, %s)' % (c_nat(p), c_nat(c)) for p, c in o['edges']], '(nat * nat)'),
        c_list([c_opt(h, nl, '(list nat)') for h in o['hier']], '(option (list nat))'),
        c_list([c_Z(d) for d in o['ndepth']], 'Z'),
        c_list(['(%s, %s)' % (nl(vs), c_opt(d, c_Z, 'Z')) for vs, d in o['ndlist']], '(list nat * option Z)'),
        c_list([c_Z(d) for d in o['dprim']], 'Z'),
        c_list([c_Z(d) for d in o['droot']], 'Z'))
    return '(%s, %s)' % (g, ob)


# ------------------------------------------------------------------------------------------
# generators
# ------------------------------------------------------------------------------------------
def subsets_ordered(n):
    """all duplicate-free parent lists over n nodes, in every order"""
    out = []
    for k in range(n + 1):
        out.extend(itertools.permutations(range(n), k))
    return [list(x) for x in out]


def all_ordered_digraphs(n):
    """every digraph on n listed nodes (self-loops allowed) with every order of every parent list"""
    opts = subsets_ordered(n)
    for combo in itertools.product(opts, repeat=n):
        yield [list(ps) for ps in combo]


def all_digraphs(n):
    """every digraph on n listed nodes (self-loops allowed); parent lists ascending"""
    masks = range(1 << n)
    rows = [[p for p in range(n) if m >> p & 1] for m in masks]
    for combo in itertools.product(rows, repeat=n):
        yield [list(ps) for ps in combo]


def all_dags(n):
    """every labelled DAG on n nodes (parent lists ascending)"""
    rows = [[p for p in range(n) if m >> p & 1] for m in range(1 << n)]

    def acyclic(par):
        state = [0] * n

        def visit(v):
            if state[v] == 1:
                return False
            if state[v] == 2:
                return True
            state[v] = 1
            ok = all(visit(p) for p in par[v])
            state[v] = 2
            return ok
        return all(visit(v) for v in range(n))

    def rec(i, par):
        if i == n:
            if acyclic(par):
                yield [list(ps) for ps in par]
            return
        for r in rows:
            if i in r:
                continue
            par.append(r)
            yield from rec(i + 1, par)
            par.pop()
    yield from rec(0, [])


def random_graph(r):
    """structured random digraph on 1..12 nodes"""
    n = r.choice([1, 2, 3, 4, 5, 5, 6, 6, 7, 8, 9, 10, 11, 12])
    kind = r.choice(['dag', 'dag', 'dag', 'dag+back', 'sparse', 'dense', 'loops', 'forest', 'chain', 'layers', 'union'])
    perm = list(range(n))
    r.shuffle(perm)
    par = [[] for _ in range(n)]

    def add(c, p):
        if p not in par[c]:
            par[c].append(p)
    if kind in ('dag', 'dag+back', 'loops'):
        dens = r.choice([0.15, 0.3, 0.5, 0.8])
        for a in range(n):
            for b in range(a + 1, n):
                if r.random() < dens:
                    add(perm[a], perm[b])
        if kind == 'dag+back' and n >= 2:
            a, b = sorted(r.sample(range(n), 2))
            add(perm[b], perm[a])
        if kind == 'loops':
            v = r.randrange(n)
            add(v, v)
    elif kind in ('sparse', 'dense'):
        m = r.randrange(0, n + 1) if kind == 'sparse' else r.randrange(n, min(3 * n, n * n) + 1)
        for _ in range(m):
            add(r.randrange(n), r.randrange(n))
    elif kind == 'forest':
        for a in range(1, n):
            if r.random() < 0.8:
                add(perm[r.randrange(a)], perm[a])     # each later node feeds one earlier node
    elif kind == 'chain':
        for a in range(n - 1):
            add(perm[a], perm[a + 1])
        if r.random() < 0.3 and n >= 2:
            add(perm[n - 1], perm[r.randrange(n)])
    elif kind == 'layers':
        w = r.choice([1, 2, 3])
        layers = [perm[i:i + w] for i in range(0, n, w)]
        for la, lb in zip(layers, layers[1:]):
            for a in la:
                for b in lb:
                    if r.random() < 0.85:
                        add(a, b)
    elif kind == 'union':
        cut = r.randrange(1, n + 1)
        for part in (perm[:cut], perm[cut:]):
            for a in range(len(part)):
                for b in range(a + 1, len(part)):
                    if r.random() < 0.5:
                        add(part[a], part[b])
        if r.random() < 0.3 and len(perm[cut:]) >= 2:
            add(perm[-1], perm[cut])
    for ps in par:
        r.shuffle(ps)
    return par, kind


def default_queries(par, r, lean=False):
    """node lists for node_depth: all nodes, reversed, the sinks, a random sample, a repeat
    (lean: only all nodes and a random sample - used for the big exhaustive groups)"""
    n = len(par)
    if n == 0:
        return [[]]
    allv = list(range(n))
    if lean:
        return [allv, r.sample(allv, r.randrange(1, n + 1))]
    has_child = {p for ps in par for p in ps}
    sinks = [v for v in allv if v not in has_child]
    qs = [allv, allv[::-1]]
    if sinks:
        qs.append(sinks)
    k = r.randrange(1, n + 1)
    qs.append(r.sample(allv, k))
    v = r.randrange(n)
    qs.append([v, r.randrange(n), v])
    if r.random() < 0.05:
        qs.append([])
    return qs


def facts(par, o):
    n = len(par)
    m = sum(len(ps) for ps in par)
    return dict(n=n, edges=min(m, 20), cyclic=o['cycle'], selfloop=any(v in ps for v, ps in enumerate(par)),
                depth=o['depth'], sinks=min(len(o['roots']), 4),
                hierarchy_errors=sum(1 for h in o['hier'] if h is None))


# ------------------------------------------------------------------------------------------
def evaluate(ctx, group, items):
    """items: list of (par, queries).  Observes, evaluates in Coq, books the results."""
    cases, meta = [], []
    hangs = 0
    for par, queries in items:
        case = {'par': par, 'queries': queries}
        if hangs >= 3:      # every hang costs the watchdog time: three are enough to report
            ctx.notes.append('group %s abandoned after 3 hangs' % group)
            break
        try:
            o, odd = observe(par, queries)
        except Hang:
            hangs += 1
            ctx.count(group, key=repr(par), nontrivial=True, n=len(par), hang=True)
            ctx.violate(group, case, 'a structural query did not return within %d s (hang)' % WATCHDOG_S)
            continue
        except RecursionError as ex:
            ctx.count(group, key=repr(par), nontrivial=True, n=len(par), hang=True)
            ctx.violate(group, case, 'a structural query exhausted the recursion limit: %s' % ex)
            continue
        except Exception as ex:
            ctx.count(group, key=repr(par), nontrivial=True, n=len(par))
            ctx.violate(group, case, 'a structural query raised %s: %s' % (type(ex).__name__, ex))
            continue
        case['observed'] = o
        for what in odd:
            ctx.disagree(group, case, what)
        cases.append(case_coq(par, o))
        meta.append((case, o))
    res = ctx.coq_cases(group, REQ, FN, cases, K, shard=600, case_ty='dg * obs')
    for (case, o), flags in zip(meta, res):
        par = case['par']
        ctx.count(group, key=repr(par), nontrivial=(len(par) >= 2 and any(par)), **facts(par, o))
        ag, ho = flags[:len(AGREE)], flags[len(AGREE):]
        for name, ok in zip(HOLDS, ho):
            if not ok:
                ctx.violate(group, case, name)
        for name, ok in zip(AGREE, ag):
            if not ok:
                ctx.disagree(group, case, 'model and implementation differ on ' + name)
    return meta


def run(ctx):
    ctx.rule = ('digraphs given as ordered parent lists per listed node (self-loops, cycles, disconnected, empty); '
                'exhaustive: every digraph on <= 3 nodes with every order of every parent list (quick), plus every '
                'digraph on 4 nodes and every DAG on 5 nodes with ascending parent lists and a sample of 8000 four-node digraphs '
                'with shuffled parent lists (thorough); random: '
                'structured digraphs on 1..12 nodes (DAGs of several densities, DAG + back edge, self-loops, '
                'forests, chains, layered, disjoint unions) under random listing order and parent order; every node '
                'is a query argument; distinct = distinct parent-list structure; non-trivial = >= 2 nodes and >= 1 edge')
    ctx.trusted_extra = [
        'node identity is modelled by the position in graph.nodes (GOLEM nodes compare by identity and carry '
        'distinct uids); parent lists are UniqueList objects, so duplicate-free',
        'node_depth is modelled by its path semantics (recursion over the current path) rather than by its '
        'explicit iterator stack; the iterator bookkeeping is covered by this correspondence only',
        'the watchdog (%d s per graph, SIGALRM) is what observes "never a hang" on the implementation; in the '
        'model termination is a theorem (fuel sufficiency)' % WATCHDOG_S]
    r = ctx.rng
    # ---- corpus (minimised past failures / hand-picked regression inputs)
    pending = ctx.__dict__.pop('c12_corpus', [])
    if pending:
        evaluate(ctx, 'corpus', pending)
    # ---- exhaustive small scope
    small = []
    for n in range(0, 4):
        small.extend(all_ordered_digraphs(n))
    meta = evaluate(ctx, 'exhaustive<=3', [(par, default_queries(par, r)) for par in small])
    ctx.set_exhaustive('exhaustive<=3', True)
    for case, o in meta[1:2] + meta[700:701]:
        ctx.sample(case)
    if ctx.tier == 'thorough':
        items = [(par, default_queries(par, r, lean=True)) for par in all_digraphs(4)]
        evaluate(ctx, 'exhaustive4', items)
        ctx.set_exhaustive('exhaustive4', True)
        # a sample of the same graphs with shuffled parent order (the search order of the DFS depends on it)
        pool = [par for par in all_digraphs(4) if any(len(ps) > 1 for ps in par)]
        items = []
        for par in r.sample(pool, ctx.budget(8000, 8000)):
            par = [r.sample(ps, len(ps)) for ps in par]
            items.append((par, default_queries(par, r)))
        evaluate(ctx, 'digraphs4-shuffled', items)
        items = [(par, default_queries(par, r, lean=True)) for par in all_dags(5)]
        evaluate(ctx, 'dags5', items)
        ctx.set_exhaustive('dags5', True)
    # ---- structured random
    items = []
    for _ in range(ctx.budget(1500, 6000)):
        par, kind = random_graph(r)
        items.append((par, default_queries(par, r)))
    meta = evaluate(ctx, 'random', items)
    for case, o in meta[:3]:
        ctx.sample(case)
    # ---- canary: a wrong observation must be flagged by model and oracle
    par = [[1], []]
    o, _ = observe(par, [[0, 1]])
    o['cycle'] = not o['cycle']
    o['hier'][0] = [0]
    ctx.canaries += 1
    res = ctx.coq_cases('canary', REQ, FN, [case_coq(par, o)], K, case_ty='dg * obs')
    flags = res[0]
    if (not flags[0]) and (not flags[len(AGREE)]) and (not flags[5]) and (not flags[len(AGREE) + 5]):
        ctx.canaries_caught += 1


def replay(ctx, payload):
    v = payload.get('violation') or payload.get('first_disagreement') or payload
    case = v.get('case') if isinstance(v, dict) else None
    if not case or 'par' not in case:
        return
    item = ([list(ps) for ps in case['par']], [list(q) for q in case.get('queries', [])])
    if payload.get('corpus') and '--replay' not in sys.argv:
        # corpus files are evaluated together at the start of run() (one coqc instead of one per file)
        ctx.__dict__.setdefault('c12_corpus', []).append(item)
        return
    evaluate(ctx, 'replay', [item])
