"""C12 - structural queries agree with graph-theoretic ground truth.
Implementation: golem.core.dag.graph_utils (graph_has_cycle, ordered_subnodes_hierarchy, node_depth,
distance_to_*), golem.core.dag.linked_graph (root_nodes, node_children, get_edges, depth) driven through
OptGraph / OptNode.
Model: coq/theories/Graph/Queries.v (agree_l); ground truth: coq/theories/Graph/QueriesSpec.v (holds_l,
boolean transitive closure - independent of the depth-first searches of the model)."""
import itertools
import signal
import sys

from common import c_Z, c_bool, c_list, c_nat, c_opt

from golem.core.dag.graph_utils import (graph_has_cycle, ordered_subnodes_hierarchy, node_depth,
                                        distance_to_primary_level, distance_to_root_level)
from golem.core.dag.graph_delegate import GraphDelegate
from golem.core.dag.linked_graph import LinkedGraph
from golem.core.optimisers.graph import OptGraph, OptNode

REQ = ['Graph.QueriesSpec', 'Graph.Queries']
FN = 'check_case'
AGREE = ['graph_has_cycle', 'depth', 'root_nodes', 'node_children', 'get_edges', 'ordered_subnodes_hierarchy',
         'node_depth', 'node_depth(list)', 'distance_to_primary_level', 'distance_to_root_level']
HOLDS = ['cycle detection answers true exactly when a directed cycle exists',
         'root_nodes returns exactly the sinks',
         'node_children returns exactly the successors',
         'get_edges returns exactly the edge set',
         'depth is the number of nodes on the longest path (0 empty, -1 cyclic)',
         'ordered_subnodes_hierarchy: node first, then exactly its ancestors once; error iff a cycle is reachable',
         'node_depth is the number of nodes on the longest path ending in the node; -1 iff a cycle is reachable',
         'node_depth of a list of nodes is the maximum; -1 iff a cycle is reachable from one of them']
K = len(AGREE) + len(HOLDS)
WATCHDOG_S = 5


class Hang(Exception):
    pass


def _alarm(signum, frame):
    raise Hang()


# ---- round 8: the nodes argument of node_depth handed over in other legal iterable forms (the helper
# ---- ensure_wrapped_in_sequence accepts any Iterable): each denotes the list of its elements
CONTAINERS = ('tuple', 'iterator', 'generator', 'dict-keys', 'dict-values', 'chain')


def as_container(kind, xs):
    """(the container handed to the implementation, the list it denotes)"""
    xs = list(xs)
    if kind == 'tuple':
        return tuple(xs), xs
    if kind == 'iterator':
        return iter(xs), xs
    if kind == 'generator':
        return (x for x in xs), xs
    if kind == 'dict-keys':          # insertion ordered, repeats dropped (nodes hash by uid / by key)
        d = dict.fromkeys(xs)
        return d.keys(), list(d)
    if kind == 'dict-values':
        return dict(enumerate(xs)).values(), xs
    if kind == 'chain':              # one-shot iterator without __len__
        return itertools.chain(xs[:1], xs[1:]), xs
    raise ValueError(kind)


def depth_variants(nodes, ix, queries, base, kinds=CONTAINERS):
    """node_depth over every query handed over in every container kind.  A result equal to the one for the
    plain list of the same elements is covered by that entry of ndlist; anything else (other element list
    after dropping repeats, other answer, exception) becomes an entry of its own: [kind, elements, answer]."""
    known = {tuple(vs): d for vs, d in base}
    out = []
    for vs in queries:
        for kind in kinds:
            arg, denoted = as_container(kind, [nodes[v] for v in vs])
            dv = [ix(x) for x in denoted]
            try:
                d = int(node_depth(arg))
            except ValueError:
                d = None
            if tuple(dv) in known and known[tuple(dv)] == d:
                continue
            out.append([kind, dv, d])
            known.setdefault(tuple(dv), d)
    return out


# ---- user subclasses: the queries are defined on the stored structure (nodes_from, identity, uid), so
# ---- a graph class that overrides root_node or a node class with its own __len__/__bool__/__eq__ must
# ---- get the same answers as the stock classes
class FirstSinkGraph(LinkedGraph):
    """root_node narrowed to the sink listed first"""
    @property
    def root_node(self):
        roots = self.root_nodes()
        return roots[0] if roots else None


class StrictRootGraph(LinkedGraph):
    """FEDOT style: asking for THE root node of a graph with several sinks is an error"""
    @property
    def root_node(self):
        roots = self.root_nodes()
        if not roots:
            return None
        if len(roots) > 1:
            raise ValueError('More than 1 root_nodes in graph')
        return roots[0]


class JoinNode(OptNode):
    """len(node) = number of inputs: nodes without parents are falsy"""
    def __len__(self):
        return len(self.nodes_from)


class LeafFalseNode(OptNode):
    """__bool__: only nodes that have inputs are truthy"""
    def __bool__(self):
        return bool(self.nodes_from)


class NeverTrueNode(OptNode):
    """__bool__ is always False"""
    def __bool__(self):
        return False


class ZeroLenNode(OptNode):
    """__len__ is always 0: every instance is falsy"""
    def __len__(self):
        return 0


class KeyEqNode(OptNode):
    """value-based equality on a key that is unique inside a graph (consistent __hash__)"""
    def __eq__(self, other):
        return isinstance(other, KeyEqNode) and self.content['name'] == other.content['name']

    def __hash__(self):
        return hash(self.content['name'])


NODE_KINDS = {'plain': OptNode, 'len': JoinNode, 'leaf-false': LeafFalseNode, 'key-eq': KeyEqNode,
              'never-true': NeverTrueNode, 'zero-len': ZeroLenNode}
GRAPH_KINDS = ('opt', 'first-sink', 'strict-root', 'delegate-first-sink', 'delegate-strict-root')
STOCK = ('plain', 'opt')


def build(par, flavour=STOCK):
    """real graph whose i-th listed node has the parents par[i] (indices), in that order"""
    node_cls = NODE_KINDS[flavour[0]]
    nodes = [node_cls('n%d' % i) for i in range(len(par))]
    for i, ps in enumerate(par):
        nodes[i].nodes_from = [nodes[p] for p in ps]
    gk = flavour[1]
    if gk == 'opt':
        g = OptGraph()
    elif gk == 'first-sink':
        g = FirstSinkGraph()
    elif gk == 'strict-root':
        g = StrictRootGraph()
    elif gk == 'delegate-first-sink':
        g = GraphDelegate(delegate_cls=FirstSinkGraph)
    else:
        g = GraphDelegate(delegate_cls=StrictRootGraph)
    g.nodes = list(nodes)
    return g, nodes


def observe(par, queries, flavour=STOCK):
    """all observations on one graph; raises Hang when the watchdog fires"""
    g, nodes = build(par, flavour)
    idx = {id(nd): i for i, nd in enumerate(nodes)}
    ix = lambda nd: idx[id(nd)]
    odd = []     # unexpected exception kinds (reported as disagreements)

    def hier(v):
        try:
            return [ix(x) for x in ordered_subnodes_hierarchy(nodes[v])]
        except ValueError:
            return None
        except Hang:
            raise
        except Exception as ex:  # any other exception kind: an error signal, but not the modelled one
            odd.append('ordered_subnodes_hierarchy(%d): %s' % (v, type(ex).__name__))
            return None

    def ndl(vs):
        try:
            return int(node_depth([nodes[v] for v in vs]))
        except ValueError:
            return None

    def droot(v):
        r = distance_to_root_level(g, nodes[v])
        return -2 if r is None else int(r)

    signal.signal(signal.SIGALRM, _alarm)
    signal.setitimer(signal.ITIMER_REAL, WATCHDOG_S)
    try:
        o = {
            'cycle': bool(graph_has_cycle(g)),
            'depth': int(g.depth),
            'roots': [ix(x) for x in g.root_nodes()],
            'children': [[ix(x) for x in g.node_children(nd)] for nd in nodes],
            'edges': [[ix(p), ix(c)] for p, c in g.get_edges()],
            'hier': [hier(v) for v in range(len(nodes))],
            'ndepth': [int(node_depth(nd)) for nd in nodes],
            'ndlist': [[list(vs), ndl(vs)] for vs in queries],
            'dprim': [int(distance_to_primary_level(nd)) for nd in nodes],
            'droot': [droot(v) for v in range(len(nodes))],
        }
        o['ndvariants'] = depth_variants(nodes, ix, queries, o['ndlist'])
    finally:
        signal.setitimer(signal.ITIMER_REAL, 0)
    # the queries must not have edited the graph
    if [[ix(p) for p in nd.nodes_from] for nd in g.nodes] != [list(ps) for ps in par] or \
            [id(x) for x in g.nodes] != [id(x) for x in nodes]:
        odd.append('a query modified the graph')
    return o, odd


def nl(xs):
    return c_list([c_nat(x) for x in xs], 'nat')


def ndl_all(o):
    """node_depth(list) observations handed to Coq: the plain lists, then the container variants that are not
    literally one of those"""
    return list(o['ndlist']) + [[vs, d] for _, vs, d in o.get('ndvariants', [])]


def variant_note(o):
    bad = sorted({k for k, _, _ in o.get('ndvariants', []) if k != 'dict-keys'})
    return (' [node_depth answers differently when the nodes are given as %s instead of a list]' % '/'.join(bad)) if bad else ''


def case_coq(par, o):
    g = c_list([nl(ps) for ps in par], '(list nat)')
    ob = ('{| ob_cycle := %s; ob_depth := %s; ob_roots := %s; ob_children := %s; ob_edges := %s; '
          'ob_hier := %s; ob_ndepth := %s; ob_ndlist := %s; ob_dprim := %s; ob_droot := %s |}') % (
        c_bool(o['cycle']), c_Z(o['depth']), nl(o['roots']),
        c_list([nl(cs) for cs in o['children']], '(list nat)'),
        c_list(['(%s, %s)' % (c_nat(p), c_nat(c)) for p, c in o['edges']], '(nat * nat)'),
        c_list([c_opt(h, nl, '(list nat)') for h in o['hier']], '(option (list nat))'),
        c_list([c_Z(d) for d in o['ndepth']], 'Z'),
        c_list(['(%s, %s)' % (nl(vs), c_opt(d, c_Z, 'Z')) for vs, d in ndl_all(o)], '(list nat * option Z)'),
        c_list([c_Z(d) for d in o['dprim']], 'Z'),
        c_list([c_Z(d) for d in o['droot']], 'Z'))
    return '(%s, %s)' % (g, ob)


# ------------------------------------------------------------------------------------------
# generators
# ------------------------------------------------------------------------------------------
def subsets_ordered(n):
    """all duplicate-free parent lists over n nodes, in every order"""
    out = []
    for k in range(n + 1):
        out.extend(itertools.permutations(range(n), k))
    return [list(x) for x in out]


def all_ordered_digraphs(n):
    """every digraph on n listed nodes (self-loops allowed) with every order of every parent list"""
    opts = subsets_ordered(n)
    for combo in itertools.product(opts, repeat=n):
        yield [list(ps) for ps in combo]


def all_digraphs(n):
    """every digraph on n listed nodes (self-loops allowed); parent lists ascending"""
    masks = range(1 << n)
    rows = [[p for p in range(n) if m >> p & 1] for m in masks]
    for combo in itertools.product(rows, repeat=n):
        yield [list(ps) for ps in combo]


def all_dags(n):
    """every labelled DAG on n nodes (parent lists ascending)"""
    rows = [[p for p in range(n) if m >> p & 1] for m in range(1 << n)]

    def acyclic(par):
        state = [0] * n

        def visit(v):
            if state[v] == 1:
                return False
            if state[v] == 2:
                return True
            state[v] = 1
            ok = all(visit(p) for p in par[v])
            state[v] = 2
            return ok
        return all(visit(v) for v in range(n))

    def rec(i, par):
        if i == n:
            if acyclic(par):
                yield [list(ps) for ps in par]
            return
        for r in rows:
            if i in r:
                continue
            par.append(r)
            yield from rec(i + 1, par)
            par.pop()
    yield from rec(0, [])


def _acyclic(par):
    return path_prefixes(par) is not None


def random_graph(r):
    """structured random digraph on 1..12 nodes"""
    n = r.choice([1, 2, 3, 4, 5, 5, 6, 6, 7, 8, 9, 10, 11, 12])
    kind = r.choice(['dag', 'dag', 'dag', 'dag+back', 'sparse', 'dense', 'loops', 'forest', 'chain', 'layers', 'union'])
    perm = list(range(n))
    r.shuffle(perm)
    par = [[] for _ in range(n)]

    def add(c, p):
        if p not in par[c]:
            par[c].append(p)
    if kind in ('dag', 'dag+back', 'loops'):
        dens = r.choice([0.15, 0.3, 0.5, 0.8])
        for a in range(n):
            for b in range(a + 1, n):
                if r.random() < dens:
                    add(perm[a], perm[b])
        if kind == 'dag+back' and n >= 2:
            a, b = sorted(r.sample(range(n), 2))
            add(perm[b], perm[a])
        if kind == 'loops':
            v = r.randrange(n)
            add(v, v)
    elif kind in ('sparse', 'dense'):
        m = r.randrange(0, n + 1) if kind == 'sparse' else r.randrange(n, min(3 * n, n * n) + 1)
        for _ in range(m):
            add(r.randrange(n), r.randrange(n))
    elif kind == 'forest':
        for a in range(1, n):
            if r.random() < 0.8:
                add(perm[r.randrange(a)], perm[a])     # each later node feeds one earlier node
    elif kind == 'chain':
        for a in range(n - 1):
            add(perm[a], perm[a + 1])
        if r.random() < 0.3 and n >= 2:
            add(perm[n - 1], perm[r.randrange(n)])
    elif kind == 'layers':
        w = r.choice([1, 2, 3])
        layers = [perm[i:i + w] for i in range(0, n, w)]
        for la, lb in zip(layers, layers[1:]):
            for a in la:
                for b in lb:
                    if r.random() < 0.85:
                        add(a, b)
    elif kind == 'union':
        cut = r.randrange(1, n + 1)
        for part in (perm[:cut], perm[cut:]):
            for a in range(len(part)):
                for b in range(a + 1, len(part)):
                    if r.random() < 0.5:
                        add(part[a], part[b])
        if r.random() < 0.3 and len(perm[cut:]) >= 2:
            add(perm[-1], perm[cut])
    for ps in par:
        r.shuffle(ps)
    return par, kind


def default_queries(par, r, lean=False):
    """node lists for node_depth: all nodes, reversed, the sinks, a random sample, a repeat
    (lean: only all nodes and a random sample - used for the big exhaustive groups)"""
    n = len(par)
    if n == 0:
        return [[]]
    allv = list(range(n))
    if lean:
        return [allv, r.sample(allv, r.randrange(1, n + 1))]
    has_child = {p for ps in par for p in ps}
    sinks = [v for v in allv if v not in has_child]
    qs = [allv, allv[::-1]]
    if sinks:
        qs.append(sinks)
    k = r.randrange(1, n + 1)
    qs.append(r.sample(allv, k))
    v = r.randrange(n)
    qs.append([v, r.randrange(n), v])
    if r.random() < 0.05:
        qs.append([])
    return qs


def facts(par, o):
    n = len(par)
    m = sum(len(ps) for ps in par)
    return dict(n=n, edges=min(m, 20), cyclic=o['cycle'], selfloop=any(v in ps for v, ps in enumerate(par)),
                depth=o['depth'], sinks=min(len(o['roots']), 4),
                hierarchy_errors=sum(1 for h in o['hier'] if h is None))



# ------------------------------------------------------------------------------------------
# LARGE graphs (15 .. 500 nodes): dense layers, chains, fans, random DAGs, cyclic ones; several
# node-list orders; built through the nodes setter, the constructor and add_node
# ------------------------------------------------------------------------------------------
REQ_BIG = ['Graph.QueriesSpec', 'Graph.Queries', 'Graph.QueriesBig']
FN_BIG = 'check_big'
LIT_BUDGET = 150000        # path prefixes the literal node_depth model may walk in one Coq case
PY_PATH_BUDGET = 300000    # shapes are generated so that the real node_depth walks fewer steps


def s_layered(layers, width, final=True):
    """complete bipartite layers, sources first; optionally one final node on the last layer"""
    par, prev = [], []
    for _ in range(layers):
        cur = list(range(len(par), len(par) + width))
        par.extend([list(prev) for _ in cur])
        prev = cur
    if final:
        par.append(list(prev))
    return par


def s_dense(n):
    return [list(range(i)) for i in range(n)]


def s_chain(n):
    return [[i - 1] if i else [] for i in range(n)]


def s_fan(k, tail=2):
    """a source, k middle nodes on it, one node with the k middle nodes as parents, then a short chain"""
    par = [[]] + [[0] for _ in range(k)] + [list(range(1, k + 1))]
    for _ in range(tail):
        par.append([len(par) - 1])
    return par


def s_random_dag(r, n, indeg):
    par = []
    for i in range(n):
        k = min(i, r.choice(indeg))
        par.append(r.sample(range(i), k))
    return par


def path_prefixes(par):
    """P[v] = number of path prefixes of the path walk from v (None for cyclic graphs)"""
    n = len(par)
    state, P = [0] * n, [0] * n
    for root in range(n):
        if state[root]:
            continue
        stack = [(root, iter(par[root]))]
        state[root] = 1
        while stack:
            v, it = stack[-1]
            p = next(it, None)
            if p is None:
                state[v] = 2
                P[v] = 1 + sum(P[q] for q in par[v])
                stack.pop()
            elif state[p] == 1:
                return None
            elif state[p] == 0:
                state[p] = 1
                stack.append((p, iter(par[p])))
    return P


def big_shapes(r, thorough):
    """(kind, parent lists on labels in sources-first order, acyclic?)"""
    out = []
    lay = [(6, 5), (4, 8), (7, 4), (5, 7), (9, 3), (3, 12)]
    if thorough:
        lay += [(8, 4), (6, 6), (5, 8), (10, 3), (4, 10)]
    for L, w in lay:
        out.append(('layered%dx%d' % (L, w), s_layered(L, w), True))
    out.append(('layered-nofinal', s_layered(5, 5, final=False), True))
    for n in ((15, 16) if not thorough else (14, 15, 16, 17)):
        out.append(('dense%d' % n, s_dense(n), True))
    for n in ((120, 300) if not thorough else (100, 200, 350, 500)):
        out.append(('chain%d' % n, s_chain(n), True))
    for k in ((30, 45) if not thorough else (30, 40, 60, 80)):
        out.append(('fan%d' % k, s_fan(k), True))
    for _ in range(4 if not thorough else 16):
        n = r.randrange(20, 61)
        for _try in range(20):
            par = s_random_dag(r, n, r.choice([[0, 1, 1, 2], [1, 2, 2, 3], [0, 1, 2, 4], [1, 1, 1, 1]]))
            P = path_prefixes(par)
            if max(P) <= PY_PATH_BUDGET // 4:
                break
        out.append(('random-dag%d' % n, par, True))
    # two disjoint parts
    a, b = s_layered(3, 4), s_chain(25)
    out.append(('union', a + [[p + len(a) for p in ps] for ps in b], True))
    # cyclic ones
    ring = s_chain(60)
    ring[0] = [59]
    out.append(('ring60', ring, False))
    ch = s_chain(150)
    ch[40] = [39, 120]
    out.append(('chain150+back', ch, False))
    for _ in range(2 if not thorough else 8):
        n = r.randrange(22, 50)
        for _try in range(50):
            par = s_random_dag(r, n, [0, 1, 1, 2])
            if max(path_prefixes(par)) <= 1000:
                break
        a, b = sorted(r.sample(range(n), 2))
        if b not in par[a]:
            par[a].append(b)          # an edge from an earlier to a later label: may or may not close a cycle
        out.append(('random+back%d' % n, par, path_prefixes(par) is not None))
    loop = s_fan(30)
    loop[5].append(5)
    out.append(('fan30+selfloop', loop, False))
    mix = s_layered(3, 5) + [[len(s_layered(3, 5)) + (i + 1) % 25] for i in range(25)]
    out.append(('dag+sinkless-ring', mix, False))
    return out


def build_big(par0, order, mode):
    """real graph from the structure par0 (labels), handing the nodes over in the given order;
    returns graph, its node list and the parent lists by position in graph.nodes"""
    n = len(par0)
    nodes = [OptNode('n%d' % i) for i in range(n)]
    for i, ps in enumerate(par0):
        nodes[i].nodes_from = [nodes[p] for p in ps]
    seq = [nodes[i] for i in order]
    if mode == 'setter':
        g = OptGraph()
        g.nodes = list(seq)
    elif mode == 'ctor':
        g = OptGraph(seq)
    else:
        g = OptGraph()
        for nd in seq:
            g.add_node(nd)
    actual = list(g.nodes)
    idx = {id(nd): i for i, nd in enumerate(actual)}
    if len(idx) != n or len(actual) != n:
        raise AssertionError('builder %s produced %d nodes for a closed graph of %d' % (mode, len(actual), n))
    par = [[idx[id(p)] for p in nd.nodes_from] for nd in actual]
    return g, actual, par


def observe_big(g, nodes, par, qnodes, queries):
    idx = {id(nd): i for i, nd in enumerate(nodes)}
    ix = lambda nd: idx[id(nd)]
    odd = []

    def hier(v):
        try:
            return [ix(x) for x in ordered_subnodes_hierarchy(nodes[v])]
        except ValueError:
            return None

    def ndl(vs):
        try:
            return int(node_depth([nodes[v] for v in vs]))
        except ValueError:
            return None

    def droot(v):
        x = distance_to_root_level(g, nodes[v])
        return -2 if x is None else int(x)

    signal.signal(signal.SIGALRM, _alarm)
    signal.setitimer(signal.ITIMER_REAL, 2 * WATCHDOG_S)
    try:
        o = {
            'cycle': bool(graph_has_cycle(g)),
            'depth': int(g.depth),
            'roots': [ix(x) for x in g.root_nodes()],
            'edges': [[ix(p), ix(c)] for p, c in g.get_edges()],
            'nodes': [{'v': v, 'children': [ix(x) for x in g.node_children(nodes[v])], 'hier': hier(v),
                       'ndepth': int(node_depth(nodes[v])), 'dprim': int(distance_to_primary_level(nodes[v])),
                       'droot': droot(v)} for v in qnodes],
            'ndlist': [[list(vs), ndl(vs)] for vs in queries],
        }
        o['ndvariants'] = depth_variants(nodes, ix, queries, o['ndlist'], kinds=('iterator', 'generator', 'tuple'))
    finally:
        signal.setitimer(signal.ITIMER_REAL, 0)
    if [[ix(p) for p in nd.nodes_from] for nd in g.nodes] != [list(ps) for ps in par] or \
            [id(x) for x in g.nodes] != [id(x) for x in nodes]:
        odd.append('a query modified the graph')
    return o, odd


def big_case_coq(lit, par, o):
    g = c_list([nl(ps) for ps in par], '(list nat)')
    qs = c_list(['{| nq_node := %s; nq_children := %s; nq_hier := %s; nq_ndepth := %s; nq_dprim := %s; nq_droot := %s |}' % (
        c_nat(q['v']), nl(q['children']), c_opt(q['hier'], nl, '(list nat)'), c_Z(q['ndepth']), c_Z(q['dprim']),
        c_Z(q['droot'])) for q in o['nodes']], 'nobs')
    ob = '{| bo_cycle := %s; bo_depth := %s; bo_roots := %s; bo_edges := %s; bo_nodes := %s; bo_ndlist := %s |}' % (
        c_bool(o['cycle']), c_Z(o['depth']), nl(o['roots']),
        c_list(['(%s, %s)' % (c_nat(p), c_nat(c)) for p, c in o['edges']], '(nat * nat)'), qs,
        c_list(['(%s, %s)' % (nl(vs), c_opt(d, c_Z, 'Z')) for vs, d in ndl_all(o)], '(list nat * option Z)'))
    return '(%s, %s, %s)' % (c_bool(lit), g, ob)


def big_queries(par, r):
    n = len(par)
    used = {p for ps in par for p in ps}
    sinks = [v for v in range(n) if v not in used]
    sources = [v for v in range(n) if not par[v]]
    qn = [0, n - 1]
    if sinks:
        qn.append(r.choice(sinks))
    if sources:
        qn.append(r.choice(sources))
    qn += [r.randrange(n), r.randrange(n)]
    qnodes = list(dict.fromkeys(qn))
    lists = [list(range(n))]
    if sinks:
        lists.append(sinks)
    lists.append(r.sample(range(n), min(n, 8)))
    return qnodes, lists


def literal_ok(par, qnodes, lists):
    """may the literal path walk of the model be evaluated on this case?"""
    P = path_prefixes(par)
    if P is None:
        return False
    used = {p for ps in par for p in ps}
    sinks = [v for v in range(len(par)) if v not in used]
    work = 2 * sum(P[v] for v in qnodes) + sum(P[v] for v in sinks) + sum(P[v] for vs in lists for v in vs)
    return work <= LIT_BUDGET


def evaluate_big(ctx, group, specs):
    """specs: (kind, par0, order-name, order, mode).  Builds, observes, evaluates in Coq."""
    r = ctx.rng
    cases, meta = [], []
    for spec in specs:
        kind, par0, oname, order, mode = spec[:5]
        case = {'big': True, 'kind': kind, 'par0': par0, 'order': order, 'mode': mode, 'order_name': oname}
        try:
            g, nodes, par = build_big(par0, order, mode)
            if len(spec) > 5 and spec[5]:          # replay: the recorded query nodes and node lists
                qnodes, lists = spec[5], spec[6]
            else:
                qnodes, lists = big_queries(par, r)
            case['qnodes'], case['queries'] = qnodes, lists
            o, odd = observe_big(g, nodes, par, qnodes, lists)
        except Hang:
            ctx.count(group, key=repr((par0, order, mode)), nontrivial=True, kind=kind, hang=True)
            ctx.violate(group, case, 'a structural query did not return within %d s on a graph of %d nodes (hang)'
                        % (2 * WATCHDOG_S, len(par0)))
            continue
        except RecursionError as ex:
            ctx.count(group, key=repr((par0, order, mode)), nontrivial=True, kind=kind, hang=True)
            ctx.violate(group, case, 'recursion limit exhausted on a graph of %d nodes: %s' % (len(par0), ex))
            continue
        for what in odd:
            ctx.disagree(group, case, what)
        lit = literal_ok(par, qnodes, lists)
        case['literal_node_depth_model'] = lit
        case['observed'] = {k: v for k, v in o.items() if k not in ('edges',)}
        cases.append(big_case_coq(lit, par, o))
        meta.append((case, o, par))
    # the cost in Coq grows like n^3 (unary numbers): long chains get a coqc each, the rest is batched
    heavy = [i for i, m in enumerate(meta) if len(m[2]) >= 100]
    light = [i for i, m in enumerate(meta) if len(m[2]) < 100]
    res = [None] * len(meta)
    for ids, shard in ((heavy, 1), (light, 4)):
        out = ctx.coq_cases(group, REQ_BIG, FN_BIG, [cases[i] for i in ids], K, shard=shard,
                            case_ty='bool * dg * bobs', timeout=600)
        for i, flags in zip(ids, out):
            res[i] = flags
    for (case, o, par), flags in zip(meta, res):
        n = len(par)
        ctx.count(group, key=repr((par, case['mode'])), nontrivial=True, kind=case['kind'].rstrip('0123456789x'),
                  n=(n // 20) * 20, order=case['order_name'], mode=case['mode'], cyclic=o['cycle'],
                  literal_model=case['literal_node_depth_model'], depth=o['depth'])
        ag, ho = flags[:len(AGREE)], flags[len(AGREE):]
        for name, ok in zip(HOLDS, ho):
            if not ok:
                ctx.violate(group, case, name + ' [graph of %d nodes, %s, %s order, built by %s]'
                            % (n, case['kind'], case['order_name'], case['mode'])
                            + (variant_note(o) if 'list of nodes' in name else ''))
        for name, ok in zip(AGREE, ag):
            if not ok:
                ctx.disagree(group, case, 'model and implementation differ on ' + name)
    return meta


def big_specs(ctx):
    r = ctx.rng
    specs = []
    modes = ['setter', 'ctor', 'add']
    k = 0
    for si, (kind, par0, acyclic) in enumerate(big_shapes(r, ctx.tier == 'thorough')):
        n = len(par0)
        par0 = [r.sample(ps, len(ps)) for ps in par0]
        orders = [('sources-first', list(range(n))), ('sinks-first', list(range(n - 1, -1, -1))),
                  ('shuffled', r.sample(range(n), n))]
        if ctx.tier != 'thorough':
            # quick: two of the three orders per shape, rotating; sources-first always (parents before children)
            orders = [orders[0], orders[1 + si % 2]]
        for oname, order in orders:
            specs.append((kind, par0, oname, order, modes[k % 3]))
            k += 1
    return specs


# ------------------------------------------------------------------------------------------
def evaluate(ctx, group, items):
    """items: list of (par, queries).  Observes, evaluates in Coq, books the results."""
    cases, meta = [], []
    hangs = 0
    for item in items:
        par, queries = item[0], item[1]
        flavour = tuple(item[2]) if len(item) > 2 and item[2] else STOCK
        case = {'par': par, 'queries': queries}
        if flavour != STOCK:
            case['flavour'] = list(flavour)
        if hangs >= 3:      # every hang costs the watchdog time: three are enough to report
            ctx.notes.append('group %s abandoned after 3 hangs' % group)
            break
        try:
            o, odd = observe(par, queries, flavour)
        except Hang:
            hangs += 1
            ctx.count(group, key=repr(par), nontrivial=True, n=len(par), hang=True)
            ctx.violate(group, case, 'a structural query did not return within %d s (hang)' % WATCHDOG_S)
            continue
        except RecursionError as ex:
            ctx.count(group, key=repr(par), nontrivial=True, n=len(par), hang=True)
            ctx.violate(group, case, 'a structural query exhausted the recursion limit: %s' % ex)
            continue
        except Exception as ex:
            ctx.count(group, key=repr(par), nontrivial=True, n=len(par))
            ctx.violate(group, case, 'a structural query raised %s: %s%s' % (
                type(ex).__name__, ex, '' if flavour == STOCK else ' [node class %s, graph class %s]' % flavour))
            continue
        case['observed'] = o
        for what in odd:
            ctx.disagree(group, case, what)
        cases.append(case_coq(par, o))
        meta.append((case, o))
    res = ctx.coq_cases(group, REQ, FN, cases, K, shard=600, case_ty='dg * obs')
    for (case, o), flags in zip(meta, res):
        par = case['par']
        fl = tuple(case.get('flavour', STOCK))
        extra = {} if fl == STOCK else {'node_class': fl[0], 'graph_class': fl[1]}
        ctx.count(group, key=repr((par, fl)), nontrivial=(len(par) >= 2 and any(par)), **facts(par, o), **extra)
        ag, ho = flags[:len(AGREE)], flags[len(AGREE):]
        for name, ok in zip(HOLDS, ho):
            if not ok:
                ctx.violate(group, case, name + ('' if fl == STOCK else ' [node class %s, graph class %s]' % fl)
                            + (variant_note(o) if 'list of nodes' in name else ''))
        for name, ok in zip(AGREE, ag):
            if not ok:
                ctx.disagree(group, case, 'model and implementation differ on ' + name)
    return meta


def run(ctx):
    ctx.rule = ('digraphs given as ordered parent lists per listed node (self-loops, cycles, disconnected, empty); '
                'exhaustive: every digraph on <= 3 nodes with every order of every parent list (quick), plus every '
                'digraph on 4 nodes and every DAG on 5 nodes with ascending parent lists and a sample of 8000 four-node digraphs '
                'with shuffled parent lists (thorough); random: '
                'structured digraphs on 1..12 nodes (DAGs of several densities, DAG + back edge, self-loops, '
                'forests, chains, layered, disjoint unions) under random listing order and parent order; every node '
                'is a query argument; the same queries on graphs of USER SUBCLASSES (LinkedGraph subclasses overriding root_node, '
                'directly and as GraphDelegate delegate_cls; node subclasses with __len__, __bool__ (also ALWAYS falsy ones), key-based __eq__/__hash__); '
                'node_depth over every node list also with the nodes handed over as tuple, one-shot iterator, generator, dict keys/values view, itertools.chain (same answer as for the list of the elements); '
                'LARGE graphs of 15..500 nodes in three node orders and three builders; distinct = distinct parent-list structure; non-trivial = >= 2 nodes and >= 1 edge')
    ctx.trusted_extra = [
        'node identity is modelled by the position in graph.nodes (GOLEM nodes compare by identity and carry '
        'distinct uids); parent lists are UniqueList objects, so duplicate-free',
        'node_depth is modelled by its path semantics (recursion over the current path) rather than by its '
        'explicit iterator stack; the iterator bookkeeping is covered by this correspondence only',
        'the watchdog (%d s per graph, SIGALRM) is what observes "never a hang" on the implementation; in the '
        'model termination is a theorem (fuel sufficiency)' % WATCHDOG_S]
    r = ctx.rng
    # ---- corpus (minimised past failures / hand-picked regression inputs)
    pending = ctx.__dict__.pop('c12_corpus', [])
    if pending:
        evaluate(ctx, 'corpus', pending)
    pending = ctx.__dict__.pop('c12_corpus_big', [])
    if pending:
        evaluate_big(ctx, 'corpus-large', pending)
    # ---- exhaustive small scope
    small = []
    for n in range(0, 4):
        small.extend(all_ordered_digraphs(n))
    meta = evaluate(ctx, 'exhaustive<=3', [(par, default_queries(par, r)) for par in small])
    ctx.set_exhaustive('exhaustive<=3', True)
    for case, o in meta[1:2] + meta[700:701]:
        ctx.sample(case)
    if ctx.tier == 'thorough':
        items = [(par, default_queries(par, r, lean=True)) for par in all_digraphs(4)]
        evaluate(ctx, 'exhaustive4', items)
        ctx.set_exhaustive('exhaustive4', True)
        # a sample of the same graphs with shuffled parent order (the search order of the DFS depends on it)
        pool = [par for par in all_digraphs(4) if any(len(ps) > 1 for ps in par)]
        items = []
        for par in r.sample(pool, ctx.budget(8000, 8000)):
            par = [r.sample(ps, len(ps)) for ps in par]
            items.append((par, default_queries(par, r)))
        evaluate(ctx, 'digraphs4-shuffled', items)
        items = [(par, default_queries(par, r, lean=True)) for par in all_dags(5)]
        evaluate(ctx, 'dags5', items)
        ctx.set_exhaustive('dags5', True)
    # ---- user subclasses of the graph and node classes (same structure, same answers)
    flavours = [(nk, gk) for nk in NODE_KINDS for gk in GRAPH_KINDS if (nk, gk) != STOCK]
    items = []
    for par in small:                      # every acyclic ordered digraph on <= 3 nodes under every flavour
        if len(par) >= 2 and _acyclic(par):
            items.extend((par, default_queries(par, r, lean=True), fl) for fl in flavours)
    k = 0
    for n in range(0, 4):                  # every digraph on <= 3 nodes under one flavour, rotating
        for par in all_digraphs(n):
            items.append((par, default_queries(par, r, lean=True), flavours[k % len(flavours)]))
            k += 1
    for _ in range(ctx.budget(400, 3000)):
        par, kind = random_graph(r)
        items.append((par, default_queries(par, r), r.choice(flavours)))
    evaluate(ctx, 'subclasses', items)
    # ---- large graphs
    meta = evaluate_big(ctx, 'large', big_specs(ctx))
    for case, o, par in meta[:1]:
        ctx.sample({k: v for k, v in case.items() if k not in ('par0', 'order', 'queries', 'observed')})
    # ---- structured random
    items = []
    for _ in range(ctx.budget(1500, 6000)):
        par, kind = random_graph(r)
        items.append((par, default_queries(par, r)))
    meta = evaluate(ctx, 'random', items)
    for case, o in meta[:3]:
        ctx.sample(case)
    # ---- canary: a wrong observation must be flagged by model and oracle
    par = [[1], []]
    o, _ = observe(par, [[0, 1]])
    o['cycle'] = not o['cycle']
    o['hier'][0] = [0]
    ctx.canaries += 1
    res = ctx.coq_cases('canary', REQ, FN, [case_coq(par, o)], K, case_ty='dg * obs')
    flags = res[0]
    if (not flags[0]) and (not flags[len(AGREE)]) and (not flags[5]) and (not flags[len(AGREE) + 5]):
        ctx.canaries_caught += 1


def replay(ctx, payload):
    v = payload.get('violation') or payload.get('first_disagreement') or payload
    case = v.get('case') if isinstance(v, dict) else None
    if not case:
        return
    deferred = payload.get('corpus') and '--replay' not in sys.argv
    if case.get('big'):
        spec = (case.get('kind', 'replay'), [list(ps) for ps in case['par0']], case.get('order_name', 'given'),
                list(case['order']), case['mode'], case.get('qnodes'), case.get('queries'))
        if deferred:
            ctx.__dict__.setdefault('c12_corpus_big', []).append(spec)
        else:
            evaluate_big(ctx, 'replay', [spec])
        return
    if 'par' not in case:
        return
    item = ([list(ps) for ps in case['par']], [list(q) for q in case.get('queries', [])], case.get('flavour'))
    if deferred:
        # corpus files are evaluated together at the start of run() (one coqc instead of one per file)
        ctx.__dict__.setdefault('c12_corpus', []).append(item)
        return
    evaluate(ctx, 'replay', [item])
