"""C13 - graph equality and structural identifier are isomorphism invariants.
Implementation: OptGraph.__eq__, OptGraph.descriptive_id, OptNode.descriptive_id
(golem/core/dag/graph_node.py, linked_graph_node.py, linked_graph.py).
Model: coq/theories/Graph/DescId.v (agree_* / holds_*)."""
import concurrent.futures
import itertools
from copy import deepcopy

import time

from common import CoqEvalError, c_bool, c_list, c_nat, c_str

from golem.core.dag.graph_node import GraphNode
from golem.core.dag.linked_graph import LinkedGraph
from golem.core.dag.linked_graph_node import LinkedGraphNode
from golem.core.optimisers.graph import OptGraph, OptNode


# the graph classes a presentation may be held by: the two public Graph implementations (plain LinkedGraph;
# OptGraph = GraphDelegate over a LinkedGraph) and a subclass of each.  == must not depend on them.
class SubOptGraph(OptGraph):
    pass


class SubLinkedGraph(LinkedGraph):
    pass


CLASSES = {'OptGraph': OptGraph, 'LinkedGraph': LinkedGraph, 'SubOptGraph': SubOptGraph,
           'SubLinkedGraph': SubLinkedGraph}
CLASS_NAMES = list(CLASSES)


# ---- node classes: the stock node and user classes.  What counts as a node's name and parameters is what the
# class PUBLICLY says: for the stock node the raw content (its own name / parameters properties are code under
# test); for the user classes below the value their overriding property returns, which the driver knows from the
# way it built the node (kept in node._truth, copied by deepcopy).
class TunableNode(OptNode):
    """hyper-parameters kept outside content and exposed through the overridden public `parameters` property"""

    def __init__(self, content, nodes_from=None, hyperparams=None):
        super().__init__(content, nodes_from)
        self._hyperparams = dict(hyperparams or {})

    @property
    def parameters(self):
        return {**(self.content.get('params') or {}), **self._hyperparams}

    @parameters.setter
    def parameters(self, new_parameters):
        self._hyperparams.update(new_parameters)


class NamedNode(OptNode):
    """the public `name` comes from an own attribute; content['name'] is a decoy"""

    def __init__(self, content, nodes_from=None, real_name=None):
        super().__init__(content, nodes_from)
        self._real_name = real_name

    @property
    def name(self):
        return str(self._real_name) if self._real_name is not None else ''


class ReprNode(OptNode):
    """debugging __repr__ / __str__ that show the uid: must not matter for a LinkedGraphNode"""

    def __str__(self):
        return '<%s #%s>' % (self.content.get('name'), self.uid)

    def __repr__(self):
        return 'ReprNode(uid=%r)' % self.uid


class GateNode(GraphNode):
    """a user implementation of the abstract GraphNode interface: the label is the default description() =
    __str__() ('n_' + kind, so that it reads like the stock label); __repr__ shows the uid"""

    def __init__(self, kind, inputs=None):
        super().__init__()
        self.kind = kind
        self._inputs = list(inputs or ())

    @property
    def nodes_from(self):
        return self._inputs

    @nodes_from.setter
    def nodes_from(self, nodes):
        self._inputs = list(nodes or ())

    @property
    def name(self):
        return self.kind

    def __str__(self):
        return 'n_' + self.kind

    def __repr__(self):
        return 'GateNode(kind=%r, uid=%r, n_inputs=%d)' % (self.kind, self.uid, len(self._inputs))


NODE_KINDS = ['stock', 'tunable', 'named', 'repr', 'gate']
KIND_CHOICES = ['stock', 'stock', 'stock', 'tunable', 'tunable', 'named', 'repr', 'gate']


def kind_ok(kind, name, params):
    """a GateNode carries no parameters and needs a non-empty name"""
    return kind != 'gate' or (not params and name is not None and str(name) != '')


def make_node(kind, name, params):
    nm = '' if name is None else str(name)
    pr = str(params) if params else ''
    if kind == 'stock' or not kind_ok(kind, name, params):
        return OptNode(content_of(name, params))
    if kind == 'tunable':
        keys = list(params) if params else []
        half = len(keys) // 2
        content = {'name': name}
        if params is not None:
            content['params'] = {k: deepcopy(params[k]) for k in keys[:half]}
        nd = TunableNode(content, hyperparams={k: deepcopy(params[k]) for k in keys[half:]})
    elif kind == 'named':
        c = content_of('decoy', params)
        nd = NamedNode(c, real_name=name)
    elif kind == 'repr':
        nd = ReprNode(content_of(name, params))
    else:
        nd = GateNode(nm)
    nd._truth = (nm, pr, name if isinstance(name, (bool, int, float)) else None, kind)
    return nd


def set_truth_content(nd, name, params):
    """(re)label a node of any kind (used for nodes made by deepcopy of another node)"""
    fresh = make_node(getattr(nd, '_truth', (0, 0, 0, 'stock'))[3], name, params)
    fresh.uid = nd.uid
    return fresh


def cls_name(g):
    return type(g).__name__ if type(g).__name__ in CLASSES else 'OptGraph'


def rehouse(g, cname):
    """the same node objects in the same listing order, held by a graph of class cname"""
    if cls_name(g) == cname:
        return g
    h = CLASSES[cname]()
    h.nodes = list(g.nodes)
    return h

REQ = ['Graph.DescId']


def coq_eval(ctx, group, fn, cases, k, shard, **kw):
    """ctx.coq_cases with one retry on smaller shards: on the shared machine a coqc process is occasionally
    killed by the OOM killer (empty output, non-zero exit), which says nothing about the cases"""
    try:
        return ctx.coq_cases(group, REQ, fn, cases, k, shard=shard, **kw)
    except CoqEvalError as ex:
        ctx.notes.append('coqc shard failed once, retried with smaller shards: %s' % str(ex)[:200])
        time.sleep(20)
        return ctx.coq_cases(group, REQ, fn, cases, k, shard=max(20, shard // 3), **kw)


# ----------------------------------------------------------------------------------------
# group (a): all labelled rooted trees, all ordered pairs, against the canonical form
# ----------------------------------------------------------------------------------------
def shapes(n):
    """plane (ordered) rooted trees with n nodes, as nested tuples of children"""
    return [()] if n == 1 else forests(n - 1)


def forests(m):
    if m == 0:
        return [()]
    out = []
    for k in range(1, m + 1):
        for first in shapes(k):
            for rest in forests(m - k):
                out.append((first,) + rest)
    return out


def labelled(shape, alpha):
    kids = [labelled(c, alpha) for c in shape]
    return [(a, combo) for combo in itertools.product(*kids) for a in alpha]


def all_trees(max_n, alpha):
    return [t for n in range(1, max_n + 1) for s in shapes(n) for t in labelled(s, alpha)]


# tree labels are tokens: a plain name, or name + '_' + str(params) for a node with params - the token is
# what description() renders after the 'n_' prefix, so distinct tokens <=> distinct (name, params)
LABELS = {'a': ('a', None), 'b': ('b', None), 'c': ('c', None),
          '0': (0, None), 'False': (False, None), '0.0': (0.0, None),      # non-string falsy names
          "a_{'k': 1}": ('a', {'k': 1}), "a_{'k': 2}": ('a', {'k': 2})}


def _nest(x, depth):
    for _ in range(depth):
        x = [x]
    return x


def big_param_pairs():
    """pairs of parameter dicts that differ in exactly one place that sits late / deep / in the middle:
    5 and 12 keys (difference in the last sorted key / in a middle key), strings of 41 and 200 characters
    (difference in the middle / at the very end), a list and a tuple of 10 items, nesting 8 deep"""
    p5 = {'alpha': 1, 'beta': 2, 'gamma': 3, 'delta': 4, 'zeta': 5}
    p12 = {'k%02d' % i: i for i in range(12)}
    return [
        (p5, dict(p5, zeta=6)),
        (p12, dict(p12, k11=99)),
        (p12, dict(p12, k05=99)),
        ({'s': 'x' * 20 + 'A' + 'x' * 20}, {'s': 'x' * 20 + 'B' + 'x' * 20}),
        ({'s': 'y' * 100 + 'M' + 'y' * 99}, {'s': 'y' * 100 + 'N' + 'y' * 99}),
        ({'s': 'z' * 199 + '1'}, {'s': 'z' * 199 + '2'}),
        ({'l': list(range(10))}, {'l': list(range(8)) + [80, 9]}),
        ({'t': tuple(range(10))}, {'t': tuple(range(9)) + (90,)}),
        ({'d': _nest(1, 8)}, {'d': _nest(2, 8)}),
        ({'m': {'a': 1, 'b': {'c': list(range(7)), 'd': 'w' * 35}}}, {'m': {'a': 1, 'b': {'c': list(range(6)) + [60], 'd': 'w' * 35}}}),
    ]


BIG_PAIRS = big_param_pairs()
BIG_PARAMS = []
for _pa, _pb in BIG_PAIRS:
    for _p in (_pa, _pb):
        if repr(_p) not in [repr(q) for q in BIG_PARAMS]:
            BIG_PARAMS.append(_p)
BIG_PARTNER = {}
for _pa, _pb in BIG_PAIRS:
    BIG_PARTNER.setdefault(repr(_pa), _pb)
    BIG_PARTNER.setdefault(repr(_pb), _pa)
# tokens of the tree pools for them: name 'm', the token is what description() renders after 'n_'
BIG_TOKENS = []
for _p in BIG_PARAMS:
    _tok = 'm_%s' % (_p,)
    LABELS[_tok] = ('m', _p)
    BIG_TOKENS.append(_tok)


# ---- how the parents reach a stock node: the constructor argument / the nodes_from setter are annotated
# Optional[Iterable[node]], so every iterable below denotes the same parent list as the list of its elements
# (one-shot iterators included).  The Coq side sees the tree only.
FEEDS = ['ctor-list', 'ctor-tuple', 'ctor-gen', 'ctor-iter', 'ctor-map', 'ctor-keys', 'ctor-set',
         'set-gen', 'set-iter', 'set-tuple', 'linked-ctor-gen']


def feed_node(feed, name, params, kids):
    how, kind = feed.rsplit('-', 1)
    it = {'list': lambda: list(kids), 'tuple': lambda: tuple(kids), 'gen': lambda: (k for k in kids),
          'iter': lambda: iter(list(kids)), 'map': lambda: map(lambda k: k, kids),
          'keys': lambda: dict.fromkeys(kids).keys(), 'set': lambda: set(kids)}[kind]()
    if how == 'set':
        nd = OptNode(content_of(name, params))
        nd.nodes_from = it
    elif how == 'linked-ctor':
        nd = LinkedGraphNode(content_of(name, params), nodes_from=it)
    else:
        nd = OptNode(content_of(name, params), nodes_from=it)
    return nd


def build_tree_node(t, protos=None, nkind='stock'):
    """protos (a dict) given: every node is a deepcopy of one prototype node per label, so all nodes of the
    tree that carry the same label are distinct objects sharing one uid (deepcopy keeps uids)"""
    name, params = LABELS[t[0]]
    kids = [build_tree_node(c, protos, nkind) for c in t[1]]
    if ':' in nkind:        # 'stock:<feed>': stock node, parents handed over as the iterable named by the feed
        return feed_node(nkind.split(':', 1)[1], name, params, kids)
    if protos is None:
        nd = make_node(nkind, name, params)
        nd.nodes_from = kids
        return nd
    if t[0] not in protos:
        protos[t[0]] = make_node(nkind, name, params)
    nd = deepcopy(protos[t[0]])
    nd.nodes_from = kids
    return nd


def build_tree(t, shared=False, cname='OptGraph', nkind='stock'):
    return CLASSES[cname](build_tree_node(t, {} if shared else None, nkind))


def tree_coq(t):
    return '(T %s %s)' % (c_str(t[0]), c_list([tree_coq(c) for c in t[1]], 'tree'))


def tree_json(t):
    return [t[0], [tree_json(c) for c in t[1]]]


def tree_from_json(j):
    return (j[0], tuple(tree_from_json(c) for c in j[1]))


def tree_size(t):
    return 1 + sum(tree_size(c) for c in t[1])


def py_canon(t):
    """diagnostic only (to name the offending pair in a replay); the oracle is Coq's"""
    return (t[0], tuple(sorted(py_canon(c) for c in t[1])))


# ---- large trees (17-60 nodes): isomorphic presentations next to locally similar non-isomorphic ones
def random_big_tree(rng, n, alpha):
    """labels[i], kids[i]; node 0 is the root"""
    labels = [rng.choice(alpha) for _ in range(n)]
    kids = [[] for _ in range(n)]
    for i in range(1, n):
        p = rng.choice([i - 1, rng.randrange(i), rng.randrange(i), rng.randrange(max(0, i - 4), i)])
        kids[p].append(i)
    return labels, kids


def nested(labels, kids, v=0):
    return (labels[v], tuple(nested(labels, kids, c) for c in kids[v]))


def below(kids, v):
    out, stack = {v}, [v]
    while stack:
        for c in kids[stack.pop()]:
            out.add(c)
            stack.append(c)
    return out


def exchange_branches(rng, labels, kids):
    """a locally similar tree: every node keeps its label and the multiset of labels of its children (the
    multiset of node neighbourhoods is unchanged), but branches move between equally labelled places:
    (a) two equally labelled nodes, neither below the other, exchange their whole children lists, or
    (b) two nodes hand each other one child, the two children being equally labelled.  None if no such place"""
    n = len(labels)
    for _ in range(60):
        u, w = rng.sample(range(n), 2)
        if u in below(kids, w) or w in below(kids, u):
            continue
        new = [list(k) for k in kids]
        if rng.random() < 0.5:
            if labels[u] != labels[w] or (not kids[u] and not kids[w]):
                continue
            new[u], new[w] = list(kids[w]), list(kids[u])
            return new
        if not kids[u] or not kids[w]:
            continue
        cu, cw = rng.choice(kids[u]), rng.choice(kids[w])
        if labels[cu] != labels[cw]:
            continue
        new[u][new[u].index(cu)] = cw
        new[w][new[w].index(cw)] = cu
        return new
    return None


def big_tree_pool(rng, families):
    trees = []
    for _ in range(families):
        n = rng.choice([17, 18, 20, 24, 30, 40, 60])
        labels, kids = random_big_tree(rng, n, rng.choice(['ab', 'ab', 'abc']))
        trees.append(nested(labels, kids))
        for _ in range(2):          # isomorphic presentations
            trees.append(nested(labels, [rng.sample(k, len(k)) for k in kids]))
        for _ in range(3):          # locally similar, usually not isomorphic (Coq decides)
            new = exchange_branches(rng, labels, kids)
            if new is not None:
                trees.append(nested(labels, [rng.sample(k, len(k)) for k in new]))
    return trees


_W = {}


def _w_init(trees, shared, classes, kinds):
    import logging
    logging.disable(logging.CRITICAL)
    _W['graphs'] = [build_tree(t, sh, c, k) for t, sh, c, k in zip(trees, shared, classes, kinds)]


def _w_rows(rng_):
    gs = _W['graphs']
    lo, hi = rng_
    return [[j for j, h in enumerate(gs) if gs[i] == h] for i in range(lo, hi)]


def eq_rows(trees, graphs, workers, shared, classes, kinds):
    """row i = positions j with graphs[i] == graphs[j] (the real __eq__ on every ordered pair)"""
    n = len(trees)
    if workers <= 1 or n < 800:
        return [[j for j, h in enumerate(graphs) if g == h] for g in graphs]
    step = max(1, n // (workers * 8))
    chunks = [(lo, min(n, lo + step)) for lo in range(0, n, step)]
    rows = []
    with concurrent.futures.ProcessPoolExecutor(max_workers=workers, initializer=_w_init,
                                                initargs=(trees, shared, classes, kinds)) as ex:
        for part in ex.map(_w_rows, chunks):
            rows.extend(part)
    return rows


TREE_FN = ('fun c => match c with (t, oid, er, ir) => '
           '[agree_tree msinks t oid er; holds_tree canons t er ir] end')


def tree_preamble(trees):
    return ('Definition pool : list tree := %s.\n'
            'Definition canons := Eval vm_compute in (map canon pool).\n'
            'Definition msinks := Eval vm_compute in (map (fun t => sink_ids (dg_of_tree t)) pool).\n'
            % c_list([tree_coq(t) for t in trees], 'tree'))


def run_tree_pool(ctx, group, trees, workers=1, canary=True, shared=None, classes=None, kinds=None):
    """shared: per pool entry, build the tree from deepcopies sharing uids; classes: per pool entry, the graph
    class holding it (the Coq side sees the tree only)"""
    shared = shared or [False] * len(trees)
    classes = classes or ['OptGraph'] * len(trees)
    kinds = kinds or ['stock'] * len(trees)         # node class of the entry (see NODE_KINDS)
    roots = [build_tree_node(t, {} if sh else None, k) for t, sh, k in zip(trees, shared, kinds)]
    graphs = [CLASSES[c](r) for r, c in zip(roots, classes)]
    for t, g in zip(trees, graphs):      # == and descriptive_id are total on trees
        try:
            g.descriptive_id, g == g, g == graphs[0]
        except Exception as ex:
            ctx.count(group, key=('tree', t), nontrivial=True, raised=True)
            ctx.violate(group, {'kind': 'tree-pair', 't1': tree_json(t), 't2': tree_json(trees[0]),
                                'raised': '%s: %s' % (type(ex).__name__, ex)}, '== or descriptive_id raised on a tree')
            return [], []
    ids = [g.descriptive_id for g in graphs]
    # the root node's own identifier is the graph's (a disagreement with the model: agree_tree checks both)
    for t, r, s in zip(trees, roots, ids):
        if r.descriptive_id != s:
            ctx.disagree(group, {'kind': 'tree-pair', 't1': tree_json(t), 't2': tree_json(t)},
                         'the identifier of the root node differs from the identifier of the tree graph')
    rows = eq_rows(trees, graphs, workers, shared, classes, kinds)
    by_id = {}
    for j, s in enumerate(ids):
        by_id.setdefault(s, []).append(j)
    id_rows = [by_id[s] for s in ids]
    n = len(trees)
    cases = []
    for t, s, er, ir in zip(trees, ids, rows, id_rows):
        cases.append('(%s, %s, %s, %s)' % (tree_coq(t), c_str(s), c_list(map(c_nat, er), 'nat'),
                                          c_list(map(c_nat, ir), 'nat')))
    if canary:
        # a deliberately wrong row: the last tree claimed equal to tree 0 as well (it is not,
        # tree 0 is a single node) / or not equal to itself when the pool has one tree
        bad = sorted(set(rows[-1]) ^ {0})
        cases.append('(%s, %s, %s, %s)' % (tree_coq(trees[-1]), c_str(ids[-1]), c_list(map(c_nat, bad), 'nat'),
                                          c_list(map(c_nat, id_rows[-1]), 'nat')))
        ctx.canaries += 1
    res = coq_eval(ctx, group, TREE_FN, cases, 2, shard=max(36, len(cases) // 16 + 1), preamble=tree_preamble(trees),
                        case_ty='tree * string * list nat * list nat')
    if canary:
        if res[-1] == (False, False):
            ctx.canaries_caught += 1
        res = res[:-1]
    g = ctx.group(group)
    canon_ids = [py_canon(t) for t in trees]
    for i, (t, (ag, ho)) in enumerate(zip(trees, res)):
        ctx.count(group, key=('tree', t, shared[i], classes[i], kinds[i]), nontrivial=tree_size(t) >= 2,
                  size=tree_size(t), shared_uids=shared[i], graph_class=classes[i], node_class=kinds[i])
        g['evaluations'] += n - 1          # the row holds n ordered pairs
        d = g['distribution'].setdefault('pairs', {})
        d['equal'] = d.get('equal', 0) + len(rows[i])
        d['unequal'] = d.get('unequal', 0) + n - len(rows[i])
        if not ho or not ag:
            # name one offending partner (diagnostic; falls back to the whole row)
            expect = [j for j in range(n) if canon_ids[j] == canon_ids[i]]
            bad = sorted(set(expect) ^ set(rows[i])) or sorted(set(expect) ^ set(id_rows[i]))
            j = bad[0] if bad else i
            case = {'kind': 'tree-pair', 't1': tree_json(t), 't2': tree_json(trees[j]),
                    'shared_uids1': shared[i], 'shared_uids2': shared[j], 'class1': classes[i], 'class2': classes[j],
                    'nkind1': kinds[i], 'nkind2': kinds[j],
                    'observed_eq': j in rows[i], 'observed_id1': ids[i], 'observed_id2': ids[j]}
            if not ho:
                ctx.violate(group, case, 'tree equality / identifier equality differs from label-preserving '
                                         'isomorphism (canonical form)')
            if not ag:
                ctx.disagree(group, case, 'model and implementation differ on a tree')
    return ids, rows


# ----------------------------------------------------------------------------------------
# group (b): random DAGs x permutations of listing order / parent order / fresh identities
# ----------------------------------------------------------------------------------------
NAMES = ['a', 'b', 'c', 'ab', 'a_b', 'n', 'scaling', 'a;b', 'x(y', 'z)', 'p/q', '(', ';', 'ID_CYCLED', 'A', '0', ' ']
# names that are not strings, the falsy ones included (index-named nodes 0..n-1 are common): description()
# renders every name that is not None through str()
NONSTR = [0, False, 0.0, 1, 2, True, 2.5]
PARAMS = [None, None, None, {}, {'k': 1}, {'k': 2}, {'a': 1, 'b': 'x'}, {'t': (1, 2)}, {'s': 'a;b)/('}, {'n': None}]
PARAMS_BIG = PARAMS + BIG_PARAMS       # used by a quarter of the dag triples


def p_key(p):
    return None if p is None else repr(p)


def random_spec(rng, n, single_sink, names, params_on, tree=False, params=None):
    """spec = list of [name, params, parents] ; node 0 is a sink; every node j > 0 gets its children
    among the nodes before it, so the graph is acyclic"""
    spec = [[rng.choice(names), (deepcopy(rng.choice(params or PARAMS)) if params_on else None), []]
            for _ in range(n)]
    for j in range(1, n):
        k = 1 if tree else (rng.choice([1, 1, 1, 2, 2, 3]) if (single_sink or rng.random() < 0.75) else 0)
        for child in rng.sample(range(j), min(k, j)):
            spec[child][2].append(j)
    for s in spec:
        rng.shuffle(s[2])
    return spec


def content_of(name, params):
    c = {'name': name}
    if params is not None:
        c['params'] = deepcopy(params)
    return c


def build(spec, order, how, dups=None, cname='OptGraph', nkind='stock'):
    """builds a fresh graph from spec; order = listing order requested (permutation of the spec
    positions); how: 'nodes' (assign the nodes list), 'ctor' (OptGraph(list): add_node order),
    'roots' (OptGraph(list of root nodes)); dups = {j: i}: node j is made as deepcopy(node i), i.e. a distinct
    object with the same uid (content then set from the spec).  Returns (graph, nodes by spec position)"""
    if not all(kind_ok(nkind, s[0], s[1]) for s in spec):
        nkind = 'stock'
    nodes = [make_node(nkind, s[0], s[1]) for s in spec]
    for j, i in (dups or {}).items():
        if j < len(nodes) and i < len(nodes):
            nodes[j] = set_truth_content(deepcopy(nodes[i]), spec[j][0], spec[j][1])
    for nd, s in zip(nodes, spec):
        nd.nodes_from = [nodes[p] for p in s[2]]
    listing = [nodes[i] for i in order]
    cls = CLASSES[cname]
    if how == 'nodes':
        g = cls()
        g.nodes = listing
    elif how == 'ctor':
        g = cls(listing)
    else:
        has_child = {p for s in spec for p in s[2]}
        roots = [nodes[i] for i in order if i not in has_child]
        g = cls(roots) if roots else cls(listing)
    if len(g.nodes) != len(nodes):     # a part without root nodes (cyclic) is not reachable from the roots
        g = cls()
        g.nodes = listing
    return g, nodes


def snapshot(g):
    """the model's input, read back from the real object.  uids are renamed to short tokens in an
    order-preserving way (only their relative order inside one graph is observable) unless some label is
    derived from a uid (empty name)"""
    pos = {id(n): i for i, n in enumerate(g.nodes)}
    # name and params are read from the raw content (not through the node's own name / parameters properties,
    # which are part of the code under test): the model's name is str(name) for every name that is not None
    truth = [getattr(n, '_truth', None) for n in g.nodes]
    raw = [t[2] if t else n.content.get('name') for n, t in zip(g.nodes, truth)]
    names = [t[0] if t else ('' if r is None else str(r)) for t, r in zip(truth, raw)]
    if any(nm == '' for nm in names):
        ren = {n.uid: n.uid for n in g.nodes}
    else:
        ren = {u: 'u%02d' % k for k, u in enumerate(sorted({n.uid for n in g.nodes}))}
    out = []
    for n, nm, r, t in zip(g.nodes, names, raw, truth):
        pr = t[1] if t else n.content.get('params')
        out.append([ren[n.uid], nm, str(pr) if pr else '', [pos[id(p)] for p in n.nodes_from],
                    r if isinstance(r, (bool, int, float)) else None,       # raw non-string name, for replays
                    t[3] if t else 'stock'])                                # node class
    return out


# strings of the dag group are printed as byte lists (elaborated ~2.5x faster than string literals)
PRE_BS = """From Coq Require Import Strings.Byte.
Inductive bstr := BS (l : list Byte.byte).
Definition unBS (b : bstr) := match b with BS l => l end.
Declare Scope bs_scope. Delimit Scope bs_scope with bs.
String Notation bstr BS unBS : bs_scope.
Definition s_ (b : bstr) : string := string_of_list_byte (unBS b).
"""


def c_bs(s):
    return '(s_ %s%%bs)' % c_str(s)[:-len('%string')]


def dg_coq(snap):
    return c_list(['(mk_node %s %s %s %s)' % (c_bs(u), c_bs(nm), c_bs(pr), c_list(map(c_nat, ps), 'nat'))
                   for u, nm, pr, ps in (e[:4] for e in snap)], 'node')


def observe(g):
    c = deepcopy(g)
    return {'gid': g.descriptive_id, 'nids': [n.descriptive_id for n in g.nodes], 'refl': bool(g == g),
            'copy_eq': bool(g == c), 'copy_eq2': bool(c == g), 'copy_gid': c.descriptive_id}


def gobs_coq(o):
    return ('{| o_gid := %s; o_nids := %s; o_refl := %s; o_copy_eq := %s; o_copy_eq\' := %s; o_copy_gid := %s |}'
            % (c_bs(o['gid']), c_list(map(c_bs, o['nids']), 'string'), c_bool(o['refl']), c_bool(o['copy_eq']),
               c_bool(o['copy_eq2']), c_bs(o['copy_gid'])))


HOWS = ['deepcopy-relist', 'rebuild-nodes', 'rebuild-ctor', 'rebuild-roots', 'deepcopy']


def variant(rng, spec, base_graph, base_nodes, hows=HOWS):
    """an isomorphic presentation of the graph described by spec (rebuild-*: from fresh nodes).
    Returns (graph, nodes by spec position, how)"""
    n = len(spec)
    how = rng.choice(hows)
    if how.startswith('deepcopy'):
        idx = {id(nd): i for i, nd in enumerate(base_nodes)}
        order0 = [idx[id(nd)] for nd in base_graph.nodes]
        g = deepcopy(base_graph)
        nodes = [None] * n
        for k, nd in enumerate(g.nodes):
            nodes[order0[k]] = nd
        if how == 'deepcopy-relist':
            lst = list(g.nodes)
            rng.shuffle(lst)
            g.nodes = lst
            for nd in lst:
                ps = list(nd.nodes_from)
                rng.shuffle(ps)
                nd.nodes_from = ps
        if rng.random() < 0.5:        # the copy handed over to a graph of another class
            g = rehouse(g, rng.choice(CLASS_NAMES))
        return g, nodes, how
    spec2 = [[s[0], s[1], rng.sample(s[2], len(s[2]))] for s in spec]
    order = rng.sample(range(n), n)
    g, nodes = build(spec2, order, {'rebuild-nodes': 'nodes', 'rebuild-ctor': 'ctor'}.get(how, 'roots'),
                     cname=rng.choice(CLASS_NAMES), nkind=rng.choice(KIND_CHOICES))
    return g, nodes, how


def mutate_spec(rng, spec, names):
    """a nearby, usually non-isomorphic graph"""
    spec = [[s[0], s[1], list(s[2])] for s in spec]
    n = len(spec)
    kind = rng.choice(['name', 'params', 'add-edge', 'del-edge', 'add-node', 'swap'])
    if kind == 'name':
        i = rng.randrange(n)
        spec[i][0] = rng.choice([x for x in names + ['zz'] if x != spec[i][0]])
    elif kind == 'params':
        i = rng.randrange(n)
        if p_key(spec[i][1]) in BIG_PARTNER and rng.random() < 0.8:
            spec[i][1] = deepcopy(BIG_PARTNER[p_key(spec[i][1])])      # differs in one late key / middle character
        else:
            spec[i][1] = rng.choice([p for p in PARAMS_BIG if p_key(p) != p_key(spec[i][1])])
    elif kind == 'add-edge' and n >= 2:
        i = rng.randrange(n - 1)
        j = rng.randrange(i + 1, n)
        if j not in spec[i][2]:
            spec[i][2].append(j)
    elif kind == 'del-edge':
        cand = [i for i in range(n) if spec[i][2]]
        if cand:
            i = rng.choice(cand)
            spec[i][2].pop(rng.randrange(len(spec[i][2])))
    elif kind == 'add-node':
        spec.append([rng.choice(names), None, []])
        spec[rng.randrange(n)][2].append(n)
    else:
        if n >= 2:
            i, j = rng.sample(range(n), 2)
            spec[i][0], spec[j][0] = spec[j][0], spec[i][0]
            spec[i][1], spec[j][1] = spec[j][1], spec[i][1]
    return spec, kind


def index_map(g_from, nodes_from, g_to, nodes_to):
    """listing position in g_from -> listing position in g_to of the node built from the same spec position"""
    pos_to = {id(nd): i for i, nd in enumerate(g_to.nodes)}
    sp = {id(nd): k for k, nd in enumerate(nodes_from)}
    return [pos_to[id(nodes_to[sp[id(nd)]])] for nd in g_from.nodes]


DAG_FN = ('fun c => match c with (g1, g2, g3, f12, f23, o1, o2, o3, t) => '
          '[agree_t g1 g2 g3 o1 o2 o3 t; holds_t g1 g2 g3 f12 f23 o1 o2 o3 t; iso_b g1 g2 f12; iso_b g2 g3 f23] end')


def eqs_coq(e):
    return ('{| eq12 := %s; eq21 := %s; eq23 := %s; eq32 := %s; eq13 := %s; eq31 := %s |}'
            % tuple(c_bool(e[k]) for k in ('12', '21', '23', '32', '13', '31')))


def observe_triple(g1, g2, g3):
    return {'12': bool(g1 == g2), '21': bool(g2 == g1), '23': bool(g2 == g3), '32': bool(g3 == g2),
            '13': bool(g1 == g3), '31': bool(g3 == g1)}


def triple_case(g1, g2, g3, f12, f23):
    """(Coq term, json case); the term is None when == / descriptive_id raised (reported as a violation:
    the property makes them total on these inputs)"""
    s1, s2, s3 = snapshot(g1), snapshot(g2), snapshot(g3)
    try:
        o1, o2, o3 = observe(g1), observe(g2), observe(g3)
        e = observe_triple(g1, g2, g3)
    except Exception as ex:
        return None, {'kind': 'dag-triple', 'g1': s1, 'g2': s2, 'g3': s3, 'f12': f12, 'f23': f23,
                      'classes': [cls_name(g1), cls_name(g2), cls_name(g3)],
                      'raised': '%s: %s' % (type(ex).__name__, ex)}
    term = '(%s, %s, %s, %s, %s, %s, %s, %s, %s)' % (
        dg_coq(s1), dg_coq(s2), dg_coq(s3), c_list(map(c_nat, f12), 'nat'), c_list(map(c_nat, f23), 'nat'),
        gobs_coq(o1), gobs_coq(o2), gobs_coq(o3), eqs_coq(e))
    case = {'kind': 'dag-triple', 'g1': s1, 'g2': s2, 'g3': s3, 'f12': f12, 'f23': f23,
            'classes': [cls_name(g1), cls_name(g2), cls_name(g3)], 'obs': [o1, o2, o3], 'eq': e}
    return term, case


def graph_from_snapshot(snap, cname='OptGraph'):
    """rebuild a real graph from a replay snapshot (uids restored)"""
    nodes = []
    for e in snap:
        u, nm, pr, ps = e[:4]
        name = nm if nm != '' else None
        if len(e) > 4 and e[4] is not None:
            name = e[4]                     # a non-string name (0, False, 0.0, ...)
        params = eval(pr, {'__builtins__': {}}) if pr else None   # repr of a literal dict (own replay files only)
        nd = make_node(e[5] if len(e) > 5 else 'stock', name, params)
        nd.uid = u
        nodes.append(nd)
    for nd, e in zip(nodes, snap):
        nd.nodes_from = [nodes[p] for p in e[3]]
    g = CLASSES.get(cname, OptGraph)()
    g.nodes = nodes
    return g


def acyclic_spec(spec):
    state = [0] * len(spec)

    def visit(v):
        stack = [(v, iter(spec[v][2]))]
        state[v] = 1
        while stack:
            x, it = stack[-1]
            for p in it:
                if state[p] == 1:
                    return False
                if state[p] == 0:
                    state[p] = 1
                    stack.append((p, iter(spec[p][2])))
                    break
            else:
                state[x] = 2
                stack.pop()
        return True
    return all(state[v] == 2 or visit(v) for v in range(len(spec)))


def exchange_spec(rng, spec):
    """near-miss for large graphs: two nodes with the same name and params exchange their whole parent lists
    (the multiset of node neighbourhoods is unchanged); None when no acyclic exchange is found"""
    n = len(spec)
    for _ in range(60):
        u, w = rng.sample(range(n), 2)
        if spec[u][0] != spec[w][0] or p_key(spec[u][1]) != p_key(spec[w][1]):
            continue
        if sorted(spec[u][2]) == sorted(spec[w][2]) or u in spec[w][2] or w in spec[u][2]:
            continue
        new = [[s[0], s[1], list(s[2])] for s in spec]
        new[u][2], new[w][2] = list(spec[w][2]), list(spec[u][2])
        if acyclic_spec(new):
            return new
    return None


def make_cyclic(rng, spec):
    """outside the property's scope, used to validate the model only: close a cycle by making a node a
    parent of one of its ancestors (or of itself)"""
    spec = [[s[0], s[1], list(s[2])] for s in spec]
    n = len(spec)
    i = rng.randrange(n)
    anc, stack = [i], [i]
    while stack:
        for p in spec[stack.pop()][2]:
            if p not in anc:
                anc.append(p)
                stack.append(p)
    j = rng.choice(anc)
    if i not in spec[j][2]:
        spec[j][2].append(i)
    return spec


def run_dags(ctx, n_triples, n_large=0):
    rng = ctx.rng
    cases, meta = [], []
    step = max(2, n_triples // n_large) if n_large else 0
    for it in range(n_triples):
        n = rng.choice([1, 2, 3, 3, 4, 4, 5, 5, 6, 6, 7, 8, 9, 10])
        single = rng.random() < 0.5
        names = rng.choice([NAMES[:2], NAMES[:3], NAMES[:6], NAMES, NONSTR, NONSTR[:3] + NAMES[:2]])
        params_on = rng.random() < 0.5
        spec = random_spec(rng, n, single, names, params_on, params=PARAMS_BIG if rng.random() < 0.25 else None)
        flavour = 'dag'
        dups = {}
        r = rng.random()
        if step and it % step == 1:
            # a large tree (17-60 nodes), half of the time with one or two extra links (a DAG with shared nodes)
            n = rng.choice([17, 18, 20, 25, 30, 40, 60])
            single = True
            names = rng.choice([NAMES[:2], NAMES[:3]])
            spec = random_spec(rng, n, True, names, rng.random() < 0.3, tree=True)
            if rng.random() < 0.5:
                for _ in range(rng.choice([1, 2])):
                    c = rng.randrange(n - 1)
                    j = rng.randrange(c + 1, n)
                    if j not in spec[c][2]:
                        spec[c][2].append(j)
            flavour = 'large'
        elif r < 0.04:
            spec = make_cyclic(rng, spec)
            flavour = 'cyclic'
        elif r < 0.07:
            spec[rng.randrange(n)][0] = rng.choice([None, ''])     # label falls back to the uid
            flavour = 'uid-label'
        elif r < 0.08:
            spec = []
            flavour = 'empty'
        elif r < 0.26 and n >= 2:
            # some nodes are deepcopies of other nodes of the SAME graph (distinct objects, shared uid): a tree
            # (half of the time) or a DAG, the copies at any position (leaf / inner / root)
            if rng.random() < 0.5:
                spec = random_spec(rng, n, True, names, params_on, tree=True)
            for _ in range(rng.choice([1, 1, 2, 3])):
                i, j = rng.sample(range(n), 2)
                i = dups.get(i, i)
                if i != j and j not in dups.values():
                    dups[j] = i
                    spec[j][0], spec[j][1] = spec[i][0], deepcopy(spec[i][1])
            flavour = 'shared-uid'
        g1, nodes1 = build(spec, list(range(len(spec))), rng.choice(['nodes', 'ctor', 'roots']), dups,
                           cname=rng.choice(CLASS_NAMES), nkind=rng.choice(KIND_CHOICES))
        g2, nodes2, how2 = variant(rng, spec, g1, nodes1, HOWS[1:4] if dups and rng.random() < 0.7 else HOWS)
        f12 = index_map(g1, nodes1, g2, nodes2)
        if rng.random() < 0.4:
            g3, nodes3, how3 = variant(rng, spec, g2, nodes2)
            f23 = index_map(g2, nodes2, g3, nodes3)
            claim23 = True
        else:
            spec3, how3 = mutate_spec(rng, spec, names) if spec else ([['a', None, []]], 'add-node')
            if flavour == 'large' and rng.random() < 0.8:
                ex = exchange_spec(rng, spec)
                if ex is not None:
                    spec3, how3 = ex, 'exchange-parent-lists'
            # the near-miss keeps the shared uids half of the time
            g3, nodes3 = build(spec3, rng.sample(range(len(spec3)), len(spec3)), 'nodes',
                               dups if rng.random() < 0.5 else None, cname=rng.choice(CLASS_NAMES),
                               nkind=rng.choice(KIND_CHOICES))
            f23 = []
            claim23 = False
        # fresh identities change a uid-derived label: then only deep copies are isomorphic presentations
        claim12 = not (flavour == 'uid-label' and not how2.startswith('deepcopy'))
        if flavour == 'uid-label' and claim23 and not how3.startswith('deepcopy'):
            claim23 = False
        term, case = triple_case(g1, g2, g3, f12, f23)
        case.update({'flavour': flavour, 'how2': how2, 'how3': how3})
        if term is None:
            ctx.count('dags', key=repr(case['g1']), nontrivial=True, flavour=flavour, raised=True)
            ctx.violate('dags', case, '== or descriptive_id raised ' + case['raised'])
            continue
        cases.append(term)
        meta.append((case, claim12, claim23, flavour, how2, how3, len(spec), single, params_on))
    # canary: an isomorphic pair reported as unequal
    spec = [['a', None, [1, 2]], ['b', None, []], ['c', {'k': 1}, []]]
    g1, nodes1 = build(spec, [0, 1, 2], 'nodes')
    g2, nodes2 = build(spec, [2, 0, 1], 'nodes')
    f12 = index_map(g1, nodes1, g2, nodes2)
    s1, s2 = snapshot(g1), snapshot(g2)
    o1, o2 = observe(g1), observe(g2)
    e = observe_triple(g1, g2, g2)
    e['12'] = not e['12']
    cases.append('(%s, %s, %s, %s, %s, %s, %s, %s, %s)' % (
        dg_coq(s1), dg_coq(s2), dg_coq(s2), c_list(map(c_nat, f12), 'nat'), c_list(map(c_nat, [0, 1, 2]), 'nat'),
        gobs_coq(o1), gobs_coq(o2), gobs_coq(o2), eqs_coq(e)))
    ctx.canaries += 1
    res = coq_eval(ctx, 'dags', DAG_FN, cases, 4, shard=110, preamble=PRE_BS)
    if res[-1][:2] == (False, False):
        ctx.canaries_caught += 1
    for (case, claim12, claim23, flavour, how2, how3, n, single, params_on), (ag, ho, i12, i23) in zip(meta, res[:-1]):
        e = case['eq']
        changed12 = case['g1'] != case['g2']
        for (a, b, iso_claim, isob, how) in (('1', '2', claim12, i12, how2), ('2', '3', claim23, i23, how3)):
            ctx.count('dags', key=(repr(case['g' + a]), repr(case['g' + b])),
                      nontrivial=(n >= 2 and case['g' + a] != case['g' + b]),
                      flavour=flavour, transformation=how, nodes=n, isomorphic_presentation=bool(isob),
                      observed_equal=e[a + b], sinks=('single' if single else 'any'), params=params_on,
                      graph_classes='%s/%s' % (case['classes'][int(a) - 1], case['classes'][int(b) - 1]),
                      node_classes='%s/%s' % tuple((case['g' + x][0][5] if case['g' + x] else 'none') for x in (a, b)))
            if iso_claim and not isob:
                ctx.error('dags', 'harness bug: claimed isomorphism rejected by iso_b: %r' % (case,))
        ctx.count('dags', key=(repr(case['g1']), repr(case['g3'])), nontrivial=n >= 2, flavour=flavour,
                  transformation='composite', observed_equal=e['13'])
        if not ho:
            ctx.violate('dags', case, 'isomorphic presentations compare unequal / get different identifiers, or '
                                      'equality is not an equivalence / deep copy differs')
        if not ag:
            ctx.disagree('dags', case, 'model and implementation differ on ids or == of a graph triple')
    for m in meta[:2]:
        c = m[0]
        ctx.sample({'group': 'dags', 'g1': c['g1'], 'g2': c['g2'], 'f12': c['f12'], 'how2': c['how2'],
                    'observed': {'eq': c['eq'], 'gid1': c['obs'][0]['gid'], 'gid2': c['obs'][1]['gid']}})


def run(ctx):
    ctx.rule = ('(a) trees: every ordered pair of labelled plane trees (quick: <=5 nodes over {a,b} and <=3 nodes over 4 '
                'labels two of which differ in params only; thorough: <=6 nodes over {a,b}, <=4 nodes over {a,b,c} '
                'and <=4 nodes over the 4 labels; plus a pool holding every tree <=4 (thorough <=5) nodes over {a,b} twice: '
                'from fresh nodes and from deepcopies sharing one uid per label; plus every tree <=3 (thorough <=4) nodes over {a,b} and '
                '<=4 nodes over {a} once per way of handing the parents over [constructor / setter x list, tuple, generator, '
                'list iterator, map object, dict keys view, set]; plus <=3 (thorough <=4) nodes over the '
                'names a, 0, False, 0.0 [non-string, falsy]; plus every tree <=4 nodes over {a,b} held by each of LinkedGraph, '
                'OptGraph and a subclass of each [thorough also <=5 nodes x LinkedGraph/OptGraph]; plus trees <=2 nodes over '
                'the labels with big params [5/12 keys, 41/200-char strings, 10-item list/tuple, nesting 8] in pairs '
                'differing in one late key / middle or last character; plus random large trees of 17-60 nodes in '
                'families [tree, 2 isomorphic presentations, <=3 branch exchanges between equally labelled places]); '
                'one evaluation = one ordered pair '
                '(real == called); '
                'distinct non-trivial = distinct tree with >=2 nodes (row of the pair matrix).  (b) dags: triples '
                '(every graph held by a random one of the 4 graph classes and built from a random one of 5 node classes '
                '[stock; parameters / name overridden and stored elsewhere; uid in __repr__; a direct GraphNode '
                'implementation]; 25% draw params from a list that includes the big '
                'ones; 30 [thorough 120] triples are large graphs of 17-60 nodes whose near-miss exchanges the parent '
                'lists of two equally labelled nodes; g1 [18%: some nodes are deepcopies of other nodes of the same graph = distinct objects with one uid], '
                'presentation g2 of g1 [deepcopy / relisted / parents reordered / rebuilt with fresh uids], '
                'g3 = another presentation or a near-miss mutation); one evaluation = one unordered pair of the '
                'triple (== observed both ways, ids of graph and of every node); non-trivial = >=2 nodes and the '
                'two snapshots differ')
    ctx.trusted_extra = [
        'str(dict) of node params and str(name) are passed to the model as opaque strings (CPython repr is not modelled)',
        'the graph is read back from the real objects (graph.nodes order, nodes_from order, uid); closedness '
        '(every parent listed in graph.nodes) is assumed by the representation and holds for graphs built through add_node',
        'list.sort / sorted on str = code-point order (labels restricted to printable ASCII)',
        'copy.deepcopy is exercised, not modelled (in the index representation a deep copy is the same value)']
    # ---- (a)
    trees = all_trees(5, 'ab')
    if ctx.tier == 'thorough':
        trees = all_trees(6, 'ab')
    ids, rows = run_tree_pool(ctx, 'trees', trees, workers=6 if ctx.tier == 'thorough' else 1)
    ctx.set_exhaustive('trees', True)
    # labels that differ in params only / in name only
    alpha = ['a', 'b', "a_{'k': 1}", "a_{'k': 2}"]
    run_tree_pool(ctx, 'trees-params', all_trees(ctx.pick(3, 4), alpha), workers=ctx.pick(1, 6))
    ctx.set_exhaustive('trees-params', True)
    # node names that are not strings: the integer 0, False, 0.0 (falsy but not None) next to a string
    run_tree_pool(ctx, 'trees-nonstring-names', all_trees(ctx.pick(3, 4), ['a', '0', 'False', '0.0']),
                  workers=ctx.pick(1, 6))
    ctx.set_exhaustive('trees-nonstring-names', True)
    # parameters beyond the small sizes: 5 and 12 keys, strings of 41 / 200 characters, 10-item list / tuple,
    # nesting 8 deep - in pairs that differ in one late key / one character in the middle or at the end
    short = [t for t in BIG_TOKENS if len(t) < 120]
    run_tree_pool(ctx, 'trees-big-params', all_trees(1, BIG_TOKENS) + all_trees(2, short)[len(short):] +
                  (all_trees(3, short[:6])[42:] if ctx.tier == 'thorough' else []),
                  workers=ctx.pick(1, 6))
    ctx.set_exhaustive('trees-big-params', True)
    # large trees (17-60 nodes) in families: a random tree, 2 isomorphic presentations, up to 3 trees in which
    # branches were exchanged between equally labelled places (same multiset of node neighbourhoods)
    big = big_tree_pool(ctx.rng, ctx.budget(10, 24))
    run_tree_pool(ctx, 'trees-large', big, workers=1,
                  classes=[('LinkedGraph', 'OptGraph')[i % 2] for i in range(len(big))])
    ctx.set_exhaustive('trees-large', False)
    # user node classes: params kept outside content behind an overridden `parameters`, `name` overridden, uid shown
    # by __repr__/__str__, and a class implementing the abstract GraphNode interface directly
    pt = all_trees(3, ['a', "a_{'k': 1}", "a_{'k': 2}"])
    gt = all_trees(3, 'ab')
    ents = [(t, k) for k in ('stock', 'tunable', 'named', 'repr') for t in pt] + [(t, k) for k in ('gate', 'repr') for t in gt]
    run_tree_pool(ctx, 'trees-node-classes', [e[0] for e in ents], workers=1, kinds=[e[1] for e in ents],
                  classes=[('OptGraph', 'LinkedGraph')[i % 2] for i in range(len(ents))])
    ctx.set_exhaustive('trees-node-classes', True)
    # every small tree held by each of the graph classes (all ordered pairs: == in both directions across classes)
    base = all_trees(4, 'ab')
    run_tree_pool(ctx, 'trees-graph-classes', base * len(CLASS_NAMES), workers=ctx.pick(1, 6),
                  classes=[c for c in CLASS_NAMES for _ in base])
    ctx.set_exhaustive('trees-graph-classes', True)
    if ctx.tier == 'thorough':
        base = all_trees(5, 'ab')
        run_tree_pool(ctx, 'trees-graph-classes-5', base + base, workers=6,
                      classes=['LinkedGraph'] * len(base) + ['OptGraph'] * len(base))
        ctx.set_exhaustive('trees-graph-classes-5', True)
    # every small tree once per way of handing the parents to a node (list / tuple / generator / list iterator / map
    # object / dict keys view / set; constructor argument and nodes_from setter): all ordered pairs across the feeds
    base = all_trees(ctx.pick(3, 4), 'ab') + all_trees(4, 'a')[4:]
    fk = ['stock'] + ['stock:' + f for f in FEEDS]
    run_tree_pool(ctx, 'trees-parent-feeds', base * len(fk), workers=1, kinds=[k for k in fk for _ in base])
    ctx.set_exhaustive('trees-parent-feeds', True)
    base = all_trees(ctx.pick(4, 5), 'ab')
    run_tree_pool(ctx, 'trees-shared-uid', base + base, workers=ctx.pick(1, 6),
                  shared=[False] * len(base) + [True] * len(base))
    ctx.set_exhaustive('trees-shared-uid', True)
    if ctx.tier == 'thorough':
        run_tree_pool(ctx, 'trees3', all_trees(4, 'abc'), workers=1)
        ctx.set_exhaustive('trees3', True)
    k = len(trees) - 7
    if ids:
        ctx.sample({'group': 'trees', 'tree': tree_json(trees[k]), 'observed_id': ids[k],
                'equal_to': [tree_json(trees[j]) for j in rows[k][:4]], 'n_equal': len(rows[k])})
    # ---- probe (recorded in the evidence notes, not judged): params dicts that are equal but were filled in a
    # different key order render differently in description(), so the graphs compare unequal
    p1 = OptGraph(OptNode({'name': 'q', 'params': {'a': 1, 'b': 2}}))
    p2 = OptGraph(OptNode({'name': 'q', 'params': {'b': 2, 'a': 1}}))
    ctx.notes.append('probe params-key-order: name q, params {a:1,b:2} vs {b:2,a:1} (equal dicts): == gives %s, ids %r / %r'
                     % (p1 == p2, p1.descriptive_id, p2.descriptive_id))
    # ---- (b)
    run_dags(ctx, ctx.budget(1700, 36000), n_large=ctx.budget(30, 120))
    ctx.set_exhaustive('dags', False)


def replay(ctx, payload):
    v = payload.get('violation') or payload.get('first_disagreement') or payload
    case = v.get('case') if isinstance(v, dict) else None
    if not case:
        return
    if case.get('kind') == 'tree-pair':
        trees = [tree_from_json(case['t1']), tree_from_json(case['t2'])]
        run_tree_pool(ctx, 'replay', trees, canary=False,
                      shared=[bool(case.get('shared_uids1')), bool(case.get('shared_uids2'))],
                      classes=[case.get('class1', 'OptGraph'), case.get('class2', 'OptGraph')],
                      kinds=[case.get('nkind1', 'stock'), case.get('nkind2', 'stock')])
    elif case.get('kind') == 'dag-triple':
        cl = case.get('classes') or ['OptGraph'] * 3
        g1, g2, g3 = (graph_from_snapshot(case[k], c) for k, c in zip(('g1', 'g2', 'g3'), cl))
        term, c = triple_case(g1, g2, g3, case['f12'], case['f23'])
        ctx.count('replay', key=repr(c['g1']), nontrivial=True)
        if term is None:
            ctx.violate('replay', c, '== or descriptive_id raised ' + c['raised'])
            return
        res = ctx.coq_cases('replay', REQ, DAG_FN, [term], 4, preamble=PRE_BS)
        if not res[0][1]:
            ctx.violate('replay', c, 'isomorphic presentations compare unequal / get different identifiers, or '
                                     'equality is not an equivalence / deep copy differs')
        if not res[0][0]:
            ctx.disagree('replay', c, 'model and implementation differ on ids or == of a graph triple')
