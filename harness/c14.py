"""C14 - seeded runs are reproducible and independent of presentation and worker count.

Implementation: REAL optimiser runs, each in a FRESH interpreter (subprocess of this file in
--worker mode), seeded the way the repository's own fixture does it (random.seed, numpy.random.seed,
os.urandom replaced by golem.utilities.utilities.urandom_mock), through the five optimiser classes
(harness/optrun.py builds them) and through the facade golem.api.main.GOLEM(seed=...).
Per configuration a group of runs: same seed twice, another PYTHONHASHSEED, show_progress on, logging
level DEBUG, and (parallel mode) n_jobs in {1, 2, 4} plus the same with joblib's own identifiers kept
off the seeded stream.  The FULL history exports are compared in Coq.
Model: coq/theories/Evo/Independence.v (agree = replay of the recorded run through the model loop,
holds_clause = equality of the canonical exports)."""
import concurrent.futures
import json
import os
import subprocess
import sys
import tempfile
import time

HERE = os.path.dirname(os.path.abspath(__file__))
REQ = ['Evo.Independence']
FN = 'verdicts'
NVERD = 11
CLAUSES = ['CRepeat', 'CHashSeed', 'CProgress', 'CLogging', 'CWorkers', 'CWorkersFrom2', 'CWorkersIsolated', 'CFacade',
           'CWorkersRepeat', 'CSameInterpreter']


# =================================================================================================
# worker: one run in a fresh interpreter
# =================================================================================================
def _classify_caller():
    """who asked os.urandom for bytes: 'golem', 'joblib:<function>' or the file name"""
    f = sys._getframe(2)
    for _ in range(8):
        if f is None:
            break
        fn = f.f_code.co_filename.replace('\\', '/')
        if fn.endswith('/uuid.py') or 'unittest/mock' in fn or fn == __file__:
            f = f.f_back
            continue
        if '/joblib/' in fn:
            label = 'joblib:' + fn.rsplit('/', 1)[-1] + ':' + f.f_code.co_name
            g = f.f_back
            for _ in range(25):     # joblib used by the adaptive mutation agent (mabwiser), not by the dispatcher
                if g is None:
                    break
                gn = g.f_code.co_filename.replace('\\', '/')
                if '/mabwiser/' in gn or '/optimisers/adaptive/' in gn:
                    return 'agent-' + label
                g = g.f_back
            return label
        if '/golem/' in fn:
            return 'golem'
        return fn.rsplit('/', 2)[-1] + ':' + f.f_code.co_name
    return 'unknown'


def _export(history, verifier_free=True):
    inds = {}

    def rec_of(ind):
        po = ind.parent_operator
        f = ind.fitness
        return {'uid': ind.uid,
                'fitness': ([float(x) for x in f.values] if f.valid else None),
                'id': ind.graph.descriptive_id,
                'nodes': [n.uid for n in ind.graph.nodes],
                'native_generation': ind.native_generation,
                'op': (po.type_ if po else None),
                'op_names': ([str(x) for x in po.operators] if po else []),
                'parents': ([p.uid for p in po.parent_individuals] if po else [])}

    order = []

    def visit(ind):
        stack = [ind]
        while stack:
            cur = stack.pop()
            if cur.uid in inds:
                if inds[cur.uid]['_obj'] is not cur:
                    inds[cur.uid]['two_objects'] = True
                continue
            r = rec_of(cur)
            r['_obj'] = cur
            inds[cur.uid] = r
            order.append(cur.uid)
            stack.extend(reversed(list(cur.parents)))

    gens = []
    for g in history.generations:
        gens.append({'num': g.generation_num, 'label': g.label, 'members': [i.uid for i in g]})
        for i in g:
            visit(i)
    arch = []
    for a in history.archive_history:
        arch.append([i.uid for i in a])
        for i in a:
            visit(i)
    for r in inds.values():
        r.pop('_obj', None)
    return {'gens': gens, 'archive': arch, 'inds': inds, 'order': order}


def stream_offsets(seed, uids):
    """offset (in generator outputs) at which each uuid4 string starts in the stream of random.seed(seed):
    urandom_mock(16) = 16 x getrandbits(8) = the top bytes of 16 consecutive 32-bit outputs; None = not there"""
    import random
    import uuid
    out = {}
    todo = list(uids)
    for n in (1000000, 6000000):
        r = random.Random(seed)
        tops = bytes(r.getrandbits(32) >> 24 for _ in range(n))
        for u in todo:
            try:
                b = uuid.UUID(u).bytes
            except ValueError:
                out[u] = None
                continue
            i = tops.find(b[:6])
            hit = None
            while i >= 0:
                w = tops[i:i + 16]
                if len(w) == 16 and (w[6] & 0x0f) == (b[6] & 0x0f) and w[7] == b[7] and (w[8] & 0x3f) == (b[8] & 0x3f) \
                        and w[9:] == b[9:]:
                    hit = i
                    break
                i = tops.find(b[:6], i + 1)
            out[u] = hit
        todo = [u for u in todo if out.get(u) is None]
        if not todo:
            break
    return out


def make_optimiser(cfg):
    """optrun.make_optimiser plus the adaptive mutation agent (cfg['agent']: default | bandit)"""
    import optrun
    # graphs of 13 and 16 nodes (depth 3): sizes beyond anything the other initial sets reach
    leaves = lambda names: [[n_, []] for n_ in names]
    optrun.INITIAL_GRAPHS.setdefault('c14_wide', [
        ['a', [['b', leaves('abc')], ['c', leaves('bca')], ['a', leaves('cab')]]],
        ['b', [['a', leaves('abca')], ['c', leaves('bcab')], ['b', leaves('cabc')]]]])
    if cfg.get('agent', 'default') == 'default':
        return optrun.make_optimiser(cfg, None, None)
    from golem.core.optimisers.adaptive.operator_agent import MutationAgentTypeEnum
    from golem.core.optimisers.genetic import gp_params
    orig = gp_params.GPAlgorithmParameters

    def with_agent(*a, **kw):
        kw['adaptive_mutation_type'] = MutationAgentTypeEnum[cfg['agent']]
        return orig(*a, **kw)
    optrun.GPAlgorithmParameters = with_agent          # the name optrun.make_optimiser looks up
    try:
        return optrun.make_optimiser(cfg, None, None)
    finally:
        optrun.GPAlgorithmParameters = orig


def worker(job):
    import logging
    import random
    from unittest.mock import patch
    import numpy as np
    from golem.core.log import Log
    from golem.utilities import utilities as gu

    real_urandom = os.urandom
    counts = {}

    def urandom_spy(n):
        who = _classify_caller()
        counts[who] = counts.get(who, 0) + 1
        if job.get('isolate_joblib') and who.startswith('joblib:'):
            return real_urandom(n)          # joblib's own identifiers stay off the seeded stream
        return gu.urandom_mock(n)           # the repository's replacement, unchanged

    Log().reset_logging_level(int(job.get('log_level', 50)))
    out = {'job': job, 'outcome': None}
    t0 = time.time()
    cfg = job['cfg']
    seed = cfg.get('seed', 0)
    stagn = []
    pop_size_param = []
    if job['mode'] == 'class':
        import optrun
        with patch('os.urandom', urandom_spy):
            gu.set_random_seed(seed)            # numpy.random.seed + random.seed (what GOLEM(seed=) calls)
            opt, objective, gen = make_optimiser(cfg)
            fault = job.get('callback_fault')
            calls = [0]

            def cb(population, optimiser):
                k = calls[0]
                calls[0] += 1
                keeper = getattr(optimiser, 'generations', None)
                stagn.append(getattr(keeper, 'stagnation_iter_count', 0))
                pop_size_param.append(getattr(optimiser.graph_optimizer_params, 'pop_size', None))
                if fault and fault['at'] == k:
                    raise RuntimeError('injected loop failure')
            opt.set_iteration_callback(cb)
            iter_calls = {}
            if hasattr(opt, 'current_iteration_num'):      # random search: which iteration made which history call
                hist, orig_add = opt.history, opt.history.add_to_history

                def add_spy(*a, **kw):
                    iter_calls.setdefault(opt.current_iteration_num, len(hist.generations))
                    return orig_add(*a, **kw)
                hist.add_to_history = add_spy
            try:
                result = opt.optimise(objective)
                out['outcome'] = 'ok'
                out['result'] = [g.descriptive_id for g in result]
            except Exception as ex:  # noqa
                out['outcome'] = 'raise:' + type(ex).__name__
                out['result'] = []
            out['history'] = _export(opt.history)
            out['n_initial'] = len(opt.initial_graphs or [])
            out['iter_calls'] = iter_calls
    else:   # the facade
        import networkx as nx
        from golem.api.main import GOLEM
        from golem.core.optimisers.genetic.operators.base_mutations import MutationTypesEnum
        from golem.core.optimisers.genetic.operators.crossover import CrossoverTypesEnum
        from golem.core.optimisers.genetic.operators.inheritance import GeneticSchemeTypesEnum
        from golem.core.optimisers.objective import Objective

        def chain(n, labels):
            g = nx.DiGraph()
            for i in range(n):
                g.add_node(i, name=labels[i % len(labels)])
                if i:
                    g.add_edge(i - 1, i)
            return g
        with patch('os.urandom', urandom_spy):
            init = [chain(2, 'ab'), chain(3, 'ba'), chain(1, 'a')][:cfg.get('n_initial', 2)]
            objective = Objective({'nodes': nx_nodes_metric, 'edges': nx_edges_metric} if cfg.get('multi')
                                  else {'nodes': nx_nodes_metric}, is_multi_objective=bool(cfg.get('multi')))
            golem = GOLEM(timeout=60, seed=seed, logging_level=int(job.get('log_level', 50)),
                          n_jobs=cfg.get('n_jobs', 1),
                          num_of_generations=cfg.get('num_of_generations', 3), initial_graphs=init,
                          objective=objective, pop_size=cfg.get('pop_size', 4), max_pop_size=cfg.get('max_pop_size', 8),
                          multi_objective=bool(cfg.get('multi')),
                          history_dir=None, show_progress=bool(cfg.get('show_progress', False)),
                          early_stopping_timeout=None, early_stopping_iterations=None,
                          genetic_scheme_type=GeneticSchemeTypesEnum[cfg.get('scheme', 'generational')],
                          mutation_types=[MutationTypesEnum[m] for m in cfg.get('mutation', ['single_add', 'single_drop', 'single_change'])],
                          crossover_types=[CrossoverTypesEnum[c] for c in cfg.get('crossover', ['subtree'])],
                          available_node_types=('a', 'b'))
            try:
                result = golem.optimise()
                out['outcome'] = 'ok'
                out['result'] = [getattr(g, 'descriptive_id', None) or str(g) for g in result]
            except Exception as ex:  # noqa
                import traceback
                out['outcome'] = 'raise:' + type(ex).__name__
                out['exception'] = traceback.format_exc()[-1200:]
                out['result'] = []
            opt = getattr(golem, 'optimiser', None)
            out['history'] = _export(opt.history) if opt is not None else {'gens': [], 'archive': [], 'inds': {}, 'order': []}
            out['n_initial'] = len(init)
            out['facade_n_jobs_in_requirements'] = golem.graph_requirements.n_jobs
            out['facade_mode'] = golem.graph_requirements.parallelization_mode
    h = out['history']
    out['offsets'] = stream_offsets(seed, list(h['inds']))
    node_uids = sorted({n for r in h['inds'].values() for n in r['nodes']})
    node_off = stream_offsets(seed, node_uids)
    out['node_uids'] = len(node_uids)
    out['node_uids_not_in_stream'] = sum(1 for v in node_off.values() if v is None)
    out['stagn'] = stagn
    out['pop_size_param'] = pop_size_param
    out['urandom'] = counts
    out['wall_s'] = round(time.time() - t0, 2)
    out['hashseed'] = os.environ.get('PYTHONHASHSEED')
    return out


def worker_sequence(job):
    """several runs one after the other in THIS interpreter, each seeded and built from scratch"""
    outs = []
    for cfg in job['sequence']:
        sub = {k_: v for k_, v in job.items() if k_ != 'sequence'}
        sub['cfg'] = cfg
        outs.append(worker(sub))
    res = dict(outs[0])
    res['job'] = job
    res['seq'] = outs
    return res


def nx_nodes_metric(g):
    return abs(g.number_of_nodes() - 5) / 2.0


def nx_edges_metric(g):
    return float(g.number_of_edges()) / 4.0


if __name__ == '__main__' and len(sys.argv) >= 4 and sys.argv[1] == '--worker':
    _job = json.load(open(sys.argv[2]))
    try:
        _res = worker_sequence(_job) if _job.get('sequence') else worker(_job)
    except Exception as _ex:  # the harness could not drive the implementation
        import traceback
        _res = {'job': _job, 'harness_error': traceback.format_exc()[-2500:]}
    with open(sys.argv[3], 'w') as _f:
        json.dump(_res, _f)
    sys.exit(0)


# =================================================================================================
# driver
# =================================================================================================
from common import c_Q, c_Z, c_bool, c_list, c_nat, c_opt  # noqa: E402

LABELS = {'initial_assumptions': 'H.LInitial', 'extended_initial_assumptions': 'H.LExtended',
          'final_choices': 'H.LFinal', '': 'H.LNone'}
OPS = {'mutation': 'H.OMutation', 'crossover': 'H.OCrossover', 'regularization': 'H.ORegularization'}
POPULATIONAL = ('evo', 'surrogate', 'pop_random_mutation')


def run_jobs(jobs, parallel, tmp):
    """every job in its own interpreter; `parallel` at a time"""
    def one(ij):
        i, job = ij
        jf, of = os.path.join(tmp, 'job%d.json' % i), os.path.join(tmp, 'out%d.json' % i)
        with open(jf, 'w') as f:
            json.dump(job, f)
        env = dict(os.environ)
        env['PYTHONHASHSEED'] = str(job.get('hashseed', 0))
        env['PYTHONDONTWRITEBYTECODE'] = '1'
        try:
            p = subprocess.run([sys.executable, os.path.join(HERE, 'c14.py'), '--worker', jf, of], env=env,
                               stdout=subprocess.DEVNULL, stderr=subprocess.PIPE, text=True, timeout=3600, cwd=tmp)
            if os.path.exists(of):
                return json.load(open(of))
            return {'job': job, 'harness_error': 'worker wrote no result (rc=%s): %s' % (p.returncode, (p.stderr or '')[-1500:])}
        except subprocess.TimeoutExpired:
            return {'job': job, 'harness_error': 'worker timed out after 3600 s'}
    with concurrent.futures.ThreadPoolExecutor(max_workers=parallel) as ex:
        return list(ex.map(one, enumerate(jobs)))


class Canon:
    """canonical renaming fixed by the base run of a group; unknown values get fresh indices"""

    def __init__(self):
        self.maps = {}

    def ix(self, kind, value):
        m = self.maps.setdefault(kind, {})
        if value not in m:
            m[value] = len(m)
        return m[value]


def outcome_code(canon, outcome):
    return 0 if outcome == 'ok' else 1 + canon.ix('exc', outcome)


def canonical_export(canon, res):
    h = res['history']
    for g in h['gens']:
        for u in g['members']:
            canon.ix('uid', u)
    for u in h['order']:
        canon.ix('uid', u)
    rows = []
    for u, r in h['inds'].items():
        rows.append({'uid': canon.ix('uid', u),
                     'fit': r['fitness'],
                     'sid': canon.ix('sid', r['id']),
                     'nodes': [canon.ix('node', n) for n in r['nodes']],
                     'parents': [canon.ix('uid', p) for p in r['parents']],
                     'op': r['op'],
                     'opnames': [canon.ix('opname', x) for x in r['op_names']],
                     'ng': r['native_generation'],
                     'two_objects': bool(r.get('two_objects'))})
    rows.sort(key=lambda r: r['uid'])
    return {'outcome': outcome_code(canon, res['outcome']),
            'gens': [{'num': g['num'], 'label': g['label'], 'members': [canon.ix('uid', u) for u in g['members']]} for g in h['gens']],
            'snaps': [[canon.ix('uid', u) for u in a] for a in h['archive']],
            'inds': rows,
            'result': [canon.ix('sid', s) for s in res.get('result', [])]}


def nats(l):
    return c_list([c_nat(x) for x in l], 'nat')


def export_to_coq(x):
    inds = []
    for r in x['inds']:
        fit = 'None' if r['fit'] is None else '(Some %s)' % c_list([c_Q(v) for v in r['fit']], 'Q')
        op = 'None' if r['op'] is None else '(Some %s)' % OPS.get(r['op'], 'H.OOther')
        inds.append('{| oi_uid := %s; oi_fit := %s; oi_sid := %s; oi_nodes := %s; oi_parents := %s; oi_op := %s; '
                    'oi_opnames := %s; oi_ng := %s |}' % (c_nat(r['uid']), fit, c_nat(r['sid']), nats(r['nodes']),
                                                          nats(r['parents']), op, nats(r['opnames']),
                                                          c_opt(r['ng'], c_nat, 'nat')))
    gens = ['{| og_num := %s; og_label := %s; og_members := %s |}' % (c_nat(g['num']), LABELS.get(g['label'], 'H.LOther'),
                                                                       nats(g['members'])) for g in x['gens']]
    return '{| x_outcome := %s; x_gens := %s; x_snaps := %s; x_inds := %s; x_result := %s |}' % (
        c_nat(x['outcome']), c_list(gens, 'ogen'), c_list([nats(s) for s in x['snaps']], 'list nat'),
        c_list(inds, 'oind'), nats(x['result']))


def replay_of(group, base_res, base_x, canon):
    """how the base run was driven + the order in which its individuals were created"""
    cfg = group['cfg']
    kind = 'Populational' if cfg['optimiser'] in POPULATIONAL else 'RandomSearch'
    par = cfg.get('parallelization_mode', 'single') == 'populational' and kind == 'Populational'
    seen, new = set(), []
    off = {canon.ix('uid', u): k_ for u, k_ in (base_res.get('offsets') or {}).items()}
    for gi, g in enumerate(base_x['gens']):
        fresh = [u for u in g['members'] if u not in seen]
        # the parallel dispatcher evaluates the reversed population: the first two generations are what the
        # dispatcher returned, so their members were created in the reverse of the recorded order
        if par and gi <= 1:
            fresh = list(reversed(fresh))
        dedup = []
        for u in fresh:
            if u not in dedup:
                dedup.append(u)
        # the true creation order, when every identifier was located in the seeded stream
        if all(off.get(u) is not None for u in dedup):
            dedup.sort(key=lambda u: off[u])
        new.append(dedup)
        seen.update(g['members'])
    created = [u for l in new for u in l]
    offsets = [off.get(u) if off.get(u) is not None else -1 for u in created]
    byuid = {r['uid']: r for r in base_x['inds']}
    parents = ['(%s, (%s, %s))' % (c_nat(u), nats(byuid[u]['parents']),
                                   'None' if byuid[u]['op'] is None else '(Some %s)' % OPS.get(byuid[u]['op'], 'H.OOther'))
               for u in created if u in byuid]
    stagn = base_res.get('stagn') or []
    ngen = cfg.get('num_of_generations', 3)
    es = cfg.get('early_stopping_iterations')
    psp = [p for p in (base_res.get('pop_size_param') or []) if p is not None]
    nmetrics = len(cfg['objective']['metrics'])
    fault = group.get('callback_fault')
    ur = base_res.get('urandom', {})
    j_init = sum(v for k, v in ur.items() if k.startswith('joblib:parallel.py:__init__'))
    j_all = sum(v for k, v in ur.items() if k.startswith('joblib:'))
    if j_init and j_all % j_init == 0:
        draws = [j_all // j_init] * min(j_init, 50)
    else:
        draws = [j_all] if j_all else []
    n_initial = base_res.get('n_initial', 0) if kind == 'Populational' else 1
    # random search: iteration n runs with current_iteration_num = n+1 when it records (incremented before)
    ic = {int(k_) - 1: v for k_, v in (base_res.get('iter_calls') or {}).items() if int(k_) >= 1 and v >= 1}
    labels = [g['label'] for g in base_x['gens']]
    iter_calls = [ic.get(n, 0) if (ic.get(n, 0) < len(labels) and labels[ic.get(n, 0)] == '') else 0
                  for n in range((max(ic) + 1) if ic else 0)]
    return ('{| rp_kind := %s; rp_parallel := %s; rp_n_jobs := %s; rp_num_gen := %s; rp_pop_size := %s; '
            'rp_max_stagn := %s; rp_multi := %s; rp_nmetrics := %s; rp_n_initial := %s; rp_created := %s; '
            'rp_new := %s; rp_parents := %s; rp_stagn := %s; rp_fault := %s; rp_joblib_draws := %s; rp_iter_calls := %s; rp_offsets := %s |}' % (
                kind, c_bool(par), c_nat(cfg.get('n_jobs', 1)), c_opt(ngen, c_nat, 'nat'),
                c_nat(psp[0] if psp else cfg.get('pop_size', 5)), c_opt(es or ngen, c_nat, 'nat'),
                c_bool(bool(cfg['objective'].get('multi'))), c_nat(nmetrics), c_nat(n_initial), nats(created),
                c_list([nats(l) for l in new], 'list nat'),
                c_list(parents, 'nat * (list nat * option H.opkind)'), nats(stagn),
                'None' if not fault else '(Some (%s, %s))' % (c_nat(fault['at']), c_nat(base_x['outcome'])),
                nats(draws), nats(iter_calls), c_list([c_Z(v) for v in offsets], 'Z')))


def case_to_coq(replay, base_x, others):
    oth = ['(%s, (%s, %s))' % (cl, c_nat(i), export_to_coq(x)) for i, (cl, x) in enumerate(others)]
    return '{| k_replay := %s; k_base := %s; k_others := %s |}' % (
        'None' if replay is None else '(Some %s)' % replay, export_to_coq(base_x),
        c_list(oth, 'clause * (nat * export)'))


# -------------------------------------------------------------------------------------------------
# configurations
# -------------------------------------------------------------------------------------------------
# index 4 (an evolutionary optimiser in every quick run) carries subgraph crossover
CROSSOVERS = [['one_point'], ['subtree'], ['exchange_parents_one'], ['subtree', 'one_point'], ['subgraph'],
              ['exchange_parents_both'], ['none'], ['exchange_edges', 'exchange_parents_one'], ['exchange_edges']]
MUTATIONS = [['single_add', 'single_change', 'single_drop', 'single_edge'], ['simple', 'growth', 'reduce'],
             ['single_add', 'tree_growth', 'local_growth'], ['single_edge', 'single_drop', 'single_add'], ['single_change']]
SCHEMES = ['generational', 'steady_state', 'parameter_free']
SINGLE = ['size', 'neg_size', 'depth', 'plateau', 'label', 'balance']
MULTI = [['size', 'depth'], ['balance', 'label'], ['plateau', 'neg_size']]
KINDS = ['evo', 'pop_random_mutation', 'evo', 'random_mutation', 'surrogate', 'evo', 'random_search', 'evo',
         'pop_random_mutation', 'random_mutation']


# the configuration run in between in the same-interpreter sequences: every add / growth mutation, two crossovers,
# the bandit agent - whatever state it leaves behind must not reach the next identically seeded run
BETWEEN_CLASS = {'optimiser': 'evo', 'objective': {'metrics': ['label'], 'multi': False}, 'num_of_generations': 3, 'pop_size': 4,
                 'max_pop_size': 8, 'scheme': 'steady_state', 'crossover': ['subtree', 'one_point'], 'crossover_prob': 1.0,
                 'mutation': ['single_add', 'growth', 'local_growth', 'tree_growth', 'single_edge', 'single_drop', 'single_change'],
                 'initial': 'three', 'early_stopping_iterations': None, 'early_stopping_timeout': None, 'timeout_min': 120.0,
                 'show_progress': False, 'seed': 424243, 'agent': 'bandit'}
BETWEEN_FACADE = {'seed': 424243, 'num_of_generations': 3, 'pop_size': 4, 'n_initial': 3, 'multi': False, 'scheme': 'steady_state',
                  'crossover': ['subtree', 'one_point'], 'mutation': ['single_add', 'single_drop', 'single_change', 'single_edge'],
                  'optimiser': 'facade', 'objective': {'metrics': ['nodes'], 'multi': False}}


def make_config(rng, i, optimiser=None):
    kind = optimiser or KINDS[i % len(KINDS)]
    multi = (i % 3 == 2)
    cfg = {
        'optimiser': kind,
        'objective': {'metrics': (rng.choice(MULTI) if multi else [rng.choice(SINGLE)]), 'multi': multi},
        'num_of_generations': rng.choice([3, 4, 5] if kind in POPULATIONAL else [4, 6, 8]),
        'keep_n_best': rng.choice([1, 2]),
        'pop_size': rng.choice([3, 4, 5]),
        'max_pop_size': 8,
        'scheme': SCHEMES[(i // 2) % 3],
        'elitism': rng.choice(['keep_n_best', 'replace_worst', 'none']),
        'selection': [rng.choice(['tournament', 'spea2'])],
        'crossover': CROSSOVERS[i % len(CROSSOVERS)],
        'mutation': MUTATIONS[(i // 3) % len(MUTATIONS)],
        'crossover_prob': rng.choice([0.8, 1.0]),
        'initial': rng.choice(['two', 'three', 'chain', 'diamond']),
        'early_stopping_iterations': None,
        'early_stopping_timeout': None,
        'timeout_min': 120.0,            # wall time must never decide
        'show_progress': False,
        'seed': rng.randrange(10 ** 6),
    }
    return cfg


def build_groups(ctx):
    import random as _random
    base = ctx.rng.randrange(2 ** 30)

    def rng_of(family, i):       # every configuration has its own stream: sizes of the families do not interact
        return _random.Random('%d/%s/%d' % (base, family, i))
    n_single = ctx.budget(6, 40)
    n_par = ctx.budget(1, 8)
    n_api = ctx.budget(1, 4)
    if os.environ.get('C14_SIZES'):      # debugging aid: "single,parallel,facade"
        n_single, n_par, n_api = [int(x) for x in os.environ['C14_SIZES'].split(',')]
    groups = []
    for i in range(n_single):
        rng = rng_of('single', i)
        cfg = make_config(rng, i)
        if cfg['crossover'] == ['subgraph']:    # make sure the crossover is exercised
            cfg['crossover_prob'] = 1.0
            cfg['num_of_generations'] = max(cfg['num_of_generations'], 4)
            cfg['pop_size'] = max(cfg['pop_size'], 4)
        if cfg['optimiser'] == 'surrogate':     # the surrogate model is consulted when the generation counter reaches 5
            cfg['num_of_generations'] = 6 + i % 3
        if i % 6 == 0:                          # graphs of more than 12 nodes
            cfg['initial'] = 'c14_wide'
            cfg['max_depth'] = 5
            cfg['max_arity'] = 4
        if i % 6 == 1:
            cfg['seed'] = 0                     # the seed value 0 is a seed like any other
        if i % 6 == 5 and cfg['optimiser'] == 'evo':
            cfg['agent'] = 'bandit'             # adaptive mutation agent with its own generator
            cfg['num_of_generations'] = max(cfg['num_of_generations'], 4)
        g = {'name': 's%d' % i, 'family': 'single', 'cfg': cfg, 'runs': []}
        if cfg['optimiser'] in POPULATIONAL and i % 4 == 2:
            g['callback_fault'] = {'at': rng.choice([1, 2, 3])}
        hs = 1 + (i % 7)
        g['runs'] = [('base', None, {}), ('repeat', 'CRepeat', {}), ('hash', 'CHashSeed', {'hashseed': hs}),
                     ('progress', 'CProgress', {'show_progress': True}), ('logging', 'CLogging', {'log_level': 10}),
                     ('inproc', 'CSameInterpreter', {'sequence': True})]
        if ctx.tier == 'quick':     # time budget: the two presentation switches alternate over the configurations,
            g['runs'] = [r for r in g['runs'] if r[0] != ('logging' if i % 2 == 0 else 'progress')]
            g['short_sequence'] = True      # and the same-interpreter sequence is: configuration, another, configuration
        groups.append(g)
    par_kinds = ['evo', 'pop_random_mutation', 'surrogate']
    for i in range(n_par):
        rng = rng_of('parallel', i)
        cfg = make_config(rng, 100 + i, optimiser=par_kinds[i % 3])
        cfg['parallelization_mode'] = 'populational'
        if cfg['optimiser'] == 'surrogate':
            cfg['num_of_generations'] = 6
        cfg['crossover'] = [['subtree'], ['exchange_edges'], ['none']][i % 3]   # hash order is examined by the other family
        g = {'name': 'p%d' % i, 'family': 'parallel', 'cfg': cfg}
        g['runs'] = [('base', None, {'n_jobs': 1}), ('j2', 'CWorkers', {'n_jobs': 2}), ('j3', 'CWorkers', {'n_jobs': 3}),
                     ('i1', None, {'n_jobs': 1, 'isolate_joblib': True}), ('i2', 'CWorkersIsolated', {'n_jobs': 2, 'isolate_joblib': True}),
                     ('j2r', 'CWorkersRepeat', {'n_jobs': 2})]
        if ctx.tier == 'thorough':
            g['runs'].append(('j4', 'CWorkers', {'n_jobs': 4}))
        if ctx.tier == 'thorough' and i % 2 == 0:
            g['runs'].append(('i4', 'CWorkersIsolated', {'n_jobs': 4, 'isolate_joblib': True}))
        groups.append(g)
    for i in range(n_api):
        rng = rng_of('facade', i)
        cfg = {'seed': (0 if i == 0 else rng.randrange(10 ** 6)), 'num_of_generations': 3, 'pop_size': rng.choice([3, 4]), 'n_initial': 2 + i % 2,
               'multi': i % 2 == 1, 'scheme': SCHEMES[i % 3], 'crossover': [['subtree'], ['one_point'], ['exchange_edges']][i % 3],
               'optimiser': 'facade', 'objective': {'metrics': ['nodes', 'edges'] if i % 2 == 1 else ['nodes'], 'multi': i % 2 == 1}}
        g = {'name': 'f%d' % i, 'family': 'facade', 'cfg': cfg}
        g['runs'] = [('base', None, {}), ('repeat', 'CFacade', {}), ('hash', 'CHashSeed', {'hashseed': 3}),
                     ('progress', 'CFacade', {'show_progress': True}), ('logging', 'CFacade', {'log_level': 10}),
                     ('j2', 'CWorkers', {'facade_n_jobs': 2}),
                     ('j2r', 'CWorkersRepeat', {'facade_n_jobs': 2}), ('inproc', 'CSameInterpreter', {'sequence': True})]
        if ctx.tier == 'quick':
            g['runs'] = [r for r in g['runs'] if r[0] != 'progress']
            g['short_sequence'] = True
        groups.append(g)
    return groups


def jobs_of(group):
    jobs = []
    for name, clause, var in group['runs']:
        cfg = dict(group['cfg'])
        if 'show_progress' in var:
            cfg['show_progress'] = True
        if 'n_jobs' in var:
            cfg['n_jobs'] = var['n_jobs']
        if 'facade_n_jobs' in var:
            cfg['n_jobs'] = var['facade_n_jobs']
        job = {'mode': 'api' if group['family'] == 'facade' else 'class', 'cfg': cfg,
               'log_level': var.get('log_level', 50), 'hashseed': var.get('hashseed', 0),
               'isolate_joblib': bool(var.get('isolate_joblib')), 'callback_fault': group.get('callback_fault'),
               'group': group['name'], 'run': name, 'clause': clause}
        if var.get('sequence'):
            # ONE interpreter: the configuration, the same again, another configuration, the same a third time
            between = dict(BETWEEN_FACADE if group['family'] == 'facade' else BETWEEN_CLASS)
            job['sequence'] = [cfg, between, cfg] if group.get('short_sequence') else [cfg, cfg, between, cfg]
        jobs.append(job)
    return jobs


def summarise(group, results=None):
    s = {'group': group['name'], 'family': group['family'], 'cfg': group['cfg'],
         'callback_fault': group.get('callback_fault'), 'runs': [(n, c, v) for n, c, v in group['runs']]}
    if results:
        s['observed'] = {r['job']['run']: {'outcome': r.get('outcome'),
                                          'generation_sizes': [len(g['members']) for g in r['history']['gens']],
                                          'individuals': len(r['history']['inds']),
                                          'urandom_callers': r.get('urandom')} for r in results if 'history' in r}
    return s


def first_difference(a, b):
    """human-readable first difference of two canonical exports (diagnostics only)"""
    if a['outcome'] != b['outcome']:
        return 'outcome %s vs %s' % (a['outcome'], b['outcome'])
    for i, (g, h) in enumerate(zip(a['gens'], b['gens'])):
        if g != h:
            return 'generation %d: %s vs %s' % (i, g, h)
    if len(a['gens']) != len(b['gens']):
        return 'number of generations %d vs %d' % (len(a['gens']), len(b['gens']))
    for r, s in zip(a['inds'], b['inds']):
        if r != s:
            return 'individual %s vs %s' % (r, s)
    if len(a['inds']) != len(b['inds']):
        return 'number of individuals %d vs %d' % (len(a['inds']), len(b['inds']))
    if a['snaps'] != b['snaps']:
        return 'archive history differs'
    if a['result'] != b['result']:
        return 'returned graphs differ'
    return 'no difference found by the python side'


def strip_nodes(x):
    y = json.loads(json.dumps(x))
    for r in y['inds']:
        r['nodes'] = len(r['nodes'])
    return y


def build_case(group, results):
    """-> (coq case, base export, [(clause, run name, export)], notes)"""
    canon = Canon()
    base = results[0]
    base_x = canonical_export(canon, base)
    others = []
    sub_base = None
    flat = []
    for r in results[1:]:
        if r.get('seq'):
            n_seq = len(r['seq'])
            for pos in ((0, 2) if n_seq == 3 else (0, 1, 3)):     # every run of the group's own configuration
                sub = dict(r['seq'][pos])
                sub['job'] = dict(r['job'], run='inproc@%d' % pos)
                flat.append(sub)
        else:
            flat.append(r)
    for r in flat:
        name, clause = r['job']['run'], r['job']['clause']
        x = canonical_export(canon, r)
        if name == 'i1':
            sub_base = x
            continue
        others.append((clause, name, x))
    side = ('CWorkersIsolated', 'CWorkersRepeat')
    coq_others = [(cl, x) for cl, _, x in others if cl not in side]
    replay = replay_of(group, base, base_x, canon) if group['family'] != 'facade' else None
    cases = [case_to_coq(replay, base_x, coq_others)]
    tags = [('main', base_x, [(cl, n, x) for cl, n, x in others if cl not in side])]
    j2 = [x for cl, n, x in others if n == 'j2']
    j2r = [x for cl, n, x in others if n == 'j2r']
    if j2 and j2r:          # two runs with 2 workers and one seed
        cases.append(case_to_coq(None, j2[0], [('CWorkersRepeat', j2r[0])]))
        tags.append(('wrepeat', j2[0], [('CWorkersRepeat', 'j2r', j2r[0])]))
    if group['family'] == 'parallel':
        j = [(n, x) for cl, n, x in others if n in ('j2', 'j3', 'j4')]
        if len(j) >= 2:     # 2 workers against 3 (and 4)
            cases.append(case_to_coq(None, j[0][1], [('CWorkersFrom2', x) for _, x in j[1:]]))
            tags.append(('from2', j[0][1], [('CWorkersFrom2', n, x) for n, x in j[1:]]))
        iso = [(cl, n, x) for cl, n, x in others if cl == 'CWorkersIsolated']
        if sub_base is not None and iso:
            cases.append(case_to_coq(None, sub_base, [(cl, x) for cl, _, x in iso]))
            tags.append(('isolated', sub_base, iso))
    return cases, tags


def judge(ctx, group, results, tags, verdicts):
    """turn Coq's verdicts into counts / disagreements / violations"""
    cfg = group['cfg']
    summ = summarise(group, results)
    for (tag, base_x, others), vd in zip(tags, verdicts):
        agree, holds = vd[0], dict(zip(CLAUSES, vd[1:]))
        if tag == 'main' and not agree:
            ctx.disagree(group['family'], summ, 'replay of the recorded base run through the model loop differs '
                                                '(generations / fitness / archive history / outcome / identifiers / joblib draws)')
        for cl in CLAUSES:
            if holds[cl]:
                continue
            bad = [(n, x) for c, n, x in others if c == cl]
            diffs = ['%s: %s' % (n, first_difference(base_x, x)) for n, x in bad if x != base_x]
            key = None
            what = {'CRepeat': 'two runs with one seed in fresh interpreters give different histories',
                    'CHashSeed': 'the history depends on PYTHONHASHSEED',
                    'CProgress': 'the history depends on show_progress',
                    'CLogging': 'the history depends on the logging level',
                    'CWorkers': 'parallel mode: the history depends on n_jobs (1 against 2 / 3 / 4)',
                    'CWorkersFrom2': 'parallel mode: the history depends on n_jobs (2 against 3 / 4)',
                    'CWorkersIsolated': 'parallel mode, joblib identifiers kept off the seeded stream: the history depends on n_jobs',
                    'CFacade': 'GOLEM facade: the history depends on repeat / show_progress / logging level',
                    'CWorkersRepeat': 'parallel mode, n_jobs=2: two runs with one seed give different histories',
                    'CSameInterpreter': 'one interpreter, seeded identically before each run (first run / same again / again after '
                                        'another configuration): a run differs from the fresh-interpreter run - state outside the '
                                        'generators survives between runs'}[cl]
            # a dependence on PYTHONHASHSEED has no finding key: the crossover sites that chose from sets of nodes
            # were repaired in /repo (b8f358b, 94c2691)
            if cl in ('CWorkers', 'CWorkersRepeat') and group['family'] == 'facade' and bad \
                    and all(strip_nodes(x) == strip_nodes(base_x) for _, x in bad) \
                    and any(r.get('node_uids_not_in_stream', 0) > 0 for r in results if r['job']['cfg'].get('n_jobs', 1) >= 2):
                # known finding: facade / networkx adapter, n_jobs >= 2, differences confined to graph-node uids
                key = 'C14.worker-node-uids'
                what += ('; the exports coincide except for the uids of graph nodes: with a non-identity adapter the evaluated graph '
                         'is adapted again inside the worker process, whose os.urandom is not the seeded replacement')
            elif cl == 'CWorkers':
                ur1 = results[0].get('urandom', {})
                ur2 = next((r.get('urandom', {}) for r in results if r['job']['clause'] == 'CWorkers'), {})
                j1 = sum(v for k, v in ur1.items() if k.startswith('joblib:'))
                j2 = sum(v for k, v in ur2.items() if k.startswith('joblib:'))
                iso_ok = all(vd2[1 + CLAUSES.index('CWorkersIsolated')] for (t2, _, _), vd2 in zip(tags, verdicts) if t2 == 'isolated')
                from2_ok = all(vd2[1 + CLAUSES.index('CWorkersFrom2')] for (t2, _, _), vd2 in zip(tags, verdicts) if t2 == 'from2')
                has_iso = any(t2 == 'isolated' for (t2, _, _) in tags)
                # the facade family has no isolated runs of its own: the parallel family examines the cause
                if j1 != j2 and ((has_iso and iso_ok and from2_ok) or group['family'] == 'facade'):
                    key = 'C14.njobs-stream-shift'
                    what += ('; cause: joblib asks the patched os.urandom for %d identifiers with n_jobs=1 and %d with n_jobs=2 '
                             '(Parallel.__call__ / TemporaryResourcesManager draw uuid4 only when n_jobs != 1), which shifts the seeded '
                             'stream; with joblib\'s draws kept off the stream the histories coincide' % (j1, j2))
            ctx.violate(group['family'], dict(summ, clause=cl, differences=diffs[:3]), what, finding_key=key)


def run_groups(ctx, groups):
    tmp = tempfile.mkdtemp(prefix='c14_')
    try:
        jobs, owner = [], []
        for gi, g in enumerate(groups):
            for j in jobs_of(g):
                jobs.append(j)
                owner.append(gi)
        t0 = time.time()
        results = run_jobs(jobs, 5, tmp)
        ctx.notes.append('%d runs in fresh interpreters, %.0f s wall' % (len(jobs), time.time() - t0))
    finally:
        import shutil
        shutil.rmtree(tmp, ignore_errors=True)
    per = {}
    for gi, r in zip(owner, results):
        per.setdefault(gi, []).append(r)
    cases, index = [], []
    built = {}
    for gi, g in enumerate(groups):
        rs = per.get(gi, [])
        errs = [r for r in rs if 'harness_error' in r]
        if errs:
            ctx.error(g['family'], 'run %s of group %s: %s' % (errs[0]['job'].get('run'), g['name'], errs[0]['harness_error'][-1200:]))
            continue
        if any(r['history']['inds'] and any(x.get('two_objects') for x in r['history']['inds'].values()) for r in rs):
            ctx.notes.append('group %s: two Individual objects with one uid reachable from a history (see C06)' % g['name'])
        cs, tags = build_case(g, rs)
        built[gi] = (rs, tags, len(cases), len(cs))
        cases.extend(cs)
    return cases, built


def run(ctx):
    ctx.rule = ('one case = one configuration with its group of real runs, each in a fresh interpreter, seeded with random.seed / '
                'numpy.random.seed / os.urandom:=urandom_mock: [same seed twice; another PYTHONHASHSEED; show_progress on; logging '
                'level DEBUG] for the five optimiser classes in sequential mode (some with an iteration callback that raises inside '
                'the loop), [n_jobs 1, 2, 4; the same with joblib\'s own identifiers kept off the seeded stream] in parallel mode, '
                '[repeat, PYTHONHASHSEED, show_progress, logging level, n_jobs argument] through GOLEM(seed=...). Compared: the FULL '
                'export (generation numbers, labels, members in order, uids, fitness, descriptive ids, node uids, parents, operator '
                'kinds and names, native generations, archive history, returned graphs, outcome) after renaming by the base run. '
                'distinct = distinct configuration; non-trivial = the base run has at least 2 evolved generations and an individual '
                'with parents')
    ctx.trusted_extra = [
        'variation operators, selection, inheritance/elitism, archive, iteration callback, clocks and worker completion order are '
        'oracles of the model; the replay feeds the recorded run back as their answers',
        'hidden entropy (hash order of sets of nodes, dict order, time, generator state of worker processes) cannot be exhibited '
        'by the model: it is only sampled by the differential runs',
        'reproducibility of real runs is sampled (fresh interpreters, full exports), not proved',
        'uuid4 = UUID(bytes=os.urandom(16)); joblib draws its own uuid4 values through the same os.urandom']
    ctx.assumptions = ['objectives are deterministic functions of the graph', 'timeouts are generous: wall time never decides']
    groups = list(getattr(ctx, 'c14_corpus', [])) + build_groups(ctx)
    ctx.c14_corpus = []
    cases, built = run_groups(ctx, groups)
    # canary: a repeat run whose last recorded fitness value was altered must be flagged
    canary_at = None
    for gi, (rs, tags, at, n) in built.items():
        if groups[gi]['family'] == 'single' and tags[0][1]['inds']:
            base_x = tags[0][1]
            bad = json.loads(json.dumps(base_x))
            victim = next((r for r in reversed(bad['inds']) if r['fit']), None)
            if victim is None:
                continue
            victim['fit'][0] += 0.5
            canary_at = len(cases)
            cases.append(case_to_coq(None, base_x, [('CRepeat', bad)]))
            ctx.canaries += 1
            break
    verdicts = ctx.coq_cases('runs', REQ, FN, cases, NVERD, shard=ctx.pick(3, 8), timeout=1200)
    if canary_at is not None and not verdicts[canary_at][1 + CLAUSES.index('CRepeat')]:
        ctx.canaries_caught += 1
    for gi, (rs, tags, at, n) in built.items():
        g = groups[gi]
        judge(ctx, g, rs, tags, verdicts[at:at + n])
        base = rs[0]
        evolved = sum(1 for x in base['history']['gens'] if x['label'] == '')
        with_parents = sum(1 for r in base['history']['inds'].values() if r['parents'])
        others = set()
        for r in rs:
            for kk in r.get('urandom', {}):
                if not kk.startswith('joblib:') and kk != 'golem':
                    others.add(kk)
        if others:
            ctx.notes.append('group %s: other callers of the patched os.urandom: %s' % (g['name'], sorted(others)))
        ctx.count(g['family'], key=json.dumps(g['cfg'], sort_keys=True), nontrivial=(evolved >= 2 and with_parents >= 1),
                  optimiser=g['cfg']['optimiser'], outcome=base.get('outcome'), runs=len(rs),
                  multi=bool(g['cfg']['objective'].get('multi')), fault=bool(g.get('callback_fault')),
                  evolved_generations=min(evolved, 8))
        if g['family'] == 'facade':
            ctx.notes.append('facade group %s: GOLEM(n_jobs=...) reached the requirements as n_jobs=%s, mode=%s' % (
                g['name'], sorted({r.get('facade_n_jobs_in_requirements') for r in rs}), sorted({r.get('facade_mode') for r in rs})))
    tally = {}
    for v in ctx.violations:
        kk = '%s/%s/%s' % (v['group'], (v['case'] or {}).get('clause'), v['finding_key'])
        tally[kk] = tally.get(kk, 0) + 1
    if tally:
        ctx.notes.append('violations by family/clause/finding key: ' + json.dumps(tally, sort_keys=True))
    for v in ctx.violations:
        if v['finding_key'] is None:
            ctx.notes.append('violation without finding key: %s %s %s' % ((v['case'] or {}).get('clause'), v['what'][:160],
                                                                          json.dumps({k_: (v['case'] or {}).get(k_) for k_ in ('group', 'family', 'cfg', 'callback_fault', 'differences')})[:1500]))
    for d in ctx.disagreements:
        ctx.notes.append('disagreement: %s' % json.dumps({k_: (d['case'] or {}).get(k_) for k_ in ('group', 'family', 'cfg', 'callback_fault', 'observed')})[:2500])
    for gi in list(built)[:4]:
        ctx.sample(summarise(groups[gi], built[gi][0]))


def replay(ctx, payload):
    v = payload.get('violation') or payload.get('first_disagreement') or {}
    case = v.get('case') or {}
    if not case.get('cfg'):
        return
    g = {'name': case.get('group', 'replay'), 'family': case.get('family', 'single'), 'cfg': case['cfg'],
         'callback_fault': case.get('callback_fault'), 'runs': [tuple(r) for r in case['runs']]}
    if '--replay' not in sys.argv:      # corpus stage: run together with the generated groups (one pool of interpreters)
        if not hasattr(ctx, 'c14_corpus'):
            ctx.c14_corpus = []
        ctx.c14_corpus.append(g)
        return
    cases, built = run_groups(ctx, [g])
    if not built:
        return
    verdicts = ctx.coq_cases('replay', REQ, FN, cases, NVERD, shard=3, timeout=1200)
    rs, tags, at, n = built[0]
    judge(ctx, g, rs, tags, verdicts[at:at + n])
    ctx.count('replay', key=json.dumps(g['cfg'], sort_keys=True), nontrivial=True)
