"""C15 - run limits are honoured.
Implementation: the real optimisers (through harness/optrun.py configurations), OptimisationTimer / Timer,
GroupedCondition, the stop conditions of real optimiser objects, ConstRatePopulationSize,
AdaptivePopulationSize, SequenceIterator, fibonacci_sequence, AdaptiveGraphDepth, and the GOLEM(...) facade.
Model: coq/theories/Evo/Limits.v (ucheck / rcheck / acheck = agree + the property's clauses)."""
import concurrent.futures
import contextlib
import datetime
import itertools
import json
import os
import random
import signal
import shutil
import subprocess
import sys
import tempfile
import time
import types
from fractions import Fraction
from unittest.mock import patch

import numpy as np

import optrun
from common import c_Q, c_Z, c_bool, c_list, c_nat, c_opt, c_str

REQ = ['Evo.Limits']
MIN_POP_SIZE = 5
PROMPT_S = 20.0

# ------------------------------------------------------------------------------------------------
# printers
# ------------------------------------------------------------------------------------------------
def q(x):
    return c_Q(Fraction(x))


def oq(x):
    return c_opt(x, q, 'Q')


def oz(x):
    return c_opt(x, c_Z, 'Z')


def on(x):
    return c_opt(x, c_nat, 'nat')


def limits_coq(nog, esi, est, tmo):
    return '{| nog := %s; esi := %s; est := %s; tmo := %s |}' % (on(nog), on(esi), oq(est), oq(tmo))


def res_bool(x):
    """x: True / False / 'TypeError' ..."""
    if isinstance(x, bool):
        return '(Ok %s)' % c_bool(x)
    return '(@Raise bool %s)' % x


def res_Z(x):
    if isinstance(x, int):
        return '(Ok %s)' % c_Z(x)
    return '(@Raise Z %s)' % x


EXN = {'TypeError': 'TypeError', 'ZeroDivisionError': 'ZeroDivisionError', 'StopIteration': 'StopIteration',
       'AttributeError': 'AttributeError', 'ValueError': 'ValueError'}


def exn_name(ex):
    return EXN.get(type(ex).__name__, 'AttributeError' if False else type(ex).__name__)


# ------------------------------------------------------------------------------------------------
# a settable clock for golem.core.optimisers.timer and ...archive.generation_keeper
# ------------------------------------------------------------------------------------------------
BASE = datetime.datetime(2024, 1, 1, 12, 0, 0)
CLOCK = {'now': BASE}


class _FakeDateTime(datetime.datetime):
    @classmethod
    def now(cls, tz=None):
        return CLOCK['now']


_SHIM = types.SimpleNamespace(datetime=_FakeDateTime, timedelta=datetime.timedelta)


@contextlib.contextmanager
def fake_clock():
    import golem.core.optimisers.timer as timer_mod
    import golem.core.optimisers.archive.generation_keeper as keeper_mod
    with patch.object(timer_mod, 'datetime', _SHIM), patch.object(keeper_mod, 'datetime', _SHIM):
        # the patch must be effective, otherwise the lock-step would silently use the real clock
        CLOCK['now'] = BASE + datetime.timedelta(days=3)
        t = timer_mod.Timer()
        t.__enter__()
        assert t.start == CLOCK['now'], 'fake clock not effective in golem.core.optimisers.timer'
        CLOCK['now'] = BASE
        yield


def at(minutes):
    CLOCK['now'] = BASE + datetime.timedelta(seconds=float(Fraction(minutes) * 60))


def td(minutes):
    return None if minutes is None else datetime.timedelta(seconds=float(Fraction(minutes) * 60))


# ------------------------------------------------------------------------------------------------
# unit level: timers
# ------------------------------------------------------------------------------------------------
QUARTERS = [Fraction(k, 4) for k in range(0, 17)]


def unit_timer(ctx):
    from golem.core.optimisers.timer import OptimisationTimer, Timer
    cases, meta = [], []
    thorough = ctx.tier == 'thorough'
    timeouts = [None, Fraction(-1), Fraction(-1, 8), Fraction(0), Fraction(1, 4), Fraction(1, 2), Fraction(1), Fraction(2), Fraction(3)]
    inits = [Fraction(0), Fraction(1, 4), Fraction(1)]
    iters = [None, 0, 1, 2, 3, 4, 7]
    minutes_grid = QUARTERS
    if thorough:
        timeouts += [Fraction(1, 8), Fraction(3, 4), Fraction(5, 2), Fraction(4), Fraction(6)]
        iters += [5, 6, 12]
        minutes_grid = [Fraction(k, 8) for k in range(0, 49)]
    grid = list(itertools.product(timeouts, inits, minutes_grid, iters, [False, True]))
    n = ctx.budget(10 ** 9, 10 ** 9)
    if n < len(grid):
        ctx.rng.shuffle(grid)
        grid = grid[:n]
        ctx.set_exhaustive('timer', False)
    else:
        ctx.set_exhaustive('timer', True)
    with fake_clock():
        for tmo, init, minutes, it, old in grid:
            timer = OptimisationTimer(timeout=td(tmo))
            timer.set_init_time(float(init))
            at(0)
            timer.__enter__()
            at(minutes)
            timer.process_terminated = old
            reached = bool(timer.is_time_limit_reached(it)) if it is not None else bool(timer.is_time_limit_reached())
            flag = bool(timer.process_terminated)
            cases.append('UTimer %s %s %s %s %s %s %s' % (oq(tmo), q(init), q(minutes), oz(it), c_bool(old),
                                                          c_bool(reached), c_bool(flag)))
            meta.append({'unit': 'OptimisationTimer', 'timeout_min': str(tmo), 'init': str(init), 'minutes': str(minutes),
                         'iteration': it, 'old_flag': old, 'reached': reached, 'flag': flag})
            ctx.count('timer', key=(str(tmo), str(init), str(minutes), it, old),
                      nontrivial=(tmo is not None and tmo > 0), timeout=('none' if tmo is None else 'zero-or-negative' if tmo <= 0 else 'positive'),
                      reached=reached)
        # base Timer
        for tmo, el in itertools.product([None, Fraction(0), Fraction(1, 4), Fraction(1), Fraction(2)], QUARTERS[:10]):
            timer = Timer(timeout=td(tmo))
            at(0)
            timer.__enter__()
            at(el)
            r = bool(timer.is_time_limit_reached())
            assert r == bool(timer.process_terminated)
            cases.append('UBaseTimer %s %s %s' % (oq(tmo), q(el), c_bool(r)))
            meta.append({'unit': 'Timer', 'timeout_min': str(tmo), 'elapsed': str(el), 'reached': r})
            ctx.count('timer', key=('base', str(tmo), str(el)), nontrivial=tmo is not None, timeout='base-timer', reached=r)
    return cases, meta


# ------------------------------------------------------------------------------------------------
# unit level: the stop test of REAL optimiser objects (no optimisation is run)
# ------------------------------------------------------------------------------------------------
BASE_CFG = {'objective': {'metrics': ['plateau'], 'multi': False}, 'pop_size': 3, 'max_pop_size': 6,
            'scheme': 'generational', 'initial': 'two', 'seed': 1}


def _call_stop(opt):
    try:
        return bool(opt.stop_optimization())
    except Exception as ex:  # noqa
        return 'raise:' + type(ex).__name__


def unit_stop(ctx):
    cases, meta = [], []
    nogs = [None, 0, 1, 2, 5]
    esis = [None, 0, 1, 2]
    ests = [None, Fraction(0), Fraction(1, 4), Fraction(1)]
    tmos = [None, Fraction(-1), Fraction(0), Fraction(1, 2), Fraction(2)]
    combos = list(itertools.product(nogs, esis, ests, tmos))
    n_combos = ctx.budget(70, 400)
    rng = ctx.rng
    if n_combos < len(combos):
        # keep the all-None and the single-option combinations, sample the rest
        core = [c for c in combos if sum(x is not None for x in c) <= 1]
        rest = [c for c in combos if c not in core]
        rng.shuffle(rest)
        combos = core + rest[:max(0, n_combos - len(core))]
        ctx.set_exhaustive('stop', False)
    else:
        ctx.set_exhaustive('stop', True)
    states = list(itertools.product([1, 2, 3, 6], [0, 1, 2, 5]))
    # (now, stagnation start) in minutes; eighth-minutes exercise the truncation to whole seconds,
    # a start after `now` and a start more than a day ago exercise timedelta.seconds
    times = [(Fraction(0), Fraction(0)), (Fraction(1, 4), Fraction(0)), (Fraction(1, 2), Fraction(1, 8)),
             (Fraction(1), Fraction(3, 4)), (Fraction(9, 8), Fraction(0)), (Fraction(5, 2), Fraction(1, 4)),
             (Fraction(1, 4), Fraction(1, 2)), (Fraction(1), Fraction(-1441))]
    per_combo = ctx.budget(48, 10 ** 6)
    with fake_clock():
        for kind in ('evo', 'random_search'):
            for nog, esi, est, tmo in combos:
                cfg = dict(BASE_CFG, optimiser=kind, num_of_generations=nog, early_stopping_iterations=esi,
                           early_stopping_timeout=(None if est is None else float(est)),
                           timeout_min=(None if tmo is None else float(tmo)))
                opt, _, _ = optrun.make_optimiser(cfg, [])
                at(0)
                opt.timer.__enter__()
                lim = limits_coq(nog, esi, est, tmo)
                if kind == 'evo':
                    grid = list(itertools.product(states, times))
                    if per_combo < len(grid):
                        rng.shuffle(grid)
                        grid = grid[:per_combo]
                    for (gen, stag), (now, start) in grid:
                        keeper = opt.generations
                        keeper._generation_num = gen
                        keeper._stagnation_counter = stag
                        keeper._stagnation_start_time = BASE + datetime.timedelta(seconds=float(start * 60))
                        at(now)
                        assert keeper.generation_num == gen and keeper.stagnation_iter_count == stag, 'keeper state not set'
                        obs = _call_stop(opt)
                        ob = c_opt(obs if isinstance(obs, bool) else None, c_bool, 'bool')
                        cases.append('UStop %s {| gen_num := %s; stag := %s; stag_start := %s |} %s %s' % (
                            lim, c_nat(gen), c_nat(stag), q(start), q(now), ob))
                        meta.append({'unit': 'PopulationalOptimizer.stop_optimization', 'num_of_generations': nog,
                                     'early_stopping_iterations': esi, 'early_stopping_timeout': str(est), 'timeout_min': str(tmo),
                                     'generation_num': gen, 'stagnation': stag, 'stagnation_start_min': str(start),
                                     'now_min': str(now), 'observed': obs})
                        ctx.count('stop', key=(kind, nog, esi, str(est), str(tmo), gen, stag, str(now), str(start)),
                                  nontrivial=True, unset_options=sum(x is None for x in (nog, esi, est, tmo)), observed=str(obs))
                else:
                    for it, now in itertools.product([0, 1, 2, 5], [Fraction(0), Fraction(1, 4), Fraction(1), Fraction(5, 2)]):
                        opt.current_iteration_num = it
                        at(now)
                        obs = _call_stop(opt)
                        ob = c_opt(obs if isinstance(obs, bool) else None, c_bool, 'bool')
                        cases.append('URsStop %s %s %s %s' % (lim, q(now), c_nat(it), ob))
                        meta.append({'unit': 'RandomSearchOptimizer.stop_optimization', 'num_of_generations': nog,
                                     'timeout_min': str(tmo), 'iteration': it, 'now_min': str(now), 'observed': obs})
                        ctx.count('stop', key=(kind, nog, str(tmo), it, str(now)), nontrivial=True,
                                  unset_options=sum(x is None for x in (nog, esi, est, tmo)), observed=str(obs))
    return cases, meta


# ------------------------------------------------------------------------------------------------
# unit level: the stagnation clock of a REAL GenerationKeeper under the settable clock
# ------------------------------------------------------------------------------------------------
def unit_keeper(ctx):
    from golem.core.optimisers.archive.generation_keeper import GenerationKeeper
    from golem.core.optimisers.fitness import SingleObjFitness
    from golem.core.optimisers.objective import Objective
    from golem.core.optimisers.opt_history_objects.individual import Individual
    rng = ctx.rng
    cases, meta = [], []
    kinds = ['improve', 'same', 'worse', 'empty']
    seqs = [c for n in range(1, 5) for c in itertools.product(kinds, repeat=n)]
    reps = ctx.budget(2, 12)
    eighths = [Fraction(k, 8) for k in range(0, 13)]

    def ind(value):
        i = Individual(optrun.build_graph(['a', []]))
        i.set_evaluation_result(SingleObjFitness(float(value)))
        return i
    with fake_clock():
        for seq in seqs:
            for _ in range(reps):
                t = rng.choice(eighths)
                at(t)
                keeper = GenerationKeeper(Objective({'m': _zero_metric}), keep_n_best=1)
                t_create = t
                best = 100.0
                apps, obs, flags = [], [], []
                for kind in seq:
                    t = t + rng.choice(eighths[1:])
                    at(t)
                    if kind == 'improve':
                        best -= 1.0
                        pop = [ind(best), ind(best + 5)]
                    elif kind == 'same':
                        pop = [ind(best)]
                    elif kind == 'worse':
                        pop = [ind(best + 3)]
                    else:
                        pop = []
                    keeper.append(pop)
                    improved = bool(keeper.is_any_improved)
                    start = keeper.stagnation_start_time - BASE
                    qt = t + rng.choice(eighths + [Fraction(7, 60), Fraction(1, 120)])
                    at(qt)
                    dur = keeper.stagnation_time_duration
                    apps.append('(%s, %s, %s)' % (c_bool(improved), q(t), q(qt)))
                    obs.append('(%s, %s, %s, %s)' % (c_nat(keeper.generation_num), c_nat(keeper.stagnation_iter_count),
                                                     fr(_minutes(start)), c_Q(Fraction(int(round(dur * 60)), 60))))
                    flags.append(improved)
                cases.append('UKeeper %s %s %s' % (q(t_create), c_list(apps, '(bool * Q * Q)'), c_list(obs, '(nat * nat * Q * Q)')))
                meta.append({'unit': 'GenerationKeeper stagnation clock', 'appends': list(seq), 'improved': flags,
                             'case': cases[-1][:600]})
                ctx.count('keeper', key=cases[-1], nontrivial=len(seq) >= 2, appends=len(seq),
                          second_improves=(str(flags[1]) if len(flags) > 1 else 'n/a'))
    return cases, meta


# ------------------------------------------------------------------------------------------------
# unit level: GroupedCondition
# ------------------------------------------------------------------------------------------------
def unit_grouped(ctx):
    from golem.utilities.grouped_condition import GroupedCondition
    cases, meta = [], []
    outcomes = [True, False, 'TypeError']
    for any_mode in (True, False):
        for n in range(0, 5):
            for combo in itertools.product(outcomes, repeat=n):
                calls = [0]

                def mk(o):
                    def cond():
                        calls[0] += 1
                        if o == 'TypeError':
                            raise TypeError('injected')
                        return o
                    return cond
                gc = GroupedCondition(results_as_message=True) if any_mode else GroupedCondition(conditions_reduce=all)
                for i, o in enumerate(combo):
                    gc.add_condition(mk(o), 'message %d' % i if i % 2 == 0 else None)
                try:
                    obs = gc()
                    assert isinstance(obs, bool)
                except TypeError:
                    obs = 'TypeError'
                cases.append('UGrouped %s %s %s %s' % (c_bool(any_mode), c_list([res_bool(o) for o in combo], '(res bool)'),
                                                      res_bool(obs), c_nat(calls[0])))
                meta.append({'unit': 'GroupedCondition', 'reduce': 'any' if any_mode else 'all', 'conditions': list(combo),
                             'observed': obs, 'conditions_called': calls[0]})
                ctx.count('grouped', key=(any_mode, combo), nontrivial=n >= 2, length=n, observed=str(obs))
    ctx.set_exhaustive('grouped', True)
    return cases, meta


# ------------------------------------------------------------------------------------------------
# unit level: population size schedules, iterator, fibonacci, depth
# ------------------------------------------------------------------------------------------------
class Watcher:
    """stand-in for the ImprovementWatcher interface"""

    def __init__(self):
        self.is_any_improved = False
        self.is_quality_improved = False
        self.is_complexity_improved = False
        self.stagnation_iter_count = 0


def unit_sizes(ctx):
    from golem.core.optimisers.genetic.gp_params import GPAlgorithmParameters
    from golem.core.optimisers.genetic.operators.inheritance import GeneticSchemeTypesEnum
    from golem.core.optimisers.genetic.parameters.graph_depth import AdaptiveGraphDepth
    from golem.core.optimisers.genetic.parameters.population_size import (AdaptivePopulationSize, ConstRatePopulationSize,
                                                                           init_adaptive_pop_size)
    from golem.utilities.sequence_iterator import SequenceIterator, fibonacci_sequence
    rng = ctx.rng
    cases, meta = [], []
    # ConstRatePopulationSize.next
    rates = [Fraction(0), Fraction(1, 4), Fraction(1, 2), Fraction(1), Fraction(3, 2), Fraction(-1, 2)]
    maxes = [None, 0, 1, 3, 5, 8, 13]
    if ctx.tier == 'thorough':
        rates += [Fraction(1, 8), Fraction(3, 4), Fraction(2), Fraction(-2)]
        maxes += [2, 4, 21]
        grid = list(itertools.product(range(0, 14), rates, maxes, range(0, 16)))
    else:
        grid = list(itertools.product(range(0, 9), rates, maxes, range(0, 11)))
    for initial, rate, mx, ln in grid:
        obs = ConstRatePopulationSize(pop_size=initial, offspring_rate=float(rate), max_pop_size=mx).next([None] * ln)
        cases.append('UConst %s %s %s %s %s' % (c_Z(initial), q(rate), oz(mx), c_Z(ln), c_Z(int(obs))))
        meta.append({'unit': 'ConstRatePopulationSize.next', 'pop_size': initial, 'offspring_rate': str(rate),
                     'max_pop_size': mx, 'len_population': ln, 'observed': int(obs)})
        ctx.count('sizes', key=('const', initial, str(rate), mx, ln), nontrivial=bool(mx), unit='const_rate')
    # the steady-state / generational wiring of init_adaptive_pop_size
    for scheme, rate in (('steady_state', Fraction(1)), ('generational', Fraction(1, 4))):
        for ps, mx, ln in itertools.product([2, 5], [None, 4, 8], [0, 3, 9]):
            params = GPAlgorithmParameters(genetic_scheme_type=GeneticSchemeTypesEnum[scheme], pop_size=ps, max_pop_size=mx,
                                           offspring_rate=float(Fraction(1, 4)))
            obj = init_adaptive_pop_size(params, Watcher())
            assert isinstance(obj, ConstRatePopulationSize) and obj.initial == ps
            obs = obj.next([None] * ln)
            cases.append('UConst %s %s %s %s %s' % (c_Z(ps), q(rate), oz(mx), c_Z(ln), c_Z(int(obs))))
            meta.append({'unit': 'init_adaptive_pop_size(%s).next' % scheme, 'pop_size': ps, 'max_pop_size': mx,
                         'len_population': ln, 'observed': int(obs)})
            ctx.count('sizes', key=('wiring', scheme, ps, mx, ln), nontrivial=bool(mx), unit='const_rate')
    # fibonacci_sequence
    for k in range(-3, 41):
        obs = fibonacci_sequence(k)
        cases.append('UFib %s %s' % (c_Z(k), c_Z(int(obs))))
        meta.append({'unit': 'fibonacci_sequence', 'n': k, 'observed': int(obs)})
        ctx.count('sizes', key=('fib', k), nontrivial=k > 2, unit='fibonacci')
    # SequenceIterator operation sequences
    ops_names = ['SNext', 'SPrev', 'SHasNext', 'SHasPrev', 'SCurrent']
    starts = [None] + list(range(0, 11)) + [13, 21]
    maxvs = [None, 0, 1, 3, 5, 8, 20]
    minvs = [None, 0, 1, 2, 5]
    grid = list(itertools.product(starts, maxvs, minvs))
    reps = ctx.budget(6, 60)
    for start, mxv, mnv in grid:
        for _ in range(reps):
            ops = [rng.choice(ops_names) for _ in range(rng.choice([3, 6, 9]))]
            it = SequenceIterator(sequence_func=fibonacci_sequence, start_value=start, max_sequence_value=mxv, min_sequence_value=mnv)
            obs = []
            for o in ops:
                try:
                    if o == 'SNext':
                        obs.append('OZ %s' % c_Z(int(it.next())))
                    elif o == 'SPrev':
                        obs.append('OZ %s' % c_Z(int(it.prev())))
                    elif o == 'SHasNext':
                        obs.append('OB %s' % c_bool(bool(it.has_next())))
                    elif o == 'SHasPrev':
                        obs.append('OB %s' % c_bool(bool(it.has_prev())))
                    else:
                        obs.append('OZ %s' % c_Z(int(it.current())))
                except StopIteration:
                    obs.append('OStop')
            cases.append('USeq %s %s %s %s %s' % (oz(start), oz(mxv), oz(mnv), c_list(ops, 'sop'), c_list(obs, 'sobs')))
            meta.append({'unit': 'SequenceIterator', 'start': start, 'max': mxv, 'min': mnv, 'ops': ops, 'observed': obs})
            ctx.count('sizes', key=('seq', start, mxv, mnv, tuple(ops)), nontrivial=True, unit='sequence_iterator')
    # AdaptivePopulationSize through init_adaptive_pop_size (parameter_free)
    pop_sizes = list(range(0, 11)) + [13, 21]
    maxps = [None, 0, 1, 2, 3, 4, 5, 6, 8, 13, 21, 55]
    reps = ctx.budget(6, 120)
    for ps, mx in itertools.product(pop_sizes, maxps):
        for _ in range(reps):
            w = Watcher()
            params = GPAlgorithmParameters(genetic_scheme_type=GeneticSchemeTypesEnum.parameter_free, pop_size=ps, max_pop_size=mx)
            try:
                obj = init_adaptive_pop_size(params, w)
                assert isinstance(obj, AdaptivePopulationSize)
                init = int(obj.initial)
            except (StopIteration, ZeroDivisionError) as ex:
                obj, init = None, type(ex).__name__
            calls, obs = [], []
            if obj is not None:
                for _k in range(rng.choice([3, 6])):
                    ln = rng.randrange(0, 16)
                    a, qi, ci = (rng.random() < 0.5), (rng.random() < 0.6), (rng.random() < 0.6)
                    if not a:
                        qi = ci = False      # is_any_improved is the disjunction of the per-metric flags
                    w.is_any_improved, w.is_quality_improved, w.is_complexity_improved = a, qi, ci
                    calls.append('(%s, %s, %s, %s)' % (c_Z(ln), c_bool(a), c_bool(qi), c_bool(ci)))
                    try:
                        obs.append(int(obj.next([None] * ln)))
                    except (StopIteration, ZeroDivisionError) as ex:
                        obs.append(type(ex).__name__)
            cases.append('UAdaptive %s %s %s %s %s' % (c_Z(ps), oz(mx), c_list(calls, '(Z * bool * bool * bool)'),
                                                       res_Z(init), c_list([res_Z(o) for o in obs], '(res Z)')))
            meta.append({'unit': 'AdaptivePopulationSize', 'pop_size': ps, 'max_pop_size': mx, 'calls': calls,
                         'initial': init, 'observed': obs})
            ctx.count('sizes', key=('adaptive', ps, mx, tuple(calls)), nontrivial=bool(mx) and mx >= MIN_POP_SIZE, unit='adaptive')
    # AdaptiveGraphDepth
    grid = list(itertools.product([True, False], range(0, 5), range(0, 6), [0, 1, 2, 3]))
    reps = ctx.budget(2, 40)
    for adaptive, start, mxd, mxs in grid:
        for _ in range(reps):
            w = Watcher()
            d = AdaptiveGraphDepth(w, start_depth=start, max_depth=mxd, max_stagnation_gens=mxs, adaptive=adaptive)
            assert d.initial == start
            stags, obs = [], []
            for _k in range(5):
                w.stagnation_iter_count = rng.randrange(0, 5)
                stags.append(w.stagnation_iter_count)
                obs.append(int(d.next()))
            cases.append('UDepth %s %s %s %s %s %s' % (c_bool(adaptive), c_Z(start), c_Z(mxd), c_Z(mxs),
                                                       c_list([c_Z(s) for s in stags], 'Z'), c_list([c_Z(o) for o in obs], 'Z')))
            meta.append({'unit': 'AdaptiveGraphDepth', 'adaptive': adaptive, 'start_depth': start, 'max_depth': mxd,
                         'max_stagnation_gens': mxs, 'stagnation': stags, 'observed': obs})
            ctx.count('sizes', key=('depth', adaptive, start, mxd, mxs, tuple(stags)), nontrivial=adaptive and start < mxd, unit='depth')
    # the structural-diversity refill of a real optimiser object (identity evaluator, no optimisation is run)
    from golem.core.optimisers.opt_history_objects.individual import Individual
    chains = []
    for k in range(1, 9):
        spec = ['a', []]
        for _ in range(k - 1):
            spec = ['a', [spec]]
        chains.append(spec)
    for mx in [None, 0, 1, 2, 3, 4, 5, 6, 8]:
        cfg = dict(BASE_CFG, optimiser='pop_random_mutation', num_of_generations=1, timeout_min=1.0, max_pop_size=mx,
                   pop_size=1, diversity_check=1)
        opt, _, _ = optrun.make_optimiser(cfg, [])
        for unique, dup in itertools.product(range(0, 9), [0, 2]):
            pop = [Individual(optrun.build_graph(chains[i])) for i in range(unique)]
            pop += [Individual(optrun.build_graph(chains[0])) for _ in range(dup if unique else 0)]
            rng.shuffle(pop)
            obs = len(opt.get_structure_unique_population(pop, lambda p: p))
            cases.append('UDiversity %s %s %s' % (oz(mx), c_Z(unique), c_Z(obs)))
            meta.append({'unit': 'get_structure_unique_population', 'max_pop_size': mx, 'unique': unique, 'duplicates': dup,
                         'observed_size': obs})
            ctx.count('sizes', key=('diversity', mx, unique, dup), nontrivial=bool(mx) and unique <= mx, unit='diversity_refill')
    return cases, meta


# ------------------------------------------------------------------------------------------------
# GOLEM(...) facade
# ------------------------------------------------------------------------------------------------
class RecorderOptimizer:
    """passed as `optimizer=`: records what the facade hands to the optimiser"""
    last = None

    def __init__(self, objective, initial_graphs, requirements, graph_generation_params, graph_optimizer_params, **kw):
        RecorderOptimizer.last = (requirements, graph_generation_params, graph_optimizer_params)

    def optimise(self, objective):
        return []


SENTINELS = {  # values different from every default
    'num_of_generations': 7, 'early_stopping_iterations': 4, 'early_stopping_timeout': 1.5, 'pop_size': 6,
    'max_pop_size': 9, 'max_depth': 5, 'start_depth': 2, 'keep_n_best': 3, 'offspring_rate': 0.25,
    'crossover_prob': 0.125, 'max_arity': 3, 'custom_domain_option': 11, 'history_dir': None,
}


def aval(v):
    if v is None:
        return 'ANone'
    if isinstance(v, datetime.timedelta):
        return '(ADelta %s)' % c_Q(Fraction(int(round(v.total_seconds() * 10 ** 6)), 60 * 10 ** 6))
    if isinstance(v, (int, float)) and not isinstance(v, bool):
        return '(ANum %s)' % q(v)
    return '(AOpaque %s)' % c_nat(v[1])


def same(a, b):
    if isinstance(b, tuple):          # opaque object: identity (plain flags / strings: equality)
        return a is b[0] or (isinstance(b[0], (bool, str)) and type(a) is type(b[0]) and a == b[0])
    return type(a) is type(b) and a == b


def common_kwargs():
    """the three common keys every real use of the facade passes (opaque objects)"""
    from golem.core.optimisers.objective import Objective
    return [('optimizer', (RecorderOptimizer, 9001)), ('objective', (Objective({'m': _zero_metric}), 9002)),
            ('initial_graphs', ([], 9003))]


def _zero_metric(graph):
    return 0.0


_FRESH_DEFAULTS = {}


def fresh_defaults():
    """documented defaults of the two parameter classes, as repr strings, from a FRESH interpreter (the process of
    the check may have been polluted by facades built earlier)"""
    if not _FRESH_DEFAULTS:
        code = ('import json, logging; logging.disable(logging.CRITICAL)\n'
                'from golem.core.optimisers.genetic.gp_params import GPAlgorithmParameters\n'
                'from golem.core.optimisers.optimization_parameters import GraphRequirements\n'
                'print("C15DEFAULTS" + json.dumps({"gp": {k: repr(v) for k, v in vars(GPAlgorithmParameters()).items()},'
                ' "req": {k: repr(v) for k, v in vars(GraphRequirements()).items()}}))')
        out = subprocess.run([sys.executable, '-c', code], stdout=subprocess.PIPE, stderr=subprocess.DEVNULL, text=True,
                             timeout=300).stdout
        line = next(ln for ln in out.splitlines() if ln.startswith('C15DEFAULTS'))
        _FRESH_DEFAULTS.update(json.loads(line[len('C15DEFAULTS'):]))
    return _FRESH_DEFAULTS


def field_observations(gp, req, kwargs):
    """every field of the gp / requirements objects except timeout and n_jobs: (name, owner, given by this facade?,
    FGiven / FDefault / FOther)"""
    given = dict(kwargs)
    out = []
    for owner, obj, defaults in (('DGp', gp, fresh_defaults()['gp']), ('DReq', req, fresh_defaults()['req'])):
        for k, drepr in defaults.items():
            if k in ('timeout', 'n_jobs'):
                continue
            val = getattr(obj, k, '<missing>')
            if k in given and same(val, given[k]):
                ob = 'FGiven'
            elif repr(val) == drepr:
                ob = 'FDefault'
            else:
                ob = 'FOther'
            out.append((k, owner, k in given, ob, repr(val)[:80]))
    return out


def observe_api(timeout, n_jobs, kwargs, calls=1):
    """kwargs: list of (key, value); opaque objects are (object, id) pairs.  optimise() is called `calls` times on the
    ONE facade object; the returned record describes the last call, rec['per_call'] every call"""
    from golem.api.main import GOLEM
    plain = {k: (v[0] if isinstance(v, tuple) else v) for k, v in kwargs}
    rec = {'timeout': str(timeout), 'n_jobs': n_jobs, 'kwargs': [k for k, _ in kwargs], 'calls': calls}
    try:
        g = GOLEM(timeout=timeout, n_jobs=n_jobs, logging_level=50, **plain)
    except Exception as ex:  # noqa
        rec['raised'] = type(ex).__name__
        rec['per_call'] = [rec]
        return rec
    per_call = []
    for call in range(calls):
        RecorderOptimizer.last = None
        g.optimise()
        req, gen, gp = RecorderOptimizer.last
        objs = (gp, gen, req)
        one = dict(rec, call=call + 1)
        one['raised'] = None
        one['where'] = [(k, tuple(bool(hasattr(o, k) and same(getattr(o, k), v)) for o in objs)) for k, v in kwargs]
        one['req_timeout'] = getattr(req, 'timeout', 'missing')
        one['req_n_jobs'] = getattr(req, 'n_jobs', None)
        one['n_jobs_elsewhere'] = bool(hasattr(gp, 'n_jobs') or hasattr(gen, 'n_jobs'))
        one['dynamic'] = type(req).__name__ == 'DynamicGraphRequirements'
        one['fields'] = field_observations(gp, req, kwargs)
        one['same_objects'] = (req is g.graph_requirements and gen is g.graph_generation_parameters and gp is g.gp_algorithm_parameters)
        per_call.append(one)
    rec = dict(per_call[-1])
    rec['per_call'] = per_call
    return rec


# fields that a real genetic optimiser adapts in place on the shared parameter objects during a run
# (static_individual_metadata: the one dictionary is shared with the individuals, evaluation writes timings into it)
ADAPTED_IN_PLACE = ('pop_size', 'max_depth', 'mutation_prob', 'crossover_prob', 'static_individual_metadata')


class RecordingEvo(optrun.EvoGraphOptimizer):
    """passed as `optimizer=` for REAL repeated runs through the facade: notes what it is handed, then runs"""
    entries = []

    def __init__(self, objective, initial_graphs, requirements, graph_generation_params, graph_optimizer_params, **kw):
        RecordingEvo.entries.append((requirements, graph_generation_params, graph_optimizer_params,
                                     {'pop_size': graph_optimizer_params.pop_size, 'max_pop_size': graph_optimizer_params.max_pop_size,
                                      'max_depth': requirements.max_depth, 'start_depth': requirements.start_depth}))
        super().__init__(objective, initial_graphs, requirements, graph_generation_params, graph_optimizer_params, **kw)


def _repeat_metric(graph):
    return float(abs(len(graph.nodes) - 6))


def observe_repeat_real(timeout, n_jobs, limits, calls):
    """a REAL small evolutionary run, optimise() called `calls` times on one facade object"""
    from golem.api.main import GOLEM
    from golem.core.adapter.adapter import IdentityAdapter
    from golem.core.optimisers.objective import Objective
    from golem.core.optimisers.opt_node_factory import DefaultOptNodeFactory
    extra = [('optimizer', (RecordingEvo, 9101)), ('objective', (Objective({'m': _repeat_metric}), 9102)),
             ('initial_graphs', ([optrun.build_graph(sp) for sp in optrun.INITIAL_GRAPHS['three']], 9103)),
             ('adapter', (IdentityAdapter(), 9104)), ('node_factory', (DefaultOptNodeFactory(optrun.NODE_TYPES), 9105)),
             ('history_dir', None), ('show_progress', (False, 9106)), ('parallelization_mode', ('single', 9107))]
    kwargs = list(limits.items()) + extra
    plain = {k: (v[0] if isinstance(v, tuple) else v) for k, v in kwargs}
    g = GOLEM(timeout=timeout, n_jobs=n_jobs, seed=1, logging_level=50, **plain)
    out = []
    for call in range(calls):
        RecordingEvo.entries.clear()
        one = {'timeout': str(timeout), 'n_jobs': n_jobs, 'kwargs': [k for k, _ in kwargs], 'call': call + 1, 'calls': calls,
               'limits': limits, 'real': True}
        old_handler = signal.signal(signal.SIGALRM, _on_alarm)
        signal.setitimer(signal.ITIMER_REAL, 100.0)
        try:
            g.optimise()
            one['outcome'] = 'ok'
        except RunTimeout:
            one['outcome'] = 'timeout'
        except Exception as ex:  # noqa
            one['outcome'] = 'raise:' + type(ex).__name__
        finally:
            signal.setitimer(signal.ITIMER_REAL, 0)
            signal.signal(signal.SIGALRM, old_handler)
        req, gen, gp, entry = RecordingEvo.entries[-1]
        one['entry'] = entry
        one['raised'] = None
        objs = (gp, gen, req)
        skip = [k for k in ADAPTED_IN_PLACE]
        one['where'] = [(k, tuple(bool(hasattr(o, k) and same(getattr(o, k), v)) for o in objs))
                        for k, v in kwargs if k not in skip]
        one['req_timeout'] = getattr(req, 'timeout', 'missing')
        one['req_n_jobs'] = getattr(req, 'n_jobs', None)
        one['n_jobs_elsewhere'] = bool(hasattr(gp, 'n_jobs') or hasattr(gen, 'n_jobs'))
        one['dynamic'] = type(req).__name__ == 'DynamicGraphRequirements'
        one['fields'] = [f for f in field_observations(gp, req, kwargs) if f[0] not in skip]
        one['same_objects'] = True
        opt = getattr(g, 'optimiser', None)
        hist = opt.history.generations if opt is not None else []
        one['sizes'] = [len(gn) for gn in hist if not gn.label]
        one['all_sizes'] = [(gn.label or '', len(gn)) for gn in hist]
        out.append((one, [kv for kv in kwargs if kv[0] not in skip]))
    return out


def call_case(one):
    lim = one['limits']
    return ('{| c_maxpop := %s; c_nog := %s; c_popsize_given := %s; c_popsize_entry := %s; c_maxpop_entry := %s; c_sizes := %s |}' % (
        oz(lim.get('max_pop_size', 55)), on(lim.get('num_of_generations')), c_Z(lim.get('pop_size', 20)),
        c_Z(int(one['entry']['pop_size'])), oz(one['entry']['max_pop_size']), c_list([c_nat(n) for n in one['sizes']], 'nat')))


def api_case(cpu, timeout, n_jobs, kwargs, rec):
    kw = c_list(['(%s, %s)' % (c_str(k), aval(v)) for k, v in kwargs], '(string * aval)')
    head = '{| a_cpu := %s; a_timeout := %s; a_njobs := %s; a_kwargs := %s; ' % (c_Z(cpu), aval(timeout), c_Z(n_jobs), kw)
    if rec['raised']:
        return head + ('a_raised := Some %s; a_where := []; a_req_timeout := None; a_req_njobs := None; '
                       'a_njobs_elsewhere := false; a_fields := []; a_dynamic := false |}') % EXN.get(rec['raised'], 'AttributeError')
    tri = lambda t: '(%s, %s, %s)' % tuple(c_bool(x) for x in t)
    where = c_list(['(%s, %s)' % (c_str(k), tri(w)) for k, w in rec['where']], '(string * (bool * bool * bool))')
    rt = rec['req_timeout']
    rn = rec['req_n_jobs']
    fields = c_list(['(%s, %s, %s, %s)' % (c_str(k), owner, c_bool(g), ob) for k, owner, g, ob, _ in rec['fields']],
                    '(string * dest * bool * fobs)')
    return head + ('a_raised := None; a_where := %s; a_req_timeout := %s; a_req_njobs := %s; '
                   'a_njobs_elsewhere := %s; a_fields := %s; a_dynamic := %s |}') % (
        where, 'None' if rt == 'missing' else '(Some %s)' % aval(rt), 'None' if rn is None else '(Some %s)' % aval(rn),
        c_bool(rec['n_jobs_elsewhere']), fields, c_bool(rec['dynamic']))


def unit_api(ctx):
    from joblib import cpu_count
    from golem.core.adapter.adapter import IdentityAdapter
    from golem.core.optimisers.genetic.gp_params import GPAlgorithmParameters
    from golem.core.optimisers.optimization_parameters import GraphRequirements
    from golem.api.api_utils.api_params import ApiParams
    rng = ctx.rng
    cpu = int(cpu_count())
    # the key tables of the model against the real classes
    ap = ApiParams({}, n_jobs=1, timeout=1)
    tables = [list(vars(GPAlgorithmParameters())), list(ap.get_default_graph_generation_params()),
              list(ap.get_default_common_params()), list(vars(GraphRequirements()))]
    tcase = 'UTables %s' % ' '.join(c_list([c_str(k) for k in t], 'string') for t in tables)
    res = ctx.coq_cases('api', REQ, 'ucheck', [tcase], 2)
    ctx.count('api', key='tables', nontrivial=True, kind='key-tables')
    if not res[0][0]:
        ctx.disagree('api', {'tables': tables}, 'field tables of GPAlgorithmParameters / GraphGenerationParams / common / '
                                                 'GraphRequirements differ from the model tables')
    cases, meta = [], []
    timeouts = [2, 0.5, 0, datetime.timedelta(seconds=30), None]
    jobs = [1, 2, 3, -1, -2, cpu, cpu + 5]
    keys = list(SENTINELS)
    n = ctx.budget(40, 300)
    plan = [(2, 2, [(k, SENTINELS[k]) for k in keys])]       # everything at once
    plan += [(t, j, [('num_of_generations', 3)]) for t, j in itertools.product(timeouts, [2, -1])]
    plan += [(1, j, [(k, SENTINELS[k])]) for j, k in zip(itertools.cycle(jobs), keys)]
    plan += [(1, 0, []), (1, -cpu - 1, [])]                  # worker counts the code documents as improper
    # sequences of facades in ONE process with partly disjoint keyword sets: a limit set by an earlier facade and
    # left unset by a later one (and the reverse) - a facade must be a function of its own arguments only
    tight = [('num_of_generations', 1), ('early_stopping_iterations', 1), ('pop_size', 4), ('max_pop_size', 4), ('max_depth', 3)]
    plain_kw = [('num_of_generations', 4), ('pop_size', 5)]
    other = [('early_stopping_timeout', 1.5), ('start_depth', 2), ('keep_n_best', 3), ('offspring_rate', 0.25)]
    plan += [(2, 1, tight), (2, 1, plain_kw), (2, 1, other), (2, 1, []), (2, 1, plain_kw), (2, 1, tight), (2, 1, [])]
    while len(plan) < n:
        ks = rng.sample(keys, rng.randrange(0, 6))
        kwargs = [(k, SENTINELS[k]) for k in ks]
        if rng.random() < 0.3:
            kwargs.append(('adapter', (IdentityAdapter(), len(plan))))
        plan.append((rng.choice(timeouts), rng.choice(jobs), kwargs))
    earlier = []
    for idx, (timeout, n_jobs, kwargs) in enumerate(plan):
        jkw = {k: v for k, v in kwargs if not isinstance(v, tuple)}
        kwargs = kwargs + common_kwargs()
        # every third facade object is used for three optimise() calls: each call must hand over the facade's limits
        calls = 3 if idx % 3 == 0 else 1
        full = observe_api(timeout, n_jobs, kwargs, calls=calls)
        for rec in full['per_call']:
            cases.append(api_case(cpu, timeout, n_jobs, kwargs, rec))
            step = {'timeout': timeout if not isinstance(timeout, datetime.timedelta) else 0.5, 'n_jobs': n_jobs, 'kwargs': jkw,
                    'calls': rec.get('call', 1)}
            jrec = dict(rec, req_timeout=str(rec.get('req_timeout')), cpu_count=cpu, sequence=earlier[-2:] + [step],
                        fields=[f for f in rec.get('fields', []) if f[3] != ('FGiven' if f[2] else 'FDefault')])
            jrec.pop('per_call', None)
            meta.append(jrec)
            ctx.count('api', key=(str(timeout), n_jobs, tuple(k for k, _ in kwargs), rec.get('call', 1)), nontrivial=len(kwargs) >= 4,
                      timeout=type(timeout).__name__, raised=str(rec['raised']), keys=min(len(kwargs), 9), call=rec.get('call', 1),
                      n_jobs=('cpu+5' if n_jobs > cpu else 'cpu' if n_jobs == cpu else '-cpu-1' if n_jobs < -cpu else str(n_jobs)))
            if rec['raised'] is None and not rec['same_objects']:
                ctx.violate('api', jrec, 'the parameter objects handed to the optimiser are not the ones the facade built')
        earlier.append({k: v for k, v in step.items() if k != 'calls'})
    # REAL small runs repeated on one facade object
    real_repeat(ctx, 'api', cpu, 1, 1, REPEAT_LIMITS[:ctx.pick(3, len(REPEAT_LIMITS))], 3)
    # canary: claim that the worker count arrived as 1 although 2 was given
    ckw = [('pop_size', 6)] + common_kwargs()
    rec = observe_api(2, 2, ckw)
    bad = dict(rec, req_n_jobs=1)
    cases.append(api_case(cpu, 2, 2, ckw, bad))
    ctx.canaries += 1
    res = ctx.coq_cases('api', REQ, 'acheck', cases, 6)
    if not res[-1][0] and not res[-1][4]:
        ctx.canaries_caught += 1
    for rec, (ag, acc, keys_ok, tmo_ok, nj_ok, unset_ok) in zip(meta, res[:-1]):
        judge_api(ctx, 'api', rec, (ag, acc, keys_ok, tmo_ok, nj_ok, unset_ok))
    ctx.sample(meta[0])


def judge_api(ctx, group, rec, flags):
    ag, acc, keys_ok, tmo_ok, nj_ok, unset_ok = flags
    if not unset_ok:
        ctx.violate(group, rec, 'a limit this facade was not given does not hold its documented default (or a given one not '
                                'the given value) in the parameter objects handed to the optimiser: %s' % (
                                    [(f[0], f[3], f[4]) for f in rec.get('fields', [])][:6],))
    if not ag:
        ctx.disagree(group, rec, 'model of the ApiParams distribution differs from the facade')
    if not acc:
        ctx.violate(group, rec, 'GOLEM(...) raised %s on documented arguments' % rec['raised'])
    if not keys_ok:
        ctx.violate(group, rec, 'a limit given to the facade is not found unchanged in exactly one parameter object')
    if not tmo_ok:
        ctx.violate(group, rec, 'the timeout given to the facade does not arrive as the same duration')
    if not nj_ok:
        ctx.violate(group, rec, 'the worker count given to the facade does not arrive in the requirements handed to the optimiser')


REPEAT_LIMITS = [
    {'pop_size': 3, 'max_pop_size': 4, 'num_of_generations': 2, 'early_stopping_iterations': 10, 'max_depth': 5},
    # no step at all: on the tree as it is the first call leaves requirements.max_depth at start_depth (noted, not judged)
    {'pop_size': 3, 'max_pop_size': 4, 'num_of_generations': 0, 'max_depth': 5, 'start_depth': 2},
    {'pop_size': 2, 'max_pop_size': 3, 'num_of_generations': 3, 'max_depth': 4, 'start_depth': 2, 'keep_n_best': 2},
    {'pop_size': 3, 'max_pop_size': 6, 'num_of_generations': 2, 'early_stopping_iterations': 1},
    {'pop_size': 4, 'max_pop_size': 4, 'num_of_generations': 1, 'early_stopping_timeout': 1.5},
]


def real_repeat(ctx, group, cpu, timeout, n_jobs, limits_list, calls):
    """optimise() called several times on one facade object with a REAL genetic optimiser: every call must be handed
    the facade's limits (fields adapted in place by earlier runs excepted) and keep every step within them"""
    observed = []
    for limits in limits_list:
        observed += observe_repeat_real(timeout, n_jobs, limits, calls)
    acases = [api_case(cpu, timeout, n_jobs, kw, one) for one, kw in observed]
    ares = ctx.coq_cases(group, REQ, 'acheck', acases, 6)
    cres = ctx.coq_cases(group, REQ, 'ccheck', [call_case(one) for one, _ in observed], 3)
    for (one, _), aflags, (sizes_ok, gens_ok, entry_ok) in zip(observed, ares, cres):
        limits = one['limits']
        jrec = dict(one, req_timeout=str(one.get('req_timeout')), cpu_count=cpu,
                    api_repeat={'timeout': timeout, 'n_jobs': n_jobs, 'limits': limits, 'calls': one['call']},
                    fields=[f for f in one['fields'] if f[3] != ('FGiven' if f[2] else 'FDefault')])
        ctx.count(group, key=('real-repeat', json.dumps(limits, sort_keys=True), one['call']), nontrivial=one['call'] >= 2,
                  kind='real repeated run', call=one['call'], outcome=one['outcome'])
        judge_api(ctx, group, jrec, aflags)
        if one['outcome'] != 'ok':
            ctx.violate(group, jrec, 'optimise() call %d on one facade object ended with %s' % (one['call'], one['outcome']))
        if not sizes_ok:
            ctx.violate(group, jrec, 'optimise() call %d on one facade object: a generation is larger than the max_pop_size given to the '
                                     'facade: %s' % (one['call'], one['all_sizes']))
        if not gens_ok:
            ctx.violate(group, jrec, 'optimise() call %d on one facade object: more steps than the num_of_generations given to the facade: %s' % (
                one['call'], one['all_sizes']))
        if not entry_ok:
            ctx.violate(group, jrec, 'optimise() call %d on one facade object starts from pop_size / max_pop_size %s, the facade was given %s' % (
                one['call'], one['entry'], limits))
        if one['call'] >= 2 and one['entry']['max_depth'] != limits.get('max_depth', 10):
            ctx.notes.append('call %d on one facade object is handed max_depth=%s (given %s): adapted in place by an earlier run' % (
                one['call'], one['entry']['max_depth'], limits.get('max_depth', 10)))


def replay_api_sequence(ctx, sequence):
    """facades built one after the other in this process; each judged like the cases of unit_api"""
    from joblib import cpu_count
    cpu = int(cpu_count())
    cases, meta, earlier = [], [], []
    for step in sequence:
        kwargs = list(step.get('kwargs', {}).items()) + common_kwargs()
        full = observe_api(step.get('timeout', 2), step.get('n_jobs', 1), kwargs, calls=int(step.get('calls', 1)))
        earlier.append(step)
        for rec in full['per_call']:
            cases.append(api_case(cpu, step.get('timeout', 2), step.get('n_jobs', 1), kwargs, rec))
            one = dict(rec, req_timeout=str(rec.get('req_timeout')), cpu_count=cpu, sequence=list(earlier),
                       fields=[f for f in rec.get('fields', []) if f[3] != ('FGiven' if f[2] else 'FDefault')])
            one.pop('per_call', None)
            meta.append(one)
    res = ctx.coq_cases('api-sequence', REQ, 'acheck', cases, 6)
    for rec, flags in zip(meta, res):
        ctx.count('api-sequence', key=json.dumps([rec['sequence'], rec.get('call', 1)], sort_keys=True),
                  nontrivial=len(rec['sequence']) >= 2 or rec.get('call', 1) >= 2, position=len(rec['sequence']), call=rec.get('call', 1))
        judge_api(ctx, 'api-sequence', rec, flags)


# ------------------------------------------------------------------------------------------------
# real runs
# ------------------------------------------------------------------------------------------------
class TimedLog(list):
    """objective-call log of optrun.Metric that also stamps the wall clock; `sleep` = [first call, last call,
    seconds]: the objective calls with these indices are slow (a slow population)"""

    def __init__(self, sleep=None):
        super().__init__()
        self.sleep = sleep

    def append(self, item):
        if self.sleep and self.sleep[0] <= item.get('i', -1) <= self.sleep[1]:
            time.sleep(self.sleep[2])
        item['abs'] = datetime.datetime.now()
        super().append(item)


def _minutes(delta):
    us = delta.days * 86400 * 10 ** 6 + delta.seconds * 10 ** 6 + delta.microseconds
    return [us, 60 * 10 ** 6]


class RunTimeout(BaseException):
    """raised by the watchdog inside optimise(); not an Exception, so that no `except Exception` of the code
    under test can swallow it"""


def run_limit_s(cfg):
    """hard wall-clock bound of one run (generous for a loaded machine): a zero budget must end within
    PROMPT_S + 10, a tiny timeout within 45 s, a run bounded by <= 5 generations of <= 12 individuals within 100 s"""
    tm = cfg.get('timeout_min')
    if tm is not None and tm <= 0:
        return PROMPT_S + 10
    if tm is not None and tm <= TINY:
        return 45.0
    return 100.0


def _on_alarm(signum, frame):
    raise RunTimeout()


def run_real(cfg):
    """one optimisation with the REAL optimiser; observations as JSON-able data"""
    import logging
    logging.disable(logging.CRITICAL)
    from golem.core.optimisers.populational_optimizer import EvaluationAttemptsError
    from golem.utilities.utilities import urandom_mock
    log = TimedLog(cfg.get('slow_calls'))
    rec = {'cfg': cfg, 'outcome': None, 'pops': [], 'started': 0, 'broke': False}
    with patch('os.urandom', urandom_mock):
        random.seed(cfg.get('seed', 0))
        np.random.seed(cfg.get('seed', 0))
        tmp_hist = tempfile.mkdtemp(prefix='c15_hist_') if cfg.get('history_dir') == 'tmp' else None
        rec['tmp_hist'] = tmp_hist
        opt, objective, gen = optrun.make_optimiser(cfg, log, tmp_hist)
        if cfg.get('keep_history') is False:
            # optrun builds the requirements with keep_history=True; the switch is read at run time
            opt.requirements.keep_history = False
        populational = cfg['optimiser'] in optrun.POPULATIONAL
        pops = rec['pops']
        nog = cfg.get('num_of_generations')
        # a run whose limits do not fire is stopped (and reported) instead of running on.  Only what the property
        # forbids is flagged: a COUNT cap exists only where a count limit is configured (num_of_generations + 4);
        # with time limits only, a step that is STARTED more than 10 s after the configured timeout stops the run
        # (any number of fast steps before the time limit is legitimate, e.g. a population that collapsed to empty)
        cap = (nog + 4) if nog is not None else None
        tmo_s = None if cfg.get('timeout_min') is None else max(cfg['timeout_min'], 0) * 60.0
        rec['completed'] = 0

        def step_allowed():
            if nog is None and tmo_s is not None and time.time() - t_opt[0] > tmo_s + 10.0:
                rec['stopped_by'] = 'a step started %.0f s after the start, timeout %.1f s' % (time.time() - t_opt[0], tmo_s)
                raise RunTimeout()
        t_opt = [time.time()]

        def cb(population, optimiser):
            keeper = optimiser.generations
            # labels are derived from the step counter, not from the history (which may be switched off)
            if rec['completed'] > sum(1 for p in pops if p['label'] == ''):
                label = ''
            elif not pops:
                label = 'initial_assumptions'
            else:
                label = 'extended_or_final'
            pops.append({'label': label,
                         'size': len(population),
                         'gen': keeper.generation_num, 'stag': keeper.stagnation_iter_count,
                         'minutes': _minutes(optimiser.timer.spent_time),
                         'stagdur': [int(round(keeper.stagnation_time_duration * 60)), 60],
                         'pop_size': int(optimiser.graph_optimizer_params.pop_size)})
            if cap is not None and sum(1 for p in pops if p['label'] == '') > cap:
                rec['stopped_by'] = 'hard cap of %d evolved populations' % cap
                raise RunTimeout()
        opt.set_iteration_callback(cb)
        if populational:
            inner = opt._evolve_population

            def counted(evaluator):
                step_allowed()
                rec['started'] += 1
                try:
                    result = inner(evaluator)
                except EvaluationAttemptsError:
                    rec['broke'] = True
                    raise
                rec['completed'] += 1
                return result
            opt._evolve_population = counted
        else:
            # random search: one loop iteration = one request for a new individual, whether or not its evaluation
            # succeeds (failed steps record nothing, so recorded generations undercount the steps)
            inner_gen = opt._generate_new_individual

            def counted_gen():
                step_allowed()
                rec['started'] += 1
                if cap is not None and rec['started'] > cap:
                    rec['stopped_by'] = 'hard cap of %d iterations' % cap
                    raise RunTimeout()
                return inner_gen()
            opt._generate_new_individual = counted_gen
        t0 = time.time()
        t_opt[0] = t0
        rec['limit_s'] = run_limit_s(cfg)
        old_handler = signal.signal(signal.SIGALRM, _on_alarm)
        signal.setitimer(signal.ITIMER_REAL, rec['limit_s'])
        try:
            with open(os.devnull, 'w') as devnull, contextlib.redirect_stderr(devnull):
                opt.optimise(objective)
            rec['outcome'] = 'ok'
        except RunTimeout:
            rec['outcome'] = 'timeout'
        except Exception as ex:  # noqa
            import traceback
            rec['outcome'] = 'raise:' + type(ex).__name__
            rec['exception'] = traceback.format_exc()[-1200:]
            files = {os.path.basename(f.filename) for f in traceback.extract_tb(ex.__traceback__)}
            rec['limit_raise'] = bool(files & LIMIT_FILES)
        finally:
            signal.setitimer(signal.ITIMER_REAL, 0)
            signal.signal(signal.SIGALRM, old_handler)
        rec['wall_ms'] = int((time.time() - t0) * 1000)
        start = getattr(opt.timer, 'start', None)
        rec['end_minutes'] = _minutes(datetime.datetime.now() - start) if start else [0, 1]
        # populations recorded without a step: the first is the initial one, the last one of a run that returned is the
        # final choice, whatever lies between (before the first step) is the extended initial population
        for k, p in enumerate(pops):
            if p['label'] == 'extended_or_final':
                p['label'] = 'final_choices' if (k == len(pops) - 1 and rec['outcome'] == 'ok') else 'extended_initial_assumptions'
        rec['history_labels'] = [g.label or '' for g in opt.history.generations]
        if populational:
            # steps are counted through the iteration callback, not through the history
            rec['evolved_sizes'] = [p['size'] for p in pops if p['label'] == '']
            rec['labels'] = [p['label'] for p in pops]
            rec['labels_match_history'] = (not opt.history.generations) or rec['history_labels'] == rec['labels'] \
                or rec['outcome'] != 'ok'
            rec['history_generations'] = len(opt.history.generations)
        else:
            rec['evolved_sizes'] = [len(g) for g in opt.history.generations if not g.label]
            rec['labels'] = rec['history_labels']
            rec['labels_match_history'] = True
        if tmp_hist:
            rec['history_files'] = sum(len(fs) for _, _, fs in os.walk(tmp_hist))
            shutil.rmtree(tmp_hist, ignore_errors=True)
        rec['iters'] = int(getattr(opt, 'current_iteration_num', 0)) if not populational else 0
        rec['call_minutes'] = [_minutes(e['abs'] - start) for e in log] if (start and not populational) else []
        rec['objective_calls'] = len(log)
        rec['timer_terminated'] = bool(opt.timer.process_terminated)
    return rec


LABEL = {'initial_assumptions': 'PInitial', 'extended_initial_assumptions': 'PExtended', '': 'PEvolved',
         'final_choices': 'PFinal'}


def fr(pair):
    return c_Q(Fraction(pair[0], pair[1]))


def cfg_limits(cfg):
    tm = cfg.get('timeout_min')
    es = cfg.get('early_stopping_timeout')
    return (cfg.get('num_of_generations'), cfg.get('early_stopping_iterations'),
            None if es is None else Fraction(es), None if tm is None else Fraction(int(round(tm * 60 * 10 ** 6)), 60 * 10 ** 6))


def run_case(rec):
    cfg = rec['cfg']
    populational = cfg['optimiser'] in optrun.POPULATIONAL
    adaptive = cfg.get('scheme') == 'parameter_free' and cfg['optimiser'] in ('evo', 'surrogate')
    # a very long run (time limits only, e.g. hundreds of empty populations per second): only the last KEEP_POPS
    # recorded populations are listed, with the counters / last clock restart before them; the clauses are then
    # judged on the listed part (a generation limit is never configured for such runs: count cap num_of_generations + 4)
    all_pops = rec['pops']
    skip = max(0, len(all_pops) - KEEP_POPS) if populational else 0
    skipped, listed = all_pops[:skip], all_pops[skip:]
    skip_gen = skipped[-1]['gen'] if skipped else 0
    skip_stag = skipped[-1]['stag'] if skipped else 0
    restart0 = next((p['minutes'] for p in reversed(skipped) if p['gen'] == 1 or p['stag'] == 0), [0, 1])
    skipped_evolved = sum(1 for p in skipped if p['label'] == '')
    rec = dict(rec, pops=listed, started=rec['started'] - skipped_evolved,
               evolved_sizes=rec['evolved_sizes'][skipped_evolved:] if populational else rec['evolved_sizes'])
    pops = c_list(['{| p_label := %s; p_size := %s; p_gen := %s; p_stag := %s; p_minutes := %s; p_stagdur := %s; p_popsize := %s |}' % (
        LABEL.get(p['label'], 'POtherLabel'), c_nat(p['size']), c_nat(p['gen']), c_nat(p['stag']), fr(p['minutes']),
        fr(p['stagdur']), c_Z(p['pop_size'])) for p in rec['pops']], 'opop')
    return ('{| r_populational := %s; r_lim := %s; r_maxpop := %s; r_adaptive := %s; r_ok := %s; r_timed_out := %s; r_limit_raise := %s; r_pops := %s; r_skip_gen := %s; r_skip_stag := %s; r_restart0 := %s; '
            'r_started := %s; r_broke := %s; r_evolved_sizes := %s; r_iters := %s; r_call_minutes := %s; '
            'r_end_minutes := %s; r_wall_ms := %s |}') % (
        c_bool(populational), limits_coq(*cfg_limits(cfg)), oz(cfg.get('max_pop_size')), c_bool(adaptive),
        c_bool(rec['outcome'] == 'ok'), c_bool(rec['outcome'] == 'timeout'), c_bool(bool(rec.get('limit_raise'))), pops, c_nat(skip_gen), c_nat(skip_stag), fr(restart0), c_nat(rec['started']), c_bool(rec['broke']),
        c_list([c_nat(n) for n in rec['evolved_sizes']], 'nat'), c_nat(rec['iters']),
        c_list([fr(m) for m in rec['call_minutes']], 'Q'), fr(rec['end_minutes']), c_Z(rec['wall_ms']))


def summarise(rec):
    return {'cfg': rec['cfg'], 'outcome': rec['outcome'], 'labels_sizes': list(zip(rec.get('labels', []), [p['size'] for p in rec['pops']] or rec.get('evolved_sizes', []))),
            'evolved_sizes': rec.get('evolved_sizes'), 'keeper': [(p['gen'], p['stag']) for p in rec['pops']],
            'pop_size_param': [p['pop_size'] for p in rec['pops']], 'steps_started': rec['started'], 'iterations': rec.get('iters'),
            'objective_calls': rec.get('objective_calls'),
            'wall_ms': rec.get('wall_ms'), 'exception': rec.get('exception')}


# an exception counts against the clause "every combination of stop options is accepted" when it comes out
# of the limit machinery (the stop lambdas are always called through GroupedCondition)
LIMIT_FILES = {'timer.py', 'grouped_condition.py', 'population_size.py', 'sequence_iterator.py', 'graph_depth.py'}
TINY = 0.02      # minutes (1.2 s)
GENEROUS = 3.0


def make_configs(ctx):
    """structured sample of the documented option space; never an unbounded run: a configuration
    has a generation limit or a tiny timeout"""
    rng = ctx.rng
    # an escalated search (ctx.scale = 4) at most doubles the number of real runs: wall time stays bounded
    n = int(ctx.pick(56, 480) * min(ctx.scale, 2))
    kinds = list(optrun.OPTIMISERS)
    out = []
    nogs = [None, 0, 1, 2, 5]
    esis = [None, 1, 2]
    ests = [None, 0.01, 100.0]
    tmos = [None, 0, TINY, GENEROUS]
    bounded = lambda c: not (c[0] is None and c[3] in (None, GENEROUS))
    stop_grid = [c for c in itertools.product(nogs, esis, ests, tmos) if bounded(c)]
    rng.shuffle(stop_grid)

    def weighted():
        while True:
            c = (rng.choices(nogs, [1, 1, 2, 4, 5])[0], rng.choices(esis, [5, 2, 3])[0],
                 rng.choices(ests, [5, 2, 3])[0], rng.choices(tmos, [3, 2, 2, 4])[0])
            if bounded(c):
                return c
    i = 0
    while len(out) < n:
        # thorough: the whole grid of option combinations first; then (and in quick) combinations weighted
        # towards runs that do evolve
        if ctx.tier == 'thorough' and i < len(stop_grid):
            nog, esi, est, tmo = stop_grid[i]
        elif i % 7 == 3:
            nog, esi, est, tmo = stop_grid[i % len(stop_grid)]
        else:
            nog, esi, est, tmo = weighted()
        kind = kinds[i % len(kinds)]
        i += 1
        scheme = rng.choice(['generational', 'steady_state', 'parameter_free', 'parameter_free'])
        # documented domain: pop_size <= max_pop_size (or max_pop_size unset)
        pop_size, max_pop = rng.choice([(2, 4), (3, 3), (3, 6), (5, 8), (6, 6), (4, 12), (5, None), (3, 5), (2, 3)])
        if max_pop is None and (nog is None or nog > 2):
            max_pop = 8
        cfg = {
            'optimiser': kind,
            'objective': {'metrics': [rng.choice(['plateau', 'plateau', 'neg_size', 'size', 'label', 'balance'])], 'multi': False},
            'num_of_generations': nog, 'early_stopping_iterations': esi, 'early_stopping_timeout': est, 'timeout_min': tmo,
            'pop_size': pop_size, 'max_pop_size': max_pop, 'scheme': scheme,
            'elitism': rng.choice(['keep_n_best', 'replace_worst', 'none']),
            'selection': [rng.choice(['tournament', 'spea2'])],
            'initial': rng.choice(['single', 'two', 'three', 'chain']),
            'keep_n_best': rng.choice([1, 2, 3]),
            'show_progress': rng.random() < 0.35,
            'diversity_check': rng.choice([-1, -1, 1, 2]),
            'seed': rng.randrange(10 ** 6),
        }
        # history switched off (limits must not depend on it) / history also written to a directory
        if rng.random() < 0.3:
            cfg['keep_history'] = False
        elif rng.random() < 0.12:
            cfg['history_dir'] = 'tmp'
        if rng.random() < 0.2:
            cfg['objective'] = {'metrics': rng.choice([['size', 'depth'], ['plateau', 'neg_size']]), 'multi': True}
        # partially failing objectives: failed steps record nothing but are steps all the same
        if (kind in ('random_search', 'random_mutation') and rng.random() < 0.5) or rng.random() < 0.12:
            cfg['objective']['faults'] = {'by_class': [rng.choice([2, 3]), rng.randrange(2), rng.choice(['raise', 'none', 'nan'])]}
        out.append(cfg)
    # random search with a generation limit only and an objective failing on about half of the graphs
    for k in range(ctx.budget(4, 16)):
        out.append(dict(out[k], optimiser=['random_search', 'random_mutation'][k % 2], num_of_generations=rng.choice([5, 6]),
                        timeout_min=rng.choice([None, GENEROUS]), early_stopping_iterations=None, early_stopping_timeout=None,
                        objective={'metrics': [rng.choice(['size', 'neg_size'])], 'multi': False,
                                   'faults': {'by_class': [2, k % 2, rng.choice(['raise', 'none', 'nan'])]}},
                        initial=rng.choice(['two', 'three']), seed=rng.randrange(10 ** 6)))
    # runs that early_stopping_timeout has to stop: the second recorded population (the extension of the initial one)
    # is slow and does not improve; 3/64 min = 2.8 s is exact in binary, the three slow evaluations take >= 3.3 s
    for k in range(ctx.budget(3, 9)):
        out.append(dict(out[k], optimiser=['evo', 'pop_random_mutation', 'surrogate'][k % 3], num_of_generations=4, timeout_min=GENEROUS,
                        early_stopping_iterations=None, early_stopping_timeout=0.046875, pop_size=5, max_pop_size=8,
                        scheme='generational', initial='two', diversity_check=-1, show_progress=False,
                        objective={'metrics': ['plateau'], 'multi': False}, slow_calls=[2, 4, 1.1], seed=rng.randrange(10 ** 6)))
    # more initial graphs than max_pop_size: the genetic optimisers clamp at the first step (the two random-mutation
    # optimisers never read max_pop_size and are outside the documented domain of this clause)
    for k in range(ctx.budget(3, 12)):
        out.append(dict(out[k], optimiser=rng.choice(['evo', 'surrogate']), num_of_generations=rng.choice([2, 3]), timeout_min=GENEROUS,
                        early_stopping_iterations=None, early_stopping_timeout=None, pop_size=2, max_pop_size=2,
                        scheme=rng.choice(['generational', 'steady_state']), initial='three', diversity_check=-1,
                        objective={'metrics': [rng.choice(['neg_size', 'balance'])], 'multi': False}))
    # the structural-diversity refill with a max_pop_size below MIN_POP_SIZE
    for k in range(ctx.budget(3, 12)):
        out.append(dict(out[k], optimiser=rng.choice(['evo', 'pop_random_mutation']), num_of_generations=3, timeout_min=GENEROUS,
                        early_stopping_iterations=None, early_stopping_timeout=None, pop_size=rng.choice([2, 3]),
                        max_pop_size=rng.choice([3, 4]), diversity_check=1,
                        objective={'metrics': ['plateau'], 'multi': False}, initial='two'))
    return out


RCHECK_NAMES = ['agree', 'accepts', 'generations', 'stagnation', 'time', 'zero_budget', 'max_pop', 'adaptive', 'terminates',
                'stagnation_time']
MAX_TIMEOUTS = 3
KEEP_POPS = 150


def judge_run(ctx, group, rec, flags):
    ag, acc, gens, stagn, tim, zero, mxp, adp, term, stagt = flags
    s = summarise(rec)
    if not term:
        ctx.violate(group, s, 'run did not terminate within %.0f s under limits num_of_generations=%s, timeout=%s min, '
                              'early_stopping_iterations=%s, early_stopping_timeout=%s, keep_history=%s (stopped by %s)' % (
            rec.get('limit_s', 0), rec['cfg'].get('num_of_generations'), rec['cfg'].get('timeout_min'),
            rec['cfg'].get('early_stopping_iterations'), rec['cfg'].get('early_stopping_timeout'),
            rec['cfg'].get('keep_history', True), rec.get('stopped_by', 'the watchdog')))
    if not rec.get('labels_match_history', True):
        ctx.disagree(group, s, 'labels derived from the step counter differ from the labels of the recorded history: %s vs %s' % (
            rec.get('labels'), rec.get('history_labels')))
    if not ag:
        ctx.disagree(group, s, 'the loop model (counters, stop test before each step, stop test at the end) does not explain the observed run')
    if not acc:
        ctx.violate(group, s, 'a documented combination of stop options made optimise() raise: %s' % rec['outcome'])
    elif rec['outcome'] not in ('ok', 'timeout'):
        ctx.notes.append('optimise() raised outside the limit machinery (not a clause of C15): %s' % json.dumps(s)[:1500])
    if not gens:
        ctx.violate(group, s, 'more evolution steps than num_of_generations')
    if not stagn:
        ctx.violate(group, s, 'a step was started although the stagnation limit (count or time) had been reached at the preceding check')
    if not stagt:
        ctx.violate(group, s, 'a step was started although the stagnation-time limit (early_stopping_timeout) had been reached: '
                              'measured from the callbacks, independently of the keeper clock')
    if not tim:
        ctx.violate(group, s, 'a step was started although the time limit had been reached')
    if not zero:
        ctx.violate(group, s, 'zero time budget: evolution steps were performed or the run took more than %.0f s' % PROMPT_S)
    if not mxp:
        ctx.violate(group, s, 'an evolved population is larger than max_pop_size')
    if not adp:
        ctx.violate(group, s, 'adaptive population size outside [MIN_POP_SIZE, max_pop_size]')


def start_runs(ctx):
    """the real runs go to a small process pool and proceed while the unit groups are evaluated"""
    cfgs = make_configs(ctx)
    pool = concurrent.futures.ProcessPoolExecutor(max_workers=4)
    return pool, [pool.submit(run_real, cfg) for cfg in cfgs]


def real_runs(ctx, started=None):
    pool, futures = started or start_runs(ctx)
    recs = []
    timeouts = 0
    try:
        for f in futures:
            if timeouts >= MAX_TIMEOUTS:
                # fail fast: the limits are broken, the remaining configurations would only burn wall time
                if f.cancel():
                    continue
            try:
                # second safety net, should the alarm not be delivered inside the worker
                rec = f.result(timeout=160)
            except concurrent.futures.CancelledError:
                continue
            except concurrent.futures.TimeoutError:
                ctx.violate('runs', {'note': 'a worker did not answer within 160 s'}, 'run did not terminate (worker unresponsive)')
                for proc in list(getattr(pool, '_processes', {}).values()):
                    proc.kill()
                break
            recs.append(rec)
            if rec['outcome'] == 'timeout':
                timeouts += 1
        skipped = len(futures) - len(recs)
        if skipped:
            ctx.notes.append('%d configurations were not run: %d runs had to be stopped by the watchdog' % (skipped, timeouts))
    finally:
        pool.shutdown(wait=False, cancel_futures=True)
    cases = [run_case(r) for r in recs]
    # canary: one more evolved generation than observed is claimed for a run limited by num_of_generations
    base = next((r for r in recs if r['cfg']['optimiser'] in optrun.POPULATIONAL and r['cfg'].get('num_of_generations') is not None
                 and r['outcome'] == 'ok'), None)
    if base is not None:
        bad = json.loads(json.dumps(base))
        bad['evolved_sizes'] = bad['evolved_sizes'] + [1] * (bad['cfg']['num_of_generations'] + 1)
        cases.append(run_case(bad))
        ctx.canaries += 1
    res = ctx.coq_cases('runs', REQ, 'rcheck', cases, 10, shard=40)
    if base is not None:
        if not res[-1][0] and not res[-1][2]:
            ctx.canaries_caught += 1
        res = res[:-1]
    for rec, flags in zip(recs, res):
        cfg = rec['cfg']
        evolved = len(rec['evolved_sizes'])
        lim = cfg_limits(cfg)
        ctx.count('runs', key=json.dumps(cfg, sort_keys=True),
                  nontrivial=(evolved >= 1 or (lim[3] is not None and lim[3] <= 0)),
                  optimiser=cfg['optimiser'], scheme=cfg['scheme'], outcome=rec['outcome'], evolved=min(evolved, 6),
                  num_of_generations=str(lim[0]), early_stopping_iterations=str(lim[1]),
                  early_stopping_timeout=str(cfg.get('early_stopping_timeout')), timeout_min=str(cfg.get('timeout_min')),
                  progress_bar=bool(cfg.get('show_progress')), timer_terminated=rec.get('timer_terminated'),
                  failing_objective=bool(cfg['objective'].get('faults')), slow_population=bool(cfg.get('slow_calls')),
                  history=('off' if cfg.get('keep_history') is False else 'directory' if cfg.get('history_dir') else 'memory'),
                  steps_beyond_recorded=min(max(rec['started'] - evolved, 0), 6))
        judge_run(ctx, 'runs', rec, flags)
    for rec in recs[:3]:
        ctx.sample(summarise(rec))
    return recs


# ------------------------------------------------------------------------------------------------
def run(ctx):
    ctx.rule = ('(a) real runs of the five optimiser classes over a structured sample of num_of_generations x '
                'early_stopping_iterations x early_stopping_timeout x timeout x scheme x (pop_size, max_pop_size) x objective '
                '(plateaus) x progress bar; one case = one run; distinct = distinct configuration; non-trivial = at least one '
                'evolved generation or a zero time budget.  (b) unit lock-step of OptimisationTimer / Timer under a settable '
                'clock, the stop test of real optimiser objects over all None/value combinations of the four options, '
                'the stagnation clock of a real GenerationKeeper over sequences of improving / non-improving / empty appends, '
                'GroupedCondition, ConstRatePopulationSize, AdaptivePopulationSize, SequenceIterator, fibonacci_sequence, '
                'AdaptiveGraphDepth on small integer grids; distinct = distinct input tuple.  (c) GOLEM(...) facade with a '
                'recording optimiser class: where every keyword argument lands.')
    ctx.trusted_extra = [
        'the evolve step, the archive-improved answer and the wall clock are oracles of the loop model; theorems quantify over them',
        '"terminates promptly" is wall time: measured (zero budget: optimise() within %.0f s), not proved' % PROMPT_S,
        'unit lock-step patches the name `datetime` in golem.core.optimisers.timer and ...archive.generation_keeper with a settable '
        'clock and sets the keeper counters through their private attributes (read back through the public properties)',
        'run-level observation wraps the bound method _evolve_population of the optimiser instance to count started steps',
        'times on the correspondence grids are multiples of 7.5 s so that the float arithmetic of the code is exact where it decides',
        'timedelta.seconds wraps after one day: the stagnation-time criterion is modelled with that wrap (not reachable in practice)',
    ]
    # an escalated search (after a disagreement) is capped at twice the volume: the whole check stays within
    # a few minutes even when every limit of the tree under test is broken
    ctx.scale = min(ctx.scale, 2)
    started = start_runs(ctx)
    try:
        groups = [('timer', unit_timer), ('stop', unit_stop), ('keeper', unit_keeper), ('grouped', unit_grouped), ('sizes', unit_sizes)]
        for name, fn in groups:
            cases, meta = fn(ctx)
            if name == 'timer':
                # canary: a used-up budget reported as not reached
                cases.append('UTimer (Some %s) %s %s (Some %s) false false false' % (q(1), q(0), q(2), c_Z(1)))
                ctx.canaries += 1
            # large shards: the start-up of coqc, not the evaluation, dominates on a loaded machine
            res = ctx.coq_cases(name, REQ, 'ucheck', cases, 2, shard=1000)
            if name == 'timer':
                if res[-1] == (False, False):
                    ctx.canaries_caught += 1
                res = res[:-1]
            for m, (ag, ho) in zip(meta, res):
                if not ho:
                    ctx.violate(name, m, 'unit-level clause of the property fails: %s' % m.get('unit'))
                if not ag:
                    ctx.disagree(name, m, 'model and implementation differ: %s' % m.get('unit'))
            ctx.sample(meta[len(meta) // 2])
        unit_api(ctx)
        real_runs(ctx, started)
        # replayable failing configurations first: the first violation becomes the replay file
        ctx.violations.sort(key=lambda v: v['group'] != 'runs')
    finally:
        started[0].shutdown(wait=False, cancel_futures=True)


def replay(ctx, payload):
    v = payload.get('violation') or payload.get('first_disagreement') or {}
    case = v.get('case') or {}
    sequence = payload.get('api_sequence') or (case.get('sequence') if isinstance(case, dict) else None)
    if sequence:
        replay_api_sequence(ctx, sequence)
        return
    repeat = payload.get('api_repeat') or (case.get('api_repeat') if isinstance(case, dict) else None)
    if repeat:
        from joblib import cpu_count
        real_repeat(ctx, 'api-repeat', int(cpu_count()), repeat.get('timeout', 1), repeat.get('n_jobs', 1), [repeat['limits']],
                    int(repeat.get('calls', 2)))
        return
    cfg = case.get('cfg') if isinstance(case, dict) else None
    if not cfg:
        return
    rec = run_real(cfg)
    res = ctx.coq_cases('replay', REQ, 'rcheck', [run_case(rec)], 10)
    ctx.count('replay', key=json.dumps(cfg, sort_keys=True), nontrivial=True)
    judge_run(ctx, 'replay', rec, res[0])
