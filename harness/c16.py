"""C16 - selection, inheritance and elitism only reshuffle individuals within size limits.
Implementation: golem.core.optimisers.genetic.operators.{selection,elitism,inheritance,reproduction}.
Model: coq/theories/Evo/{Selection,Elitism,Inheritance,Reproduction}.v
(call_admits / eli_admits / inh_admits / rep_agree and the *_holds_b clause predicates)."""
import itertools
import random

import numpy as np

from common import c_Q, c_bool, c_list, c_nat

from golem.core.optimisers.fitness import SingleObjFitness, MultiObjFitness
from golem.core.optimisers.genetic.gp_params import GPAlgorithmParameters
from golem.core.optimisers.genetic.operators.crossover import Crossover, CrossoverTypesEnum
from golem.core.optimisers.genetic.operators.elitism import Elitism, ElitismTypesEnum
from golem.core.optimisers.genetic.operators.inheritance import Inheritance, GeneticSchemeTypesEnum
from golem.core.optimisers.genetic.operators.mutation import Mutation
from golem.core.optimisers.genetic.operators.reproduction import ReproductionController
from golem.core.optimisers.genetic.operators.selection import Selection, SelectionTypesEnum
from golem.core.optimisers.graph import OptGraph, OptNode
from golem.core.optimisers.opt_history_objects.individual import Individual
from golem.core.optimisers.optimization_parameters import GraphRequirements
from golem.core.optimisers.optimizer import GraphGenerationParams
from golem.core.optimisers.populational_optimizer import EvaluationAttemptsError
from golem.core.adapter.adapter import IdentityAdapter
from golem.core.dag.verification_rules import DEFAULT_DAG_RULES
from golem.core.optimisers.genetic.gp_optimizer import EvoGraphOptimizer
from golem.core.optimisers.genetic.operators.base_mutations import MutationTypesEnum
from golem.core.optimisers.objective import Objective
from golem.core.optimisers.opt_node_factory import DefaultOptNodeFactory

REQ = ['Fitness.Fitness', 'Evo.Selection', 'Evo.Elitism', 'Evo.Inheritance', 'Evo.Reproduction']
# dyadic fitness alphabets with many ties
S_VALUES = [0.0, 0.5, 1.0, 2.0]
M_VALUES = [0.0, 1.0, 2.0]

FIT_NAMES = {}
IND_NAMES = {}


def _preamble():
    """constants for the fitness alphabet and for every (uid, fitness) pair the generators use:
    a population is then a list of identifiers, which coqc parses several times faster"""
    lines = ['Definition I (u : nat) (f : fit) := Build_ind u f.',
             'Definition S1 (q : Q) := Single (Some q) (@nil Q).',
             'Definition SN := Single (@None Q) (@nil Q).',
             'Definition M2 (a b : Q) := Multi [a; b] [(1#1)%Q; (1#1)%Q].',
             'Definition TB (t : sel_type) : sel_type + custom_sel := inl t.',
             'Definition TC (c : custom_sel) : sel_type + custom_sel := inr c.',
             'Definition EP := Build_eparams.', 'Definition RP := Build_rparams.', 'Definition RC := Build_rcall.']
    FIT_NAMES[('S', None)] = 'SN'
    for i, v in enumerate(S_VALUES):
        FIT_NAMES[('S', v)] = 'FS%d' % i
        lines.append('Definition FS%d := S1 %s.' % (i, c_Q(v)))
    for i, a in enumerate(M_VALUES):
        for j, b in enumerate(M_VALUES):
            FIT_NAMES[('M', a, b)] = 'FM%d%d' % (i, j)
            lines.append('Definition FM%d%d := M2 %s %s.' % (i, j, c_Q(a), c_Q(b)))
    common_part = '\n'.join(lines) + '\n'
    small, big = [], []
    for u in list(range(0, 30)) + list(range(100, 115)):
        for key, fname in FIT_NAMES.items():
            IND_NAMES[(u, key)] = 'a%d_%s' % (u, fname)
            small.append('Definition a%d_%s := I %d %s.' % (u, fname, u, fname))
    for u in range(30, 100):
        for key, fname in FIT_NAMES.items():
            if key[0] == 'S':
                IND_NAMES[(u, key)] = 'a%d_%s' % (u, fname)
                big.append('Definition a%d_%s := I %d %s.' % (u, fname, u, fname))
    return common_part + '\n'.join(small) + '\n', '\n'.join(big) + '\n'


PRE, PRE_BIG = _preamble()

SHARD = 1200   # cases per generated Coq file (coqc start-up dominates small shards)
KNOWN_HEAD = 'C16.replace_worst.head_dropped_when_all_new_better'

def first_n(population, pop_size):
    """custom selection: the first pop_size individuals in input order"""
    return list(population)[:pop_size]


def last_n(population, pop_size):
    """custom selection: the last pop_size individuals"""
    return list(population)[-pop_size:]


def trunc_best(population, pop_size):
    """custom selection: deterministic truncation by fitness (each position taken once)"""
    return sorted(population, key=lambda ind: ind.fitness, reverse=True)[:pop_size]


# name -> (entry of selection_types, Coq term of type sel_type + custom_sel)
SEL = {'tournament': (SelectionTypesEnum.tournament, '(TB Tournament)'), 'spea2': (SelectionTypesEnum.spea2, '(TB Spea2)'),
       'first_n': (first_n, '(TC FirstN)'), 'last_n': (last_n, '(TC LastN)'), 'trunc_best': (trunc_best, '(TC TruncBest)')}
CUSTOM = ('first_n', 'last_n', 'trunc_best')
ELI = {'keep_n_best': (ElitismTypesEnum.keep_n_best, 'KeepNBest'),
       'replace_worst': (ElitismTypesEnum.replace_worst, 'ReplaceWorst'),
       'none': (ElitismTypesEnum.none, 'ENone')}
SCH = {'steady_state': (GeneticSchemeTypesEnum.steady_state, 'SteadyState'),
       'generational': (GeneticSchemeTypesEnum.generational, 'Generational'),
       'parameter_free': (GeneticSchemeTypesEnum.parameter_free, 'ParameterFree')}

GRAPH = OptGraph(OptNode('x'))


# ----------------------------------------------------------------------------------------
# individuals: description = [uid:int, fit] with fit = ['S', v|None] or ['M', a, b]
# ----------------------------------------------------------------------------------------
def build_fit(fd):
    if fd[0] == 'S':
        return SingleObjFitness(fd[1])
    return MultiObjFitness(values=(fd[1], fd[2]), weights=1.0)


def fit_coq(fd):
    name = FIT_NAMES.get(tuple(fd))
    if name:
        return name
    if fd[0] == 'S':
        return 'SN' if fd[1] is None else '(S1 %s)' % c_Q(fd[1])
    return '(M2 %s %s)' % (c_Q(fd[1]), c_Q(fd[2]))


def ind_coq(d):
    assert isinstance(d[0], int) and 0 <= d[0] < 100000
    name = IND_NAMES.get((d[0], tuple(d[1])))
    if name:
        return name
    return '(I %d %s)' % (d[0], fit_coq(d[1]))


def inds_coq(ds):
    return c_list([ind_coq(d) for d in ds], 'ind')


def opt_inds_coq(ds):
    return '(@None (list ind))' if ds is None else '(Some %s)' % inds_coq(ds)


class TrackedIndividual(Individual):
    """a user subclass of Individual (adds a helper, overrides nothing): mixed with base
    Individuals carrying the same uid it must still be recognised as the same individual"""

    def label(self):
        return 'tracked:%s' % self.uid


class Pool:
    """python Individual objects for descriptions; a repeated description may be the same object,
    a second object with the same uid and fitness (flag d[2] = 1) or an instance of a user
    subclass of Individual with that uid and fitness (flag d[2] = 2)."""

    def __init__(self):
        self.objs = {}
        self.by_id = {}

    def get(self, d):
        key = (d[0], tuple(d[1]), d[2] if len(d) > 2 else 0)
        if key not in self.objs:
            cls = TrackedIndividual if key[2] == 2 else Individual
            o = cls(GRAPH, fitness=build_fit(d[1]), uid='u%d' % d[0])
            self.objs[key] = o
            self.by_id[id(o)] = [d[0], list(d[1])]
        return self.objs[key]

    def build(self, ds):
        return [self.get(d) for d in ds]

    def describe(self, o):
        if id(o) in self.by_id:
            return self.by_id[id(o)]
        # an object that was not among the inputs: read it
        try:
            u = int(str(o.uid)[1:])
        except Exception:
            u = 90000 + (hash(str(o.uid)) % 9000)
        f = o.fitness
        if isinstance(f, MultiObjFitness):
            v = list(f.values)
            return [u, ['M', float(v[0]), float(v[1])]]
        return [u, ['S', None if f.values[0] is None else float(f.values[0])]]


def strip(ds):
    return [[d[0], list(d[1])] for d in ds]


def rand_fit(r, multi, allow_invalid=False):
    if multi:
        return ['M', r.choice(M_VALUES), r.choice(M_VALUES)]
    if allow_invalid and r.random() < 0.06:
        return ['S', None]
    return ['S', r.choice(S_VALUES)]


def rand_pool(r, k, multi, allow_invalid=False, uid0=0):
    return [[uid0 + i, rand_fit(r, multi, allow_invalid)] for i in range(k)]


def rand_population(r, pool, n, repeat_p):
    """n entries drawn from the pool: fresh members first, repeats with probability repeat_p
    (a repeat is the same object or, one time in three, another object with the same uid)."""
    fresh = list(pool)
    r.shuffle(fresh)
    out = []
    for _ in range(n):
        if out and (not fresh or r.random() < repeat_p):
            d = r.choice(out)
            out.append([d[0], d[1], 1 if r.random() < 0.33 else d[2]])
        else:
            d = fresh.pop()
            out.append([d[0], d[1], 0])
    return out


def mix_classes(r, *populations, p_case=0.25):
    """with probability p_case turn about half of the entries into instances of the user subclass
    (independently per entry, so one uid can be a base Individual in one set and a subclass
    instance in another, or both inside one population)"""
    if r.random() >= p_case:
        return False
    for pop in populations:
        for d in pop:
            if r.random() < 0.5:
                d[2] = 2
    return True


def seed_impl(s):
    random.seed(s)
    np.random.seed(s % (2 ** 32))


# ----------------------------------------------------------------------------------------
# selection
# ----------------------------------------------------------------------------------------
def run_selection_case(case):
    pool = Pool()
    pop = pool.build(case['pop'])
    params = GPAlgorithmParameters(selection_types=[SEL[case['t']][0]], pop_size=case['default'],
                                   multi_objective=case['multi'])
    sel = Selection(params)
    seed_impl(case['seed'])
    try:
        out = sel(pop, case['ps'] if case['ps'] else None)
        return [pool.describe(o) for o in out]
    except Exception as ex:  # the model says selection never raises on these inputs
        case['exception'] = '%s: %s' % (type(ex).__name__, ex)
        return None


def selection_coq(case, out):
    return '(%s, %s, %s, %s, %s)' % (SEL[case['t']][1], c_nat(case['default']), inds_coq(case['pop']),
                                     c_nat(case['ps']), opt_inds_coq(out))


SEL_FN = ('fun c => match c with (t, d, pop, ps, out) => match t with '
          '| inl t => [call_admits t d pop ps out; call_holds_b t d pop ps out] '
          # a user function: the property demands nothing of it; the model is the function itself
          '| inr cu => [match out with Some o => sel_custom_admits cu d pop ps o | None => false end; true] end end')


def gen_selection_cases(ctx):
    r = ctx.rng
    cases = []
    # exhaustive small scope: all sequences of length 1..4 over 3 individuals (two tie) x sizes 1..4
    for multi in (False, True):
        base = ([[0, ['M', 0.0, 1.0]], [1, ['M', 1.0, 0.0]], [2, ['M', 1.0, 1.0]]] if multi
                else [[0, ['S', 1.0]], [1, ['S', 1.0]], [2, ['S', 0.5]]])
        for n in range(1, 5):
            for seq in itertools.product(range(3), repeat=n):
                for ps in range(1, 5):
                    for t in ('tournament', 'spea2'):
                        cases.append({'op': 'sel', 't': t, 'multi': multi, 'default': 3, 'ps': ps,
                                      'pop': [[base[i][0], base[i][1], 0] for i in seq], 'seed': len(cases), 'ex': True})
    n_rand = ctx.budget(6000, 45000)
    for k in range(n_rand):
        multi = r.random() < 0.5
        t = r.choice(['tournament', 'spea2'])
        n = r.randint(1, 15)
        npool = r.randint(1, n)
        pool = rand_pool(r, npool, multi, allow_invalid=(t == 'tournament'))
        pop = rand_population(r, pool, n, r.choice([0.0, 0.0, 0.2, 0.5]))
        ps = r.randint(1, 15)
        default = r.randint(1, 15)
        if r.random() < 0.05:
            ps = 0          # pop_size=None: taken from the parameters
        mix_classes(r, pop)
        cases.append({'op': 'sel', 't': t, 'multi': multi, 'default': default, 'ps': ps, 'pop': pop,
                      'seed': r.randrange(10 ** 6), 'ex': False})
    # populations of 21..120 individuals (group size ceil(0.1 n) >= 3), requests from 1 to n, biased to n
    for k in range(ctx.budget(140, 1200)):
        multi = r.random() < 0.4
        t = r.choice(['tournament', 'tournament', 'spea2'])
        n = r.randint(21, 120 if t == 'tournament' else 48)
        npool = r.choice([n, n, r.randint(21, n)])
        pool = rand_pool(r, npool, multi, allow_invalid=(t == 'tournament'))
        pop = rand_population(r, pool, n, r.choice([0.0, 0.0, 0.15]))
        distinct = len({d[0] for d in pop})
        ps = r.choice([r.randint(1, n), max(1, distinct - r.randint(0, 12)), distinct - 1 or 1, distinct, r.randint(1, n + 5)])
        cases.append({'op': 'sel', 't': t, 'multi': multi, 'default': r.randint(1, n), 'ps': ps, 'pop': pop,
                      'seed': r.randrange(10 ** 6), 'ex': False, 'large': True})
    for k in range(ctx.budget(300, 2000)):      # callable entries of selection_types are called as they are
        multi = r.random() < 0.5
        n = r.randint(1, 15)
        pop = rand_population(r, rand_pool(r, r.randint(1, n), multi), n, r.choice([0.0, 0.2, 0.5]))
        cases.append({'op': 'sel', 't': r.choice(CUSTOM), 'multi': multi, 'default': r.randint(1, 15),
                      'ps': r.choice([0, r.randint(1, 15)]), 'pop': pop, 'seed': r.randrange(10 ** 6), 'ex': False})
    cases.extend(gen_near_tie_cases(ctx, len(cases)))
    return cases


# objective values that are equal only up to rounding (one or a few ulps apart, or within 1e-10 of zero) next to
# clearly separated ones.  Every one of them is an exact dyadic rational and goes to Coq as such (c_Q prints
# Fraction(x)); python compares binary64 values exactly, so domination on them is the exact order of the model.
NEAR_VALUES = [0.3, 0.1 + 0.2, 0.7, 0.1 * 7, 1.0, 1.0 + 2.0 ** -52, 1.0 - 2.0 ** -53, 0.0, 1e-12, 2.0 ** -40,
               0.05, 0.5, 0.6, 2.0, 2.0 + 2.0 ** -51, 3.0, 5.0]
NEAR_PAIRS = [(0.3, 0.1 + 0.2), (0.7, 0.1 * 7), (1.0, 1.0 + 2.0 ** -52), (1.0 - 2.0 ** -53, 1.0), (0.0, 1e-12),
              (0.0, 2.0 ** -40), (2.0, 2.0 + 2.0 ** -51)]


def _true_front_size(pop):
    vals = {d[0]: (d[1][1], d[1][2]) for d in pop}

    def dom(a, b):
        return all(x <= y for x, y in zip(a, b)) and a != b
    return sum(1 for u, v in vals.items() if not any(dom(w, v) for w in vals.values()))


def gen_near_tie_cases(ctx, seed0):
    """SPEA-2 on two-objective populations whose members differ on an objective by a rounding margin only
    (0.3 vs 0.1 + 0.2): the one that is better by an ulp and worse elsewhere is non-dominated and has to be kept.
    Own random stream (the other groups keep their cases)."""
    r = random.Random(1600 + 7919 * int(ctx.seed))
    cases = []

    def add(pop, ps):
        cases.append({'op': 'sel', 't': 'spea2', 'multi': True, 'default': max(1, ps), 'ps': ps, 'pop': pop,
                      'seed': seed0 + len(cases), 'ex': False, 'near': True})
    # the pattern itself: a better by an ulp on objective 0 and worse on objective 1 than b; b dominates more
    # individuals than the dominator of some truly dominated one; request = size of the true front
    for lo, hi in NEAR_PAIRS:
        for swap in (False, True):
            a, b = ['M', lo, 2.0], ['M', hi, 1.0]
            rest = [['M', lo - 1.0, 5.0], ['M', lo - 0.95, 6.0], ['M', hi + 0.2, 3.0], ['M', hi + 0.3, 4.0]]
            if swap:
                a, b = ['M', 2.0, lo], ['M', 1.0, hi]
                rest = [['M', f[2], f[1]] for f in rest]
            for order in ([0, 1, 2, 3, 4, 5], [1, 0, 2, 3, 4, 5], [5, 4, 3, 2, 1, 0], [3, 4, 0, 5, 1, 2]):
                fits = [a, b] + rest
                pop = [[k, list(fits[k]), 0] for k in order]
                add(pop, _true_front_size(pop))
    for k in range(ctx.budget(400, 4000)):
        n = r.randint(3, 12)
        alphabet = r.sample(NEAR_VALUES, r.randint(3, 7)) if r.random() < 0.5 else NEAR_VALUES
        pool = [[u, ['M', r.choice(alphabet), r.choice(alphabet)]] for u in range(r.randint(2, n))]
        pop = rand_population(r, pool, n, r.choice([0.0, 0.0, 0.2]))
        front = _true_front_size(pop)
        ps = r.choice([front, front, front, front + 1, max(1, front - 1), r.randint(1, n)])
        add(pop, ps)
    return cases


def eval_selection(ctx, cases, group='selection', given=None, canary_ok=True):
    big = [k for k, c in enumerate(cases) if len(c['pop']) > 20]
    if big and len(big) < len(cases):
        # large populations are much dearer to evaluate: their own, small shards (parallel coqc)
        small = [k for k in range(len(cases)) if len(cases[k]['pop']) <= 20]
        outs = [None] * len(cases)
        for idx, can in ((small, canary_ok), (big, False)):
            sub = eval_selection(ctx, [cases[k] for k in idx], group,
                                 None if given is None else [given[k] for k in idx], canary_ok=can)
            for k, o in zip(idx, sub):
                outs[k] = o
        return outs
    shard = 24 if big else SHARD
    terms, outs = [], []
    for k, c in enumerate(cases):
        out = given[k] if given is not None else run_selection_case(c)
        outs.append(out)
        terms.append(selection_coq(c, out))
    canary = None
    if group == 'selection' and canary_ok:
        # canary: a selection that returns an individual twice must be flagged
        c = {'op': 'sel', 't': 'tournament', 'multi': False, 'default': 2, 'ps': 2,
             'pop': [[0, ['S', 1.0], 0], [1, ['S', 0.5], 0], [2, ['S', 2.0], 0]], 'seed': 0}
        terms.append(selection_coq(c, [[1, ['S', 0.5]], [1, ['S', 0.5]]]))
        ctx.canaries += 1
        canary = True
    res = ctx.coq_cases(group, REQ, SEL_FN, terms, 2, preamble=PRE + PRE_BIG, shard=shard)
    if canary:
        if res[-1] == (False, False):
            ctx.canaries_caught += 1
        res = res[:-1]
    for c, out, (adm, ho) in zip(cases, outs, res):
        eff = c['ps'] or c['default']
        distinct = len({d[0] for d in c['pop']})
        rec = dict(c, observed=out)
        ctx.count(group, key=(c['t'], c['multi'], eff, tuple((d[0], tuple(d[1])) for d in c['pop'])),
                  nontrivial=distinct > eff, type=c['t'], multi=c['multi'],
                  branch=('single' if distinct == 1 else 'pass-through' if distinct <= eff else 'selected'),
                  repeats=distinct < len(c['pop']), pop_size=min(eff, 16),
                  population=('21..120' if len(c['pop']) > 20 else '1..20'),
                  values=('near-ties' if c.get('near') else 'dyadic alphabet'))
        if not ho:
            ctx.violate(group, rec, 'selection output violates the C16 selection clauses '
                                    '(subset / no repeats / size / single replication / SPEA-2 front kept)')
        if not adm:
            ctx.disagree(group, rec, 'observed selection output is not admitted by the model mechanism')
    return outs


# ----------------------------------------------------------------------------------------
# elitism
# ----------------------------------------------------------------------------------------
def run_elitism_case(case):
    pool = Pool()
    best, new = pool.build(case['best']), pool.build(case['new'])
    params = GPAlgorithmParameters(elitism_type=ELI[case['et']][0], pop_size=case['pop_size'],
                                   min_pop_size_with_elitism=case['min_pop'], multi_objective=case['multi'])
    el = Elitism(params)
    seed_impl(case['seed'])
    out = el(best, new)
    return [pool.describe(o) for o in out]


def elitism_coq(case, out):
    return '(EP %s %s %s %s, %s, %s, %s)' % (ELI[case['et']][1], c_bool(case['multi']), c_nat(case['pop_size']),
                                             c_nat(case['min_pop']), inds_coq(case['best']), inds_coq(case['new']),
                                             inds_coq(out))


ELI_FN = ('fun c => match c with (p, b, n, o) => [eli_admits p b n o; eli_holds_b p b n o; eli_head_b p b n o; '
          'Nat.ltb (ahead_of_head worse b n) (List.length n)] end')


def sort_archive(ds):
    """best first, the way a hall of fame lists its items (lower value = better, invalid last)"""
    def key(d):
        f = d[1]
        if f[0] == 'S':
            return (1, 0.0) if f[1] is None else (0, f[1])
        return (0, f[1], f[2])
    return sorted(ds, key=key)


def gen_elitism_cases(ctx):
    r = ctx.rng
    cases = []
    # exhaustive small scope: best and new over 3 individuals (a tie and a strictly better one)
    base = [[0, ['S', 1.0]], [1, ['S', 1.0]], [2, ['S', 0.5]]]
    seqs = [s for n in range(0, 3) for s in itertools.product(range(3), repeat=n)]
    for sb in seqs:
        for sn in seqs + list(itertools.product(range(3), repeat=3)):
            if not sn:
                continue
            for et in ('keep_n_best', 'replace_worst'):
                cases.append({'op': 'eli', 'et': et, 'multi': False, 'pop_size': 5, 'min_pop': 5,
                              'best': [[base[i][0], base[i][1], 0] for i in sb],
                              'new': [[base[i][0], base[i][1], 0] for i in sn], 'seed': len(cases), 'ex': True})
    n_rand = ctx.budget(5000, 35000)
    for _ in range(n_rand):
        et = r.choice(['keep_n_best', 'keep_n_best', 'replace_worst', 'replace_worst', 'none'])
        multi = r.random() < 0.12
        npool = r.randint(1, 15)
        pool = rand_pool(r, npool, multi, allow_invalid=(et != 'replace_worst'))
        rp = r.choice([0.0, 0.0, 0.0, 0.15, 0.4])
        new = rand_population(r, pool, r.randint(1, 15), rp)
        mode = r.random()
        if mode < 0.25:      # archive disjoint from the new population
            extra = rand_pool(r, r.randint(0, 6), multi, allow_invalid=(et != 'replace_worst'), uid0=100)
            best = rand_population(r, extra, len(extra), 0.0) if extra else []
        else:                # overlapping archive (the normal situation during a run)
            extra = rand_pool(r, r.randint(0, 4), multi, allow_invalid=(et != 'replace_worst'), uid0=100)
            cand = pool + extra
            best = rand_population(r, cand, r.randint(0, min(len(cand), 15)), rp)
        if r.random() < 0.7:
            best = sort_archive(best)
        pop_size = r.choice([5, 5, 10, len(new), 3])
        min_pop = r.choice([5, 5, 5, 1, 8])
        mix_classes(r, best, new)
        cases.append({'op': 'eli', 'et': et, 'multi': multi, 'pop_size': pop_size, 'min_pop': min_pop,
                      'best': best, 'new': new, 'seed': r.randrange(10 ** 6), 'ex': False})
    return cases


def eval_elitism(ctx, cases, group='elitism', given=None):
    terms, outs = [], []
    for k, c in enumerate(cases):
        out = given[k] if given is not None else run_elitism_case(c)
        outs.append(out)
        terms.append(elitism_coq(c, out))
    canary = group == 'elitism'
    if canary:
        # canary: an elite that is also in the new population, reported twice
        c = {'et': 'replace_worst', 'multi': False, 'pop_size': 5, 'min_pop': 5,
             'best': [[0, ['S', 0.5], 0]], 'new': [[0, ['S', 0.5], 0], [1, ['S', 1.0], 0]]}
        terms.append(elitism_coq(c, [[0, ['S', 0.5]], [0, ['S', 0.5]]]))
        ctx.canaries += 1
    res = ctx.coq_cases(group, REQ, ELI_FN, terms, 4, preamble=PRE + PRE_BIG, shard=SHARD)
    if canary:
        if res[-1][0] is False and res[-1][1] is False:
            ctx.canaries_caught += 1
        res = res[:-1]
    for c, out, (adm, ho, head, guard) in zip(cases, outs, res):
        applies = c['et'] != 'none' and not c['multi'] and c['pop_size'] >= c['min_pop']
        bu, nu = [d[0] for d in c['best']], [d[0] for d in c['new']]
        rec = dict(c, observed=out)
        ctx.count(group, key=(c['et'], applies, tuple((d[0], tuple(d[1])) for d in c['best']),
                              tuple((d[0], tuple(d[1])) for d in c['new'])),
                  nontrivial=applies, type=c['et'], applies=applies, overlap=bool(set(bu) & set(nu)),
                  repeats=(len(set(bu)) < len(bu) or len(set(nu)) < len(nu)),
                  best_vs_new=('more' if len(bu) > len(nu) else 'fewer-or-equal'))
        if not ho:
            ctx.violate(group, rec, 'elitism output violates the C16 clauses (drawn from best + new / size of the '
                                    'new population / no individual twice)')
        if not head:
            if c['et'] == 'replace_worst' and not guard:
                ctx.violate(group, rec, 'replace_worst drops the archive head when at least |new| individuals '
                                        'are strictly better than it', finding_key=KNOWN_HEAD)
            else:
                ctx.violate(group, rec, 'elitism applies but the best archived individual is not in the next population')
        if not adm:
            ctx.disagree(group, rec, 'observed elitism output is not admitted by the model')
    return outs


# ----------------------------------------------------------------------------------------
# inheritance
# ----------------------------------------------------------------------------------------
def run_inheritance_case(case):
    pool = Pool()
    prev, new = pool.build(case['prev']), pool.build(case['new'])
    params = GPAlgorithmParameters(selection_types=[SEL[case['t']][0]], pop_size=case['pop_size'],
                                   genetic_scheme_type=SCH[case['sc']][0], multi_objective=case['multi'])
    if case.get('sel_pop_size'):
        # diverging parameters: the Selection is built from ANOTHER GPAlgorithmParameters object (its own
        # pop_size, a scheme that must not matter); the selection TYPE is the Selection's, the population
        # size and the scheme are the Inheritance's
        sel_params = GPAlgorithmParameters(selection_types=[SEL[case['t']][0]], pop_size=case['sel_pop_size'],
                                           genetic_scheme_type=SCH['generational'][0], multi_objective=case['multi'])
        params.selection_types = [SEL[case.get('inh_t', case['t'])][0]]
        inh = Inheritance(params, Selection(sel_params))
    else:
        inh = Inheritance(params, Selection(params))
    seed_impl(case['seed'])
    try:
        out = inh(prev, new)
        return [pool.describe(o) for o in out]
    except Exception as ex:
        case['exception'] = '%s: %s' % (type(ex).__name__, ex)
        return None


def inheritance_coq(case, out):
    return '(%s, %s, %s, %s, %s, %s)' % (SCH[case['sc']][1], SEL[case['t']][1], c_nat(case['pop_size']),
                                         inds_coq(case['prev']), inds_coq(case['new']), opt_inds_coq(out))


INH_FN = ('fun c => match c with (sc, t, ps, prev, new, out) => match t with '
          '| inl t => [inh_admits sc t ps prev new out; inh_holds_b sc ps prev new out] '
          '| inr cu => match out with '
          '  | Some o => [inh_custom_admits sc cu ps prev new o; inh_custom_holds_b sc ps prev new o] '
          '  | None => [false; false] end end end')


def gen_inheritance_cases(ctx):
    r = ctx.rng
    cases = []
    n_rand = ctx.budget(5000, 35000)
    for _ in range(n_rand):
        sc = r.choice(['steady_state', 'steady_state', 'generational', 'parameter_free'])
        t = r.choice(['tournament', 'spea2', 'tournament', 'spea2', 'first_n', 'last_n', 'trunc_best'])
        multi = r.random() < 0.5
        npool = r.randint(1, 15)
        pool = rand_pool(r, npool, multi)
        rp = r.choice([0.0, 0.0, 0.0, 0.15, 0.4])
        new = rand_population(r, pool, r.randint(1, 15), rp)
        extra = rand_pool(r, r.randint(0, 10), multi, uid0=100)
        cand = (pool + extra) if r.random() < 0.7 else (extra or pool)
        prev = rand_population(r, cand, r.randint(1, 15), rp)
        mix_classes(r, prev, new)
        case = {'op': 'inh', 'sc': sc, 't': t, 'multi': multi,
                'pop_size': r.randint(1, 15) if r.random() < 0.9 else r.randint(16, 30),
                'prev': prev, 'new': new, 'seed': r.randrange(10 ** 6)}
        if r.random() < 0.3:       # the nested Selection has its own parameters object
            case['sel_pop_size'] = r.randint(1, 15)
            case['inh_t'] = r.choice(['tournament', 'spea2'])
        cases.append(case)
    return cases


def eval_inheritance(ctx, cases, group='inheritance', given=None):
    terms, outs = [], []
    for k, c in enumerate(cases):
        out = given[k] if given is not None else run_inheritance_case(c)
        outs.append(out)
        terms.append(inheritance_coq(c, out))
    canary = group == 'inheritance'
    if canary:
        # canary: more individuals than pop_size
        c = {'sc': 'generational', 't': 'tournament', 'pop_size': 1, 'prev': [],
             'new': [[0, ['S', 0.5], 0], [1, ['S', 1.0], 0]]}
        terms.append(inheritance_coq(c, [[0, ['S', 0.5]], [1, ['S', 1.0]]]))
        ctx.canaries += 1
    res = ctx.coq_cases(group, REQ, INH_FN, terms, 2, preamble=PRE + PRE_BIG, shard=SHARD)
    if canary:
        if res[-1] == (False, False):
            ctx.canaries_caught += 1
        res = res[:-1]
    for c, out, (adm, ho) in zip(cases, outs, res):
        pu, nu = [d[0] for d in c['prev']], [d[0] for d in c['new']]
        distinct = len(set(pu) | set(nu))
        rec = dict(c, observed=out)
        ctx.count(group, key=(c['sc'], c['t'], c['pop_size'], tuple((d[0], tuple(d[1])) for d in c['prev']),
                              tuple((d[0], tuple(d[1])) for d in c['new'])),
                  nontrivial=(c['sc'] == 'generational' or distinct > c['pop_size'] or
                              (c['t'] in CUSTOM and bool(set(pu) & set(nu)))), scheme=c['sc'], type=c['t'],
                  multi=c['multi'], overlap=bool(set(pu) & set(nu)),
                  repeats=(len(set(pu)) < len(pu) or len(set(nu)) < len(nu)),
                  parameters=('diverging' if c.get('sel_pop_size') or c.get('diverged') else 'shared'))
        if not ho:
            ctx.violate(group, rec, 'inheritance output violates the C16 clauses (drawn from prev + new / no '
                                    'individual twice / at most pop_size)')
        if not adm:
            ctx.disagree(group, rec, 'observed inheritance output is not admitted by the model')
    return outs


# ----------------------------------------------------------------------------------------
# reproduction
# ----------------------------------------------------------------------------------------
def _grow_mutation(graph, **kwargs):
    graph.add_node(OptNode('y'))
    return graph


class RecordingSelection(Selection):
    """the real Selection; records the pop_size it is asked for"""

    def __init__(self, *a, **kw):
        super().__init__(*a, **kw)
        self.sizes = []

    def __call__(self, population, pop_size=None):
        self.sizes.append(pop_size)
        return super().__call__(population, pop_size)


class ScriptedEvaluator:
    """drops individuals according to a script (a random stream with a per-call drop rate) and
    evaluates the others"""

    def __init__(self, rnd, drop_p, values):
        self.rnd, self.drop_p, self.values = rnd, drop_p, values
        self.returned = []

    def __call__(self, pop):
        out = []
        for ind in pop:
            if self.rnd.random() < self.drop_p:
                continue
            if not ind.fitness.valid:
                ind.set_evaluation_result(SingleObjFitness(self.rnd.choice(self.values)))
            out.append(ind)
        self.returned.append(out)
        return out


def run_reproduction_case(case):
    """a sequence of reproduce() calls on one controller; returns the observed calls"""
    rnd = random.Random(case['seed'])
    seed_impl(case['seed'])
    names = {}

    def uid_no(u):
        return names.setdefault(u, len(names))

    def desc(ind):
        f = ind.fitness
        return [uid_no(ind.uid), ['S', None if not f.valid else float(f.values[0])]]

    params = GPAlgorithmParameters(pop_size=case['calls'][0]['target'], required_valid_ratio=case['ratio'],
                                   mutation_types=[_grow_mutation], crossover_types=[CrossoverTypesEnum.none],
                                   mutation_prob=case['mutation_prob'],
                                   selection_types=[SelectionTypesEnum.tournament])
    ggp = GraphGenerationParams(available_node_types=['x', 'y'], rules_for_constraint=[])
    req = GraphRequirements()
    selection = RecordingSelection(params, req)
    ctrl = ReproductionController(params, selection, Mutation(params, req, ggp), Crossover(params, req, ggp),
                                  window_size=case['window'])
    population = [Individual(OptGraph(OptNode('x')), fitness=SingleObjFitness(rnd.choice(S_VALUES)))
                  for _ in range(case['pop_len'])]
    observed = []
    for call in case['calls']:
        params.pop_size = call['target']
        ev = ScriptedEvaluator(rnd, call['drop_p'], S_VALUES)
        selection.sizes = []
        pop_len = len(population)
        try:
            res = ctrl.reproduce(population, ev)
            result = ['ret', res]
        except EvaluationAttemptsError:
            result = ['attempts-error', None]
        except Exception as ex:
            result = ['other-error', '%s: %s' % (type(ex).__name__, ex)]
        obs = {'target': call['target'], 'pop_len': pop_len,
               'partials': [[desc(i) for i in part] for part in ev.returned],
               'sizes': [int(s) for s in selection.sizes],
               'result': [result[0], [desc(i) for i in result[1]] if result[0] == 'ret' else result[1]]}
        observed.append(obs)
        if result[0] == 'ret' and result[1]:
            population = list(result[1])
    return observed


def reproduction_coq(case, observed):
    calls = []
    for o in observed:
        kind, val = o['result']
        res = '(ORet %s)' % inds_coq(val) if kind == 'ret' else ('OAttemptsError' if kind == 'attempts-error' else 'OOtherError')
        calls.append('(RC (RP %s %s 5%%nat 5%%nat) %s %s %s %s)' % (
            c_nat(o['target']), c_Q(case['ratio']), c_nat(o['pop_len']),
            c_list([inds_coq(p) for p in o['partials']], 'list ind'),
            c_list([c_nat(s) for s in o['sizes']], 'nat'), res))
    w0 = c_list(['(1#1)%Q'] * case['window'], 'Q')
    return '(%s, %s)' % (w0, c_list(calls, 'rcall'))


REP_FN = 'fun c => match c with (w, calls) => [rep_agree w calls; rep_holds_b calls] end'


def gen_reproduction_cases(ctx):
    r = ctx.rng
    cases = []
    n = ctx.budget(700, 4000)
    for _ in range(n):
        ncalls = r.choice([1, 1, 2, 3])
        cases.append({'op': 'rep', 'ratio': r.choice([0.25, 0.5, 0.5, 0.75, 0.875, 1.0]),
                      'window': r.choice([1, 2, 3, 10, 10]), 'pop_len': r.randint(1, 15),
                      'mutation_prob': r.choice([0.0, 0.5, 1.0, 1.0]),
                      'calls': [{'target': r.randint(1, 15), 'drop_p': r.choice([0.0, 0.2, 0.5, 0.8, 0.95, 1.0])}
                                for _ in range(ncalls)],
                      'seed': r.randrange(10 ** 6)})
    return cases


def eval_reproduction(ctx, cases, group='reproduction', given=None):
    from golem.core import constants
    assert constants.MIN_POP_SIZE == 5 and constants.EVALUATION_ATTEMPTS_NUMBER == 5, \
        'MIN_POP_SIZE / EVALUATION_ATTEMPTS_NUMBER changed: update the constants passed to the model'
    terms, obs_all = [], []
    for k, c in enumerate(cases):
        observed = given[k] if given is not None else run_reproduction_case(c)
        obs_all.append(observed)
        terms.append(reproduction_coq(c, observed))
    canary = group == 'reproduction'
    if canary:
        # canary: a result that repeats an individual and exceeds the target
        c = {'ratio': 1.0, 'window': 1}
        o = {'target': 1, 'pop_len': 1, 'partials': [[[0, ['S', 1.0]]]], 'sizes': [1],
             'result': ['ret', [[0, ['S', 1.0]], [0, ['S', 1.0]]]]}
        terms.append(reproduction_coq(c, [o]))
        ctx.canaries += 1
    res = ctx.coq_cases(group, REQ, REP_FN, terms, 2, preamble=PRE + PRE_BIG, shard=150)
    if canary:
        if res[-1] == (False, False):
            ctx.canaries_caught += 1
        res = res[:-1]
    for c, observed, (ag, ho) in zip(cases, obs_all, res):
        kinds = [o['result'][0] for o in observed]
        dropped = any(len(p) < s for o in observed for p, s in zip(o['partials'], o['sizes']))
        rec = dict(c, observed=observed)
        ctx.count(group, key=(c['ratio'], c['window'], c['pop_len'], c['mutation_prob'], c['seed']),
                  nontrivial=dropped, outcome='+'.join(kinds), attempts=max(len(o['sizes']) for o in observed),
                  ratio=c['ratio'], calls=len(observed))
        if not ho:
            ctx.violate(group, rec, 'reproduce() result violates the C16 clauses (distinct / evaluated / at most the '
                                    'target / at least the minimum fraction, or EvaluationAttemptsError)')
        if not ag:
            ctx.disagree(group, rec, 'model of the reproduction attempt loop and implementation differ')
    return obs_all


# ----------------------------------------------------------------------------------------
# sessions: ONE Selection / Inheritance / Elitism instance and ONE GPAlgorithmParameters object
# that is changed in place between calls (the way EvoGraphOptimizer does), followed by
# update_requirements(the same object) or by no update at all; every call must satisfy the
# clauses for the parameters in force at that call
# ----------------------------------------------------------------------------------------
SESSION_PARAMS = ('pop_size', 'min_pop', 'et', 't', 'sc', 'multi')


def _apply_params(params, st):
    params.pop_size = st['pop_size']
    params.min_pop_size_with_elitism = st['min_pop']
    params.elitism_type = ELI[st['et']][0]
    params.selection_types = [SEL[st['t']][0]]
    params.genetic_scheme_type = SCH[st['sc']][0]
    params.multi_objective = st['multi']


def _new_params(st):
    return GPAlgorithmParameters(pop_size=st['pop_size'], min_pop_size_with_elitism=st['min_pop'],
                                 elitism_type=ELI[st['et']][0], selection_types=[SEL[st['t']][0]],
                                 genetic_scheme_type=SCH[st['sc']][0], multi_objective=st['multi'])


def run_session(session):
    """returns the per-call cases (in the format of the stand-alone groups, parameters in force
    at the call) and the observed outputs.  Each operator is judged for ITS OWN current parameters
    object: the one it was built with or the last one passed to its update_requirements (tracked
    here, not read back from the operator); an Inheritance takes scheme and pop_size from its own
    object and the selection type from the object of the Selection it delegates to."""
    params = _new_params(session['init'])
    state = {id(params): dict(session['init'])}
    alive = [params]
    selection = Selection(params)
    inheritance = Inheritance(params, selection)
    elitism = Elitism(params)
    ops = {'sel': selection, 'inh': inheritance, 'eli': elitism}
    held = {'sel': params, 'inh': params, 'eli': params}
    pool = Pool()
    cases, outs = [], []
    for k, step in enumerate(session['steps']):
        on = step.get('on', 'eli')
        if step.get('replace'):
            # a NEW parameters object is handed to some operators only (public update_requirements)
            st = dict(state[id(held[on])])
            st.update(step['set'])
            newp = _new_params(st)
            alive.append(newp)
            state[id(newp)] = st
            for name in step['replace']:
                ops[name].update_requirements(newp)
                held[name] = newp
        else:
            st = state[id(held[on])]
            st.update(step['set'])
            _apply_params(held[on], st)     # in place: every operator holding this object sees it
            if step['update']:
                for name, op in ops.items():
                    op.update_requirements(held[name])
        call = step['call']
        seed_impl(session['seed'] + k)
        tag = {'session': session, 'step': k, 'seed': session['seed'] + k,
               'diverged': len({id(o) for o in held.values()}) > 1}
        se, ih, el = state[id(held['sel'])], state[id(held['inh'])], state[id(held['eli'])]
        try:
            if call['kind'] == 'eli':
                c = dict(tag, op='eli', et=el['et'], multi=el['multi'], pop_size=el['pop_size'], min_pop=el['min_pop'],
                         best=call['best'], new=call['new'])
                out = [pool.describe(o) for o in elitism(pool.build(call['best']), pool.build(call['new']))]
            elif call['kind'] == 'sel':
                c = dict(tag, op='sel', t=se['t'], multi=se['multi'], default=se['pop_size'], ps=call['ps'], pop=call['pop'])
                out = [pool.describe(o) for o in selection(pool.build(call['pop']), call['ps'] if call['ps'] else None)]
            else:
                c = dict(tag, op='inh', sc=ih['sc'], t=se['t'], multi=ih['multi'], pop_size=ih['pop_size'],
                         prev=call['prev'], new=call['new'])
                out = [pool.describe(o) for o in inheritance(pool.build(call['prev']), pool.build(call['new']))]
        except Exception as ex:
            c['exception'] = '%s: %s' % (type(ex).__name__, ex)
            out = None if call['kind'] != 'eli' else []
        cases.append(c)
        outs.append(out)
    return cases, outs


def gen_sessions(ctx):
    r = ctx.rng
    sessions = []
    for _ in range(ctx.budget(500, 3500)):
        multi_fit = r.random() < 0.25
        init = {'pop_size': r.choice([2, 3, 4, 4, 5, 8]), 'min_pop': 5, 'et': r.choice(['keep_n_best', 'replace_worst', 'none']),
                't': r.choice(['tournament', 'spea2', 'trunc_best']), 'sc': r.choice(list(SCH)), 'multi': multi_fit}
        pool = rand_pool(r, r.randint(2, 12), multi_fit)
        extra = rand_pool(r, r.randint(0, 5), multi_fit, uid0=100)
        steps = []
        diverging = r.random() < 0.4
        for _k in range(r.randint(2, 6)):
            change = {}
            for name in r.sample(['pop_size', 'pop_size', 'et', 't', 'sc', 'multi', 'min_pop'], r.choice([0, 1, 1, 2, 3])):
                if name == 'pop_size':
                    change[name] = r.choice([1, 2, 3, 5, 6, 8, 10, 15])
                elif name == 'et':
                    change[name] = r.choice(['keep_n_best', 'replace_worst', 'none'])
                elif name == 't':
                    change[name] = r.choice(['tournament', 'spea2', 'first_n', 'last_n', 'trunc_best'])
                elif name == 'sc':
                    change[name] = r.choice(list(SCH))
                elif name == 'multi' and not multi_fit:
                    change[name] = r.random() < 0.3
                elif name == 'min_pop':
                    change[name] = r.choice([1, 5, 5, 8])
            kind = r.choice(['eli', 'eli', 'sel', 'inh'])
            rp = r.choice([0.0, 0.0, 0.2])
            if kind == 'eli':
                new = rand_population(r, pool, r.randint(1, len(pool)), 0.0)
                best = sort_archive(rand_population(r, pool + extra, r.randint(1, min(6, len(pool) + len(extra))), 0.0))
                call = {'kind': 'eli', 'best': best, 'new': new}
            elif kind == 'sel':
                call = {'kind': 'sel', 'pop': rand_population(r, pool, r.randint(1, 15), rp), 'ps': r.choice([0, 0, r.randint(1, 15)])}
            else:
                call = {'kind': 'inh', 'new': rand_population(r, pool, r.randint(1, 12), rp),
                        'prev': rand_population(r, pool + extra, r.randint(1, 12), rp)}
            mix_classes(r, *[call[k] for k in ('best', 'new', 'prev', 'pop') if k in call])
            step = {'set': change, 'update': r.random() < 0.5, 'call': call}
            if diverging:
                step['on'] = r.choice(['sel', 'inh', 'eli'])
                if r.random() < 0.35:
                    step['replace'] = r.sample(['sel', 'inh', 'eli'], r.choice([1, 1, 2]))
            steps.append(step)
        sessions.append({'op': 'session', 'multi_fit': multi_fit, 'init': init, 'steps': steps, 'seed': r.randrange(10 ** 6)})
    return sessions


def eval_sessions(ctx, sessions, group='sessions'):
    by_op = {'sel': ([], []), 'eli': ([], []), 'inh': ([], [])}
    for s in sessions:
        cases, outs = run_session(s)
        for c, o in zip(cases, outs):
            by_op[c['op']][0].append(c)
            by_op[c['op']][1].append(o)
    for op, fn in (('sel', eval_selection), ('eli', eval_elitism), ('inh', eval_inheritance)):
        cases, outs = by_op[op]
        if cases:
            fn(ctx, cases, group=group, given=outs)
    return [None] * len(sessions)


# ----------------------------------------------------------------------------------------
# real optimiser runs: EvoGraphOptimizer.optimise() with every call of reproducer.reproduce,
# inheritance and elitism observed on the instance, each judged for the parameters IN FORCE at
# that call (optimizer.graph_optimizer_params after _update_requirements)
# ----------------------------------------------------------------------------------------
RUN_NODE_TYPES = ['a', 'b', 'c', 'd']


def _chain(names):
    node = None
    for name in names:
        node = OptNode(name, nodes_from=[node] if node else [])
    return OptGraph(node)


class RunMetric:
    """dyadic metric values with many ties; optionally fails on some graphs (the evaluator then
    drops the individual)"""

    def __init__(self, kind, fail_mod):
        self.kind, self.fail_mod = kind, fail_mod

    def __call__(self, graph):
        names = [str(n.content['name']) for n in graph.nodes]
        if self.fail_mod and len(names) % self.fail_mod == 0:
            raise ValueError('scripted evaluation failure')
        if self.kind == 'size':
            return float(abs(len(names) - 6)) + 0.25 * float(names.count('a') % 3)
        return float(graph.depth) * 0.5 + float(names.count('b') % 2)


def _fit_desc(f):
    if not f.valid:
        return ['S', None]
    v = [float(x) for x in f.values]
    return ['S', v[0]] if len(v) == 1 else ['M', v[0], v[1]]


def _sel_name(params):
    t = params.selection_types[0]
    return {SelectionTypesEnum.tournament: 'tournament', SelectionTypesEnum.spea2: 'spea2'}.get(t, 'tournament')


def run_optimiser_case(cfg):
    seed_impl(cfg['seed'])
    metrics = {'size': RunMetric('size', cfg['fail_mod'])}
    if cfg['multi']:
        metrics['depth'] = RunMetric('depth', 0)
    objective = Objective(metrics, is_multi_objective=cfg['multi'])
    req = GraphRequirements(num_of_generations=cfg['generations'], timeout=None, early_stopping_iterations=100,
                            early_stopping_timeout=None, keep_n_best=cfg['keep_n_best'], n_jobs=1, show_progress=False,
                            parallelization_mode='single', keep_history=False, max_depth=8, max_arity=3)
    gp = GPAlgorithmParameters(pop_size=cfg['pop_size'], max_pop_size=cfg['max_pop_size'], multi_objective=cfg['multi'],
                               offspring_rate=cfg['offspring_rate'], required_valid_ratio=cfg['ratio'],
                               genetic_scheme_type=SCH[cfg['sc']][0], elitism_type=ELI[cfg['et']][0],
                               selection_types=[SEL[cfg['t']][0]],
                               crossover_types=[CrossoverTypesEnum[c] for c in cfg['crossover']],
                               mutation_types=[MutationTypesEnum.single_add, MutationTypesEnum.single_change,
                                               MutationTypesEnum.single_drop, MutationTypesEnum.simple],
                               mutation_prob=cfg['mutation_prob'], crossover_prob=0.5,
                               structural_diversity_frequency_check=-1, max_num_of_operator_attempts=20)
    gen = GraphGenerationParams(adapter=IdentityAdapter(), rules_for_constraint=list(DEFAULT_DAG_RULES),
                                node_factory=DefaultOptNodeFactory(RUN_NODE_TYPES))
    initial = [_chain(names) for names in cfg['initial']]
    opt = EvoGraphOptimizer(objective, initial, req, gen, gp)
    names = {}

    def desc(ind):
        return [names.setdefault(ind.uid, len(names)), _fit_desc(ind.fitness)]

    def in_force():
        p = opt.graph_optimizer_params
        return {'pop_size': int(p.pop_size), 'min_pop': int(p.min_pop_size_with_elitism), 'multi': bool(p.multi_objective),
                'et': {v[0]: k for k, v in ELI.items()}[p.elitism_type],
                'sc': {v[0]: k for k, v in SCH.items()}[p.genetic_scheme_type], 't': _sel_name(p),
                'ratio': float(p.required_valid_ratio),
                'own_pop_size': {'reproducer': int(opt.reproducer.parameters.pop_size),
                                 'selection': int(opt.selection.parameters.pop_size),
                                 'inheritance': int(real_inh.parameters.pop_size),
                                 'elitism': int(real_eli.parameters.pop_size)}}

    rep_obs, inh, eli = [], [], []
    real_reproduce, real_inh, real_eli = opt.reproducer.reproduce, opt.inheritance, opt.elitism
    real_selection = opt.reproducer.selection
    sizes = []

    def watching_selection(population, pop_size=None):
        sizes.append(pop_size)
        return real_selection(population, pop_size)

    opt.reproducer.selection = watching_selection

    def watched_reproduce(population, evaluator):
        state = in_force()
        returned = []

        def watching_evaluator(pop):
            out = evaluator(pop)
            returned.append(list(out or []))
            return out

        del sizes[:]
        obs = {'target': state['pop_size'], 'pop_len': len(population), 'in_force': state}
        for ind in population:
            desc(ind)
        try:
            res = real_reproduce(population, watching_evaluator)
            obs['result'] = ['ret', [desc(i) for i in res]]
        except EvaluationAttemptsError:
            obs['result'] = ['attempts-error', None]
            raise
        except Exception as ex:
            obs['result'] = ['other-error', '%s: %s' % (type(ex).__name__, ex)]
            raise
        finally:
            obs['partials'] = [[desc(i) for i in part] for part in returned]
            obs['sizes'] = [int(x) if x else 0 for x in sizes]
            rep_obs.append(obs)
        return res

    def watched_inheritance(prev, new):
        state = in_force()
        c = {'op': 'inh', 'sc': state['sc'], 't': state['t'], 'multi': state['multi'], 'pop_size': state['pop_size'],
             'prev': [desc(i) + [0] for i in prev], 'new': [desc(i) + [0] for i in new], 'in_force': state}
        out = real_inh(prev, new)
        inh.append((c, [desc(i) for i in out]))
        return out

    def watched_elitism(best, new):
        state = in_force()
        c = {'op': 'eli', 'et': state['et'], 'multi': state['multi'], 'pop_size': state['pop_size'],
             'min_pop': state['min_pop'], 'best': [desc(i) + [0] for i in best], 'new': [desc(i) + [0] for i in new],
             'in_force': state}
        out = real_eli(best, new)
        eli.append((c, [desc(i) for i in out]))
        return out

    opt.reproducer.reproduce = watched_reproduce
    opt.inheritance = watched_inheritance
    opt.elitism = watched_elitism
    outcome = 'finished'
    try:
        opt.optimise(objective)
    except Exception as ex:
        outcome = '%s: %s' % (type(ex).__name__, ex)
    return {'rep': rep_obs, 'inh': inh, 'eli': eli, 'outcome': outcome}


def gen_runs(ctx):
    r = ctx.rng
    runs = []
    for k in range(ctx.budget(6, 30)):
        sc = ['steady_state', 'parameter_free', 'generational'][k % 3]
        multi = r.random() < 0.25
        n0 = r.randint(3, 6)
        runs.append({'op': 'run', 'sc': sc, 'multi': multi, 'et': r.choice(['keep_n_best', 'replace_worst', 'keep_n_best', 'none']),
                     't': 'spea2' if multi else r.choice(['tournament', 'tournament', 'spea2']),
                     'pop_size': r.choice([4, 5, 5, 6]), 'max_pop_size': r.choice([10, 14, 18]),
                     'offspring_rate': 1.0 if sc == 'generational' else 0.5, 'ratio': r.choice([0.5, 0.75, 0.875]),
                     'generations': r.randint(3, 4), 'keep_n_best': r.choice([1, 3]),
                     'crossover': r.choice([['none'], ['one_point'], ['subtree', 'one_point']]),
                     'mutation_prob': r.choice([0.5, 0.8, 1.0]), 'fail_mod': r.choice([0, 0, 4, 3]),
                     'initial': [[r.choice(RUN_NODE_TYPES) for _ in range(r.randint(1, 4))] for _ in range(n0)],
                     'seed': r.randrange(10 ** 6)})
    return runs


def eval_runs(ctx, runs, group='runs'):
    rep_cases, rep_given, inh_c, inh_o, eli_c, eli_o = [], [], [], [], [], []
    if len(runs) > 2:       # independent, seeded runs: a few worker processes (results are plain data)
        import concurrent.futures
        import gc
        import multiprocessing
        gc.collect()
        gc.freeze()
        with concurrent.futures.ProcessPoolExecutor(max_workers=4, mp_context=multiprocessing.get_context('fork')) as ex:
            records = list(ex.map(run_optimiser_case, runs))
        gc.unfreeze()
    else:
        records = [run_optimiser_case(cfg) for cfg in runs]
    for cfg, rec in zip(runs, records):
        tag = {'run': cfg}
        moved = len({o['target'] for o in rec['rep']}) > 1
        ctx.count(group, key=('run', cfg['seed'], cfg['sc'], tuple(map(tuple, cfg['initial']))), nontrivial=moved,
                  scheme=cfg['sc'], outcome=rec['outcome'][:40], reproduce_calls=len(rec['rep']), pop_size_moved=moved)
        if not rec['rep']:
            ctx.error(group, 'optimiser run performed no reproduce() call: %s (%s)' % (rec['outcome'], cfg))
            continue
        # one rcall sequence per run: the controller's success-rate window persists over the calls
        rep_cases.append(dict(tag, op='rep', ratio=cfg['ratio'], window=10, pop_len=rec['rep'][0]['pop_len'],
                              mutation_prob=cfg['mutation_prob'], seed=cfg['seed']))
        rep_given.append(rec['rep'])
        for c, o in rec['inh']:
            inh_c.append(dict(c, **tag, seed=cfg['seed']))
            inh_o.append(o)
        for c, o in rec['eli']:
            eli_c.append(dict(c, **tag, seed=cfg['seed']))
            eli_o.append(o)
    if rep_cases:
        eval_reproduction(ctx, rep_cases, group=group, given=rep_given)
    if inh_c:
        eval_inheritance(ctx, inh_c, group=group, given=inh_o)
    if eli_c:
        eval_elitism(ctx, eli_c, group=group, given=eli_o)
    return [None] * len(runs)


# ----------------------------------------------------------------------------------------
EVAL = {'sel': eval_selection, 'eli': eval_elitism, 'inh': eval_inheritance, 'rep': eval_reproduction,
        'session': eval_sessions, 'run': eval_runs}


def run(ctx):
    ctx.rule = ('calls of the real Selection / Elitism / Inheritance / ReproductionController on populations of 1..15 '
                'individuals over a dyadic fitness alphabet with many ties ({0, .5, 1, 2} single-objective, {0,1,2}^2 '
                'multi-objective, a few invalid fitness values), repeated individuals (same object or a second object '
                'with the same uid), overlaps between prev / new / best, requested sizes 1..15 (and None), {tournament, '
                'spea2} x {steady_state, generational, parameter_free} x {keep_n_best, replace_worst, none} x single / '
                'multi objective; an exhaustive small scope (all sequences of length <= 4 over 3 individuals) for '
                'selection and elitism; reproduction: sequences of 1..3 reproduce() calls with a scripted evaluator that '
                'drops individuals; MIXED classes: in a quarter of the cases about half of the entries are instances of a user '
                'subclass of Individual, so the same uid occurs as a base Individual and as a subclass instance within or '
                'across populations / archives; LARGE populations of 21..120 individuals (tournament group size >= 3) with requests from 1 to n; '
                'DIVERGING parameters: an Inheritance whose Selection was built from another GPAlgorithmParameters object, and '
                'sessions in which a new parameters object is handed to some operators only (each operator is judged for its '
                'own current object); RUNS: real EvoGraphOptimizer.optimise() runs (3-4 generations, steady_state / parameter_free / '
                'generational with offspring_rate 1, pop_size moving, some failing evaluations) in which every call of '
                'reproducer.reproduce (with its evaluator and requested sizes), inheritance and elitism is observed on the '
                'instance and judged for the parameters in force at that call; CUSTOM selection callables in selection_types (first-n, last-n, truncation by fitness; '
                'called by Selection without the de-duplicating wrapper) for Selection, Inheritance under all schemes with '
                'overlapping prev / new, and inside sessions; SESSIONS: one Selection / Inheritance / Elitism instance sharing one GPAlgorithmParameters '
                'object that is changed in place between 2..6 calls (pop_size, min_pop_size_with_elitism, elitism type, '
                'selection type, scheme, multi_objective), with update_requirements(the same object) or no update, each call '
                'judged for the parameters in force. distinct = distinct (operator, configuration, input); non-trivial = the selection '
                'function proper is reached (more distinct individuals than requested) / elitism applies / steady-state '
                'merge exceeds pop_size or generational / the evaluator dropped at least one individual')
    ctx.trusted_extra = [
        'SPEA-2 density (k-th nearest neighbour distance, float arithmetic with random pivots) and the truncation '
        'procedure are abstracted to oracles (a tie-breaking rank / a set of deleted positions); everything else of '
        'spea2_selection (strength, raw fitness, front, branch structure, order of the output) is modelled literally',
        'random.sample / random.shuffle produce exactly the arrangements without replacement (modelled by choice streams)',
        'sorted() is a stable sort; max() returns the first maximal element; dict keeps insertion order',
        'binary64 arithmetic is exact on the dyadic alphabet and on the dyadic required_valid_ratio values used; the '
        'quotient residual / mean_success_rate is modelled exactly in Q, and when it is an exact integer the float '
        'quotient may fall just below it (oracle `under`)',
        'fitness comparison is the C09 model (Fitness/Fitness.v), imported',
        'the evaluator passed to reproduce() is an oracle that returns evaluated individuals (contract of C05)',
    ]
    if _PENDING:
        pending = list(_PENDING)
        del _PENDING[:]
        _eval_replays(ctx, pending)
    # the optimiser runs go first: their worker processes are forked while the heap is still small
    # (a forked child that inherits the hundred thousand generated cases spends its time in gc)
    for op, gen in (('run', gen_runs), ('sel', gen_selection_cases), ('eli', gen_elitism_cases),
                    ('inh', gen_inheritance_cases), ('rep', gen_reproduction_cases), ('session', gen_sessions)):
        cases = gen(ctx)
        outs = EVAL[op](ctx, cases)
        for c, o in list(zip(cases, outs))[-1:]:
            if op not in ('run', 'session'):
                ctx.sample({'case': c, 'observed': o})
        del cases, outs
    ctx.set_exhaustive('selection', False)


_PENDING = []   # corpus cases, evaluated in one batch per operator at the start of run()


def _replay_cases(payload):
    v = payload.get('violation') or payload.get('first_disagreement') or payload
    if isinstance(v, dict) and isinstance(v.get('cases'), list):     # a corpus entry listing several inputs
        return [dict(c, seed=c.get('seed', 0) + i) for c in v['cases'] for i in range(2)]
    case = v.get('case') if isinstance(v, dict) else None
    if not case or 'op' not in case:
        return []
    if 'session' in case:          # a call inside a session: replay the whole session
        return [case['session']]
    if 'run' in case:              # a call observed inside an optimiser run: replay the run
        return [case['run']]
    case = {k: val for k, val in case.items() if k not in ('observed', 'exception')}
    # the operators are randomised: replay the input under several seeds of the implementation
    return [dict(case, seed=case.get('seed', 0) + i) for i in range(20 if case['op'] != 'rep' else 1)]


def _eval_replays(ctx, cases):
    for op in ('sel', 'eli', 'inh', 'rep', 'session', 'run'):
        sub = [c for c in cases if c['op'] == op]
        if sub:
            EVAL[op](ctx, sub, group='replay')


def replay(ctx, payload):
    cases = _replay_cases(payload)
    if 'kind' in payload:          # a replay file written by a failed check: evaluate now
        _eval_replays(ctx, cases)
    else:                          # corpus entry: run() follows, evaluate all of them together
        _PENDING.extend(cases)
