"""C17 - built-in variation functions are total and structure-preserving on valid DAGs.

Implementation: golem.core.optimisers.genetic.operators.base_mutations (the 10 functions of
base_mutations_repo), ...operators.crossover (6 crossover functions), gp_operators.replace_subtrees.
Model: coq/theories/Evo/Mutations.v, Crossovers.v (run_mut / run_cx, mut_check / cx_check); all 16 functions are modelled.

Every case = one call of a REAL function on a freshly built graph (or pair of graphs).  The
node objects are snapshotted before and after (object identity -> reference number, uid ->
number, label -> number, parent list, container kind).  The oracle `*_holds_b` is evaluated on
the observed before/after states only.  For the modelled functions the random choices are
inferred from our own callbacks (node factory, random graph factory, advisor: what they were
asked and what they answered) and from the before/after difference; the model run on those
choices must reproduce the observed result up to reference numbering and uuid4 values.
"""
import itertools
import math
import random
import signal
from copy import deepcopy

from golem.core.dag.graph_verifier import GraphVerifier
from golem.core.dag.verification_rules import DEFAULT_DAG_RULES
from golem.core.optimisers.advisor import DefaultChangeAdvisor, RemoveType
from golem.core.optimisers.genetic.gp_params import GPAlgorithmParameters
from golem.core.optimisers.genetic.operators.base_mutations import MutationStrengthEnum
from golem.core.optimisers.genetic.operators import base_mutations as bm
from golem.core.optimisers.genetic.operators import crossover as cx
from golem.core.dag.linked_graph import LinkedGraph
from golem.core.optimisers.graph import OptGraph, OptNode
from golem.core.optimisers.opt_node_factory import DefaultOptNodeFactory, OptNodeFactory
from golem.core.optimisers.optimization_parameters import GraphRequirements
from golem.core.optimisers.optimizer import GraphGenerationParams
from golem.core.optimisers.random_graph_factory import RandomGrowthGraphFactory
from golem.utilities.data_structures import UniqueList

REQ = ['Graph.Heap', 'Graph.Ops', 'Evo.Mutations', 'Evo.Crossovers']
PRE = 'Local Open Scope nat_scope.'

MUTATIONS = ['none', 'simple', 'single_edge', 'single_add', 'single_change', 'single_drop',
             'tree_growth', 'growth', 'local_growth', 'reduce']
KIND = {'none': 'KNone', 'simple': 'KSimple', 'single_edge': 'KEdge', 'single_add': 'KAdd',
        'single_change': 'KChange', 'single_drop': 'KDrop', 'tree_growth': 'KTree', 'growth': 'KGrowth',
        'local_growth': 'KGrowth', 'reduce': 'KReduce'}
CROSSOVERS = ['subtree_crossover', 'one_point_crossover', 'exchange_edges_crossover',
              'exchange_parents_one_crossover', 'exchange_parents_both_crossover', 'subgraph_crossover']
ADVICE = {'forbidden': 'AForbidden', 'node_only': 'ANodeOnly', 'node_rewire': 'ARewire',
          'with_direct_children': 'AWithChildren', 'with_parents': 'AWithParents'}
TYPES = ['a', 'b', 'c']


CALL_TIMEOUT_S = 30


class CallTimeout(Exception):
    pass


def _alarm(signum, frame):
    raise CallTimeout('no answer within %d s' % CALL_TIMEOUT_S)


def guarded(fn):
    """run fn(); a call that does not come back is reported like an exception ("returns")"""
    old = signal.signal(signal.SIGALRM, _alarm)
    signal.alarm(CALL_TIMEOUT_S)
    try:
        return fn()
    finally:
        signal.alarm(0)
        signal.signal(signal.SIGALRM, old)


def py_wellformed(g):
    """python-side sanity check of a graph used as crossover INPUT (premutated copies)"""
    ids = [id(n) for n in g.nodes]
    if not ids or len(set(ids)) != len(ids) or len({n.uid for n in g.nodes}) != len(ids):
        return False
    for n in g.nodes:
        ps = [id(p) for p in n.nodes_from]
        if len(set(ps)) != len(ps) or any(p not in ids for p in ps):
            return False
    color = {}

    def dfs(n):
        color[id(n)] = 1
        for p in n.nodes_from:
            c = color.get(id(p), 0)
            if c == 1 or (c == 0 and dfs(p)):
                return True
        color[id(n)] = 2
        return False
    return not any(color.get(id(n), 0) == 0 and dfs(n) for n in g.nodes)


_LAB = {}


def lab(name):
    return _LAB.setdefault(str(name), len(_LAB))


for _t in TYPES + ['data_source']:
    lab(_t)


def mutation_function(name):
    return bm.base_mutations_repo[bm.MutationTypesEnum[name]]


# ----------------------------------------------------------------------------------------
# graphs
# ----------------------------------------------------------------------------------------
class JournalledGraph(LinkedGraph):
    """user storage class: registers ITS OWN method as the postprocess_nodes hook and points back to itself"""

    def __init__(self, nodes=(), postprocess_nodes=None):
        self.changes = 0
        self.me = self
        super().__init__(nodes, postprocess_nodes=self._on_change)

    def _on_change(self, graph, nodes):
        self.changes += 1


class BackrefOptGraph(OptGraph):
    """user OptGraph subclass: its storage calls back a bound method of the owner, which points to itself"""

    def __init__(self, nodes=()):
        self.touched = 0
        super().__init__(nodes, postprocess_nodes=self._touch)
        self.owner = self

    def _touch(self, graph, nodes):
        self.touched += 1


def new_graph(gclass):
    if gclass == 'journal':
        return OptGraph(delegate_cls=JournalledGraph)
    if gclass == 'optsub':
        return BackrefOptGraph()
    return OptGraph()


def build(par, labels, share='none', gclass='plain'):
    """par[i] = positions of the parents of node i (order kept); nodes listed in position order.
    share = 'ctor' / 'setter': a node whose parent set equals that of a node built before it gets that
    node's LIVE nodes_from handed to its constructor / to its nodes_from setter (OptNode copies it into
    a new UniqueList; a change that keeps the container would make the two nodes share one list)."""
    n = len(par)
    nodes = [None] * n
    order, built = [], set()
    while len(order) < n:
        for i in range(n):
            if i not in built and all(p in built for p in par[i]):
                order.append(i)
                built.add(i)
    donors = {}
    for i in order:
        key = tuple(sorted(par[i]))
        if share != 'none' and par[i] and key in donors:
            donor = nodes[donors[key]]
            if share == 'ctor':
                nodes[i] = OptNode(labels[i], nodes_from=donor.nodes_from)
            else:
                nodes[i] = OptNode(labels[i])
                nodes[i].nodes_from = donor.nodes_from
        else:
            nodes[i] = OptNode(labels[i], nodes_from=[nodes[p] for p in par[i]])
            if par[i]:
                donors.setdefault(key, i)
    g = new_graph(gclass)
    g.nodes = list(nodes)
    return g


def listings(par):
    """the same graph listed sink-first (as given), sink-last (reversed) and rotated (sink in the middle)"""
    n = len(par)
    out = [par]
    for perm in (list(reversed(range(n))), [(i + n // 2) % n for i in range(n)]):
        inv = {o: i for i, o in enumerate(perm)}      # perm[k] = old position listed at k
        new = [[inv[p] for p in par[perm[k]]] for k in range(n)]
        if new not in out:
            out.append(new)
    return out


def small_dags(n):
    """every DAG on n positions whose edges go from a position to a larger one (child i, parent j>i)"""
    pairs = [(i, j) for i in range(n) for j in range(i + 1, n)]
    for mask in range(1 << len(pairs)):
        par = [[] for _ in range(n)]
        for b, (i, j) in enumerate(pairs):
            if mask >> b & 1:
                par[i].append(j)
        yield par


def permute(rng, par):
    """same graph, nodes listed in a random order, parent lists in a random order"""
    n = len(par)
    order = list(range(n))
    rng.shuffle(order)
    inv = {o: i for i, o in enumerate(order)}
    out = [None] * n
    for i in range(n):
        ps = [inv[j] for j in par[i]]
        rng.shuffle(ps)
        out[inv[i]] = ps
    return out


def random_dag(rng, n, p):
    par = [[j for j in range(i + 1, n) if rng.random() < p] for i in range(n)]
    return permute(rng, par)


def random_valid_dag(rng, n):
    """single sink, connected (valid per DEFAULT_DAG_RULES), with shared ancestors (diamonds)"""
    par = [[] for _ in range(n)]
    for j in range(1, n):
        kids = [i for i in range(j) if rng.random() < 0.3]
        if not kids:
            kids = [rng.randrange(j)]
        for i in kids:
            par[i].append(j)
    return permute(rng, par)


def random_labels(rng, n, k, data_source=False):
    ls = [rng.choice(TYPES[:k]) for _ in range(n)]
    if data_source and n > 1 and rng.random() < 0.5:
        ls[rng.randrange(n)] = 'data_source'
    return ls


# ----------------------------------------------------------------------------------------
# our callbacks: node factory, random graph factory, advisor (they log what they were asked)
# ----------------------------------------------------------------------------------------
class LogFactory(OptNodeFactory):
    def __init__(self, types, none_p, rng):
        self.types, self.none_p, self.rng, self.log = types, none_p, rng, []

    def _mk(self):
        if self.rng.random() < self.none_p:
            return None
        return OptNode(content={'name': self.rng.choice(self.types)})

    def exchange_node(self, node):
        r = self._mk()
        self.log.append(('exchange', node, None, r))
        return r

    def get_parent_node(self, node, **kwargs):
        r = self._mk()
        self.log.append(('parent', node, kwargs.get('is_primary'), r))
        return r

    def get_node(self, **kwargs):
        r = self._mk()
        self.log.append(('node', None, kwargs.get('is_primary'), r))
        return r

    def get_all_available_operations(self):
        return list(self.types)


class OwnTreeFactory:
    """random graph factory oracle: any fresh single-sink DAG (shared ancestors allowed)"""

    def __init__(self, types, rng, log):
        self.types, self.rng, self.log = types, rng, log

    def __call__(self, requirements, max_depth=None):
        n = self.rng.randint(1, 5)
        par = random_valid_dag(self.rng, n)
        g = build(par, [self.rng.choice(self.types) for _ in range(n)])
        self.log.append(('tree', None, None, g))
        return g


class DefaultTreeFactory:
    """the repository's RandomGrowthGraphFactory, logged"""

    def __init__(self, node_factory, log):
        self.inner = RandomGrowthGraphFactory(GraphVerifier(DEFAULT_DAG_RULES), node_factory)
        self.log = log

    def __call__(self, requirements, max_depth=None):
        g = self.inner(requirements, max_depth)
        self.log.append(('tree', None, None, g))
        return g


class PlainFactory(DefaultOptNodeFactory):
    """never returns None; used inside the default random graph factory"""
    pass


CONTAINERS = ['list', 'tuple', 'generator', 'map', 'iter', 'set', 'frozenset', 'dict_keys', 'dict_values', 'dict']


def make_container(kind, types):
    """the node types as one of the legal `Iterable[str]` arguments of DefaultOptNodeFactory; every one of
    them denotes the same abstract collection of names as list(types)"""
    types = list(types)
    if kind == 'list':
        return list(types)
    if kind == 'tuple':
        return tuple(types)
    if kind == 'generator':
        return (t for t in types)
    if kind == 'map':
        return map(str, types)
    if kind == 'iter':
        return iter(types)
    if kind == 'set':
        return set(types)
    if kind == 'frozenset':
        return frozenset(types)
    if kind == 'dict_keys':
        return dict.fromkeys(types).keys()
    if kind == 'dict_values':
        return {i: t for i, t in enumerate(types)}.values()
    if kind == 'dict':
        return dict.fromkeys(types, 1)
    raise ValueError(kind)


class LogDefaultFactory(DefaultOptNodeFactory):
    """the repository's DefaultOptNodeFactory (real __init__ / get_node / exchange_node / get_parent_node) built from
    a set / dict view / one-shot iterator / ... of node types; only the outermost call is logged"""

    def __init__(self, available_node_types):
        super().__init__(available_node_types)
        self.log, self._inner = [], False

    def _outer(self, entry, call):
        if self._inner:
            return call()
        self._inner = True
        try:
            r = call()
        finally:
            self._inner = False
        self.log.append(entry + (r,))
        return r

    def exchange_node(self, node):
        return self._outer(('exchange', node, None), lambda: super(LogDefaultFactory, self).exchange_node(node))

    def get_parent_node(self, node, **kwargs):
        return self._outer(('parent', node, kwargs.get('is_primary')),
                           lambda: super(LogDefaultFactory, self).get_parent_node(node, **kwargs))

    def get_node(self, **kwargs):
        return self._outer(('node', None, kwargs.get('is_primary')),
                           lambda: super(LogDefaultFactory, self).get_node(**kwargs))


class LogAdvisor(DefaultChangeAdvisor):
    def __init__(self, advice):
        super().__init__()
        self.advice, self.asked = advice, []

    def can_be_removed(self, node):
        self.asked.append(node)
        return RemoveType[self.advice]


# ----------------------------------------------------------------------------------------
# snapshots
# ----------------------------------------------------------------------------------------
class Reg:
    """object identity -> reference number; uid string -> number"""

    def __init__(self):
        self.cur = []      # ref -> the object whose state is read for that reference
        self.ref = {}      # id(obj) -> ref
        self.hold = []     # keeps every object alive (ids stay unique)
        self.uid = {}

    def r(self, o):
        k = id(o)
        if k not in self.ref:
            self.ref[k] = len(self.cur)
            self.cur.append(o)
            self.hold.append(o)
        return self.ref[k]

    def alias(self, o, ref):
        self.ref[id(o)] = ref
        self.cur[ref] = o
        self.hold.append(o)

    def u(self, s):
        return self.uid.setdefault(s, len(self.uid))

    def close(self):
        i = 0
        while i < len(self.cur):
            for p in self.cur[i].nodes_from:
                self.r(p)
            i += 1

    def heap(self):
        self.close()
        return [(self.u(o.uid), lab(o.content.get('name')), [self.r(p) for p in o.nodes_from],
                 isinstance(o.nodes_from, UniqueList)) for o in self.cur]


def c_nats(l):
    return '[' + '; '.join(str(int(x)) for x in l) + ']'


def c_node(row):
    return '(mkNode %d %d %s %s)' % (row[0], row[1], c_nats(row[2]), 'true' if row[3] else 'false')


def c_heap(rows):
    return '[' + '; '.join(c_node(r) for r in rows) + ']'


def c_nn(reg, o):
    return '(%d, %d)' % (reg.u(o.uid), lab(o.content.get('name')))


def c_onn(reg, o):
    return '(@None newnode)' if o is None else '(Some %s)' % c_nn(reg, o)


def c_tree(reg, g, root):
    idx = {id(n): i for i, n in enumerate(g.nodes)}
    rows = [(reg.u(n.uid), lab(n.content.get('name')), [idx[id(p)] for p in n.nodes_from], True) for n in g.nodes]
    return '(%s, %d)' % (c_heap(rows), idx[id(root)])


def bottoms(removed, parents_of):
    """members of `removed` that are not a parent of another member"""
    ps = set()
    for r in removed:
        ps.update(p for p in parents_of[r] if p != r)
    return [r for r in removed if r not in ps]


# ----------------------------------------------------------------------------------------
# one mutation call
# ----------------------------------------------------------------------------------------
def run_mutation_case(spec):
    """returns (coq term, info dict)"""
    fn = spec['fn']
    random.seed(spec['seed'])
    frng = random.Random(spec['seed'] * 7919 + 13)
    g = build(spec['par'], spec['labels'], spec.get('share', 'none'), spec.get('gclass', 'plain'))
    reg = Reg()
    gb = [reg.r(n) for n in g.nodes]
    hb = reg.heap()
    uid_ref = {n.uid: reg.r(n) for n in g.nodes}
    parents_b = {r: list(hb[r][2]) for r in gb}

    types = TYPES[:spec['ntypes']]
    if spec.get('container'):
        # the repository's own node factory, given its node types as a set / view / iterator / ...
        fac = LogDefaultFactory(make_container(spec['container'], types))
    else:
        fac = LogFactory(types, spec['none_p'], frng)
    if spec['rgf'] == 'own':
        rgf = OwnTreeFactory(types, frng, fac.log)
    elif spec['rgf'] == 'default' and not spec.get('container'):
        rgf = DefaultTreeFactory(PlainFactory(types), fac.log)
    else:  # 'default-none': the default random graph factory on the factory that may return None
        rgf = DefaultTreeFactory(fac, fac.log)
    adv = LogAdvisor(spec['advice'])
    ggp = GraphGenerationParams(advisor=adv, node_factory=fac, random_graph_factory=rgf)
    req = GraphRequirements(max_depth=spec['md'], min_arity=spec['min_ar'], max_arity=spec['max_ar'])
    params = GPAlgorithmParameters(max_num_of_operator_attempts=spec['attempts'],
                                   mutation_strength=MutationStrengthEnum[spec.get('strength', 'mean')])
    f = mutation_function(fn)
    raised = None
    res = None
    if spec.get('reseed'):
        # a resumed, re-seeded session: `random` is put back to the state the graph was built under;
        # node identifiers must not depend on it (they come from uuid4 / os.urandom)
        random.seed(spec['seed'])
    try:
        res = guarded(lambda: f(g, requirements=req, graph_gen_params=ggp, parameters=params))
    except Exception as ex:  # "without raising"
        raised = '%s: %s' % (type(ex).__name__, str(ex)[:120])
    # uids of factory products are known to the harness before it looks at the result
    for kind, node, prim, r in fac.log:
        if kind == 'tree':
            for n in r.nodes:
                reg.u(n.uid)
        elif r is not None:
            reg.u(r.uid)
    known = len(reg.uid)
    info = {'raised': raised, 'same_object': res is g, 'n': len(gb), 'changed': False}
    if raised is not None:
        obs = 'ORaise'
        cands = ['MNone']
        ga, ha = [], hb
    else:
        if res is not g:
            # single_add / growth work on a deepcopy: copies are matched with the originals by uid
            for n in res.nodes:
                if id(n) not in reg.ref and n.uid in uid_ref and reg.cur[uid_ref[n.uid]].uid == n.uid \
                        and id(reg.cur[uid_ref[n.uid]]) != id(n) and uid_ref[n.uid] not in [reg.ref.get(id(m)) for m in res.nodes if m is not n and id(m) in reg.ref]:
                    reg.alias(n, uid_ref[n.uid])
        ga = [reg.r(n) for n in res.nodes]
        ha = reg.heap()
        obs = '(OOk %s %s)' % (c_heap(ha), c_nats(ga))
        info['changed'] = (ga != gb) or any(ha[r] != hb[r] for r in gb)
        info['n_after'] = len(ga)
        try:
            cands = infer_mutation(spec, reg, fac, adv, gb, hb, ga, ha, parents_b, uid_ref, res)
        except Exception as ex:   # the observation does not fit any choice vector: fails closed
            cands = []
            info['inference_failed'] = '%s: %s' % (type(ex).__name__, ex)
    info['cands'] = len(cands)
    term = '(%s, %s, (%s, %s), %s, %s)' % (KIND[fn], c_nats(range(known)), c_heap(hb), c_nats(gb),
                                          ('[' + '; '.join(cands) + ']') if cands else '(@nil mcall)', obs)
    return term, info


def ref_of(reg, uid_ref, o):
    if id(o) in reg.ref:
        return reg.ref[id(o)]
    return uid_ref[o.uid]


def add_steps(reg, uid_ref, entries, res):
    """the strategy steps that ran, from the factory log; the member / child of add_as_child is read
    off the final graph after undoing the later steps (a later step may re-hang the new node)"""
    done = [e for e in entries if e[3] is not None and
            ((e[0] == 'node' and e[2] is False) or e[0] == 'parent')]
    P = {ref_of(reg, uid_ref, m): [ref_of(reg, uid_ref, p) for p in m.nodes_from] for m in res.nodes}
    steps = []
    for kind, node, prim, r in reversed(done):
        n = ref_of(reg, uid_ref, r)
        if kind == 'node':       # add_as_child asked get_node(is_primary=False)
            ps = P.get(n, [])
            v = ps[0] if ps else 0
            kids = [m for m, mp in P.items() if n in mp]
            steps.append('(AsChild %d %s %s)' % (v, '(Some %d)' % kids[0] if kids else '(@None nat)', c_nn(reg, r)))
            for m in kids:
                P[m] = [v if x == n else x for x in P[m]]
        elif prim:
            v = ref_of(reg, uid_ref, node)
            steps.append('(SepParent %d %s)' % (v, c_nn(reg, r)))
            P[v] = [x for x in P.get(v, []) if x != n]
        else:
            v = ref_of(reg, uid_ref, node)
            steps.append('(Intermediate %d %s)' % (v, c_nn(reg, r)))
            P[v] = list(P.get(n, []))
        P.pop(n, None)
    return '[' + '; '.join(reversed(steps)) + ']'


def tree_choice(reg, entries, gb, ga, parents_b):
    # get_node() calls made inside the repository's random graph factory carry no is_primary flag
    entries = [e for e in entries if e[0] == 'tree' or (e[0] == 'node' and e[2] is True)]
    last = entries[-1] if entries else None
    removed = [r for r in gb if r not in ga]
    if last is None or last[3] is None or not removed:
        return '(@None (nat * tree))'
    v = bottoms(removed, parents_b)[0]
    if last[0] == 'tree':
        t = c_tree(reg, last[3], last[3].root_node)
    else:
        t = '([mkNode %d %d [] true], 0)' % (reg.u(last[3].uid), lab(last[3].content.get('name')))
    return '(Some (%d, %s))' % (v, t)


def infer_mutation(spec, reg, fac, adv, gb, hb, ga, ha, parents_b, uid_ref, res):
    fn = spec['fn']
    log = fac.log
    if fn == 'none':
        return ['MNone']
    if fn == 'simple':
        ch = ['(%d, %s)' % (reg.r(node), c_nn(reg, r)) for kind, node, prim, r in log if kind == 'exchange' and r is not None]
        return ['(MSimple [%s])' % '; '.join(ch)]
    if fn == 'single_change':
        tries = ['(%d, %s)' % (reg.r(node), c_onn(reg, r)) for kind, node, prim, r in log if kind == 'exchange']
        return ['(MChange [%s])' % '; '.join(tries)]
    if fn == 'single_edge':
        eb = {(c, p) for c in gb for p in hb[c][2]}
        new = [(c, p) for c in ga for p in ha[c][2] if (c, p) not in eb]
        att = ['(Try %d %d)' % (p, c) for c, p in new]
        return ['(MEdge [%s])' % '; '.join(att)]
    if fn == 'single_drop':
        if not adv.asked:
            return ['(MDrop 0 %s [])' % ADVICE[spec['advice']]]
        v = reg.r(adv.asked[0])
        extra = [r for r in gb if r not in ga and r != v]
        return ['(MDrop %d %s %s)' % (v, ADVICE[spec['advice']], c_nats(extra))]
    if fn == 'single_add':
        return ['(MAdd %s)' % add_steps(reg, uid_ref, log, res)]
    if fn == 'tree_growth':
        return ['(MTree %s)' % tree_choice(reg, log, gb, ga, parents_b)]
    if fn in ('growth', 'local_growth'):
        if any(k == 'parent' or (k == 'node' and prim is False) for k, node, prim, r in log) or not log:
            return ['(MGrowth (GAdd %s))' % add_steps(reg, uid_ref, log, res)]
        return ['(MGrowth (GTree %s))' % tree_choice(reg, log, gb, ga, parents_b)]
    if fn == 'reduce':
        removed = [r for r in gb if r not in ga]
        if not removed:
            tries = ['(%d, (@None newnode))' % r for r in gb]
        else:
            v = bottoms(removed, parents_b)[0]
            last = log[-1][3] if log else None
            present = last is not None and any(n is last or n.uid == last.uid for n in res.nodes)
            tries = ['(%d, %s)' % (v, c_onn(reg, last if present else None))]
        return ['(MReduce %d [%s])' % (spec['min_ar'], '; '.join(tries))]
    raise ValueError(fn)


# ----------------------------------------------------------------------------------------
# one crossover call
# ----------------------------------------------------------------------------------------
def make_second(spec, g1):
    rel = spec['rel']
    if rel == 'ind':
        return build(spec['par2'], spec['labels2'], spec.get('share', 'none'), spec.get('gclass', 'plain'))
    g2 = deepcopy(g1)
    if rel == 'mutcopy':
        random.seed(spec['seed'] + 1)
        name = spec['premut']
        ggp = GraphGenerationParams(available_node_types=TYPES)
        try:
            g2 = mutation_function(name)(g2, requirements=GraphRequirements(max_depth=6, min_arity=1, max_arity=3),
                                         graph_gen_params=ggp, parameters=GPAlgorithmParameters())
        except Exception:
            g2 = deepcopy(g1)
    return g2


def run_crossover_case(spec):
    fn = spec['fn']
    if spec.get('reseed'):
        random.seed(spec['seed'])
    g1 = build(spec['par'], spec['labels'], spec.get('share', 'none'), spec.get('gclass', 'plain'))
    try:
        g2 = make_second(spec, g1)
    except Exception as ex:   # copy.deepcopy of a valid input graph failed: the harness cannot prepare the relative
        return None, {'raised': None, 'changed': False, 'n': len(g1.nodes), 'cands': None,
                      'copy_failed': '%s: %s' % (type(ex).__name__, str(ex)[:80])}
    if not py_wellformed(g2):
        # the built-in mutation that prepared the relative returned a broken graph: that is a C17
        # violation by itself (the mutation stream reports it too); crossovers are not run on it
        return None, {'raised': None, 'changed': True, 'n': len(g1.nodes), 'cands': None, 'premut_bad': True}
    random.seed(spec['seed'])
    reg = Reg()
    b1 = [reg.r(n) for n in g1.nodes]
    b2 = [reg.r(n) for n in g2.nodes]
    hb = reg.heap()
    known = len(reg.uid)
    parents_b = {r: list(hb[r][2]) for r in range(len(hb))}
    f = getattr(cx, fn)
    raised = None
    try:
        if spec.get('inplace') is False:
            r1, r2 = guarded(lambda: f(g1, g2, max_depth=spec['md'], inplace=False))
        else:
            r1, r2 = guarded(lambda: f(g1, g2, max_depth=spec['md']))
    except Exception as ex:
        raised = '%s: %s' % (type(ex).__name__, str(ex)[:120])
    info = {'raised': raised, 'changed': False, 'n': len(b1) + len(b2)}
    if raised is not None:
        obs = 'CRaise'
        cands = []
    else:
        a1 = [reg.r(n) for n in r1.nodes]
        a2 = [reg.r(n) for n in r2.nodes]
        ha = reg.heap()
        obs = '(COk %s %s %s)' % (c_heap(ha), c_nats(a1), c_nats(a2))
        info['changed'] = a1 != b1 or a2 != b2 or any(ha[r] != hb[r] for r in b1 + b2)
        info['dup_uid'] = any(len({n.uid for n in r.nodes}) != len(r.nodes) for r in (r1, r2))
        try:
            # inplace=False works on copies: only the oracle is evaluated on them
            cands = None if spec.get('inplace') is False else infer_crossover(fn, b1, b2, hb, a1, a2, ha, parents_b)
        except Exception as ex:   # fails closed (an empty candidate list is a disagreement)
            cands = []
            info['inference_failed'] = '%s: %s' % (type(ex).__name__, ex)
    info['cands'] = None if cands is None else len(cands)
    term = '(%s, (%s, (%s, %s)), %s, %s)' % (c_nats(range(known)), c_heap(hb), c_nats(b1), c_nats(b2),
                                             ('[' + '; '.join(cands) + ']') if cands else '(@nil xcall)', obs)
    return term, info


def subtree_shape(h, r, memo=None):
    """label-shape of the ancestor closure of r (order of parents kept)"""
    return (h[r][1], tuple(subtree_shape(h, p) for p in h[r][2]))


def infer_crossover(fn, b1, b2, hb, a1, a2, ha, parents_b):
    """candidate choice vectors; None = too many candidates (agreement not evaluated, oracle only)"""
    if fn in ('subtree_crossover', 'one_point_crossover'):
        rem1 = [r for r in b1 if r not in a1]
        rem2 = [r for r in b2 if r not in a2]
        do1, do2 = bool(rem1), bool(rem2)
        if not do1 and not do2:
            return ['(XSubtree None)']
        new1 = [r for r in a1 if r not in b1]
        new2 = [r for r in a2 if r not in b2]

        def partner(new, ha, pool):
            # the root of the transplanted copy and the nodes of the other graph it may be a copy of
            roots = bottoms(new, {r: ha[r][2] for r in new})
            if len(roots) != 1:
                return []
            sh = subtree_shape(ha, roots[0])
            return [r for r in pool if subtree_shape(hb, r) == sh]
        n1s = bottoms(rem1, parents_b) if do1 else partner(new2, ha, b1)
        n2s = bottoms(rem2, parents_b) if do2 else partner(new1, ha, b2)
        out = ['(XSubtree (Some (%d, %d, (%s, %s))))' % (n1, n2, 'true' if do1 else 'false', 'true' if do2 else 'false')
               for n1 in n1s for n2 in n2s]
        return out[:40]
    if fn == 'exchange_edges_crossover':
        def edges(g, h):
            return [(p, c) for c in g for p in h[c][2]]
        E1, E2 = edges(b1, hb), edges(b2, hb)
        E1a, E2a = set(edges(a1, ha)), set(edges(a2, ha))
        count = math.ceil(min(len(E1), len(E2)) / 2)

        def options(E, Ea, g):
            rem = [e for e in E if e not in Ea]
            need = count - len(rem)
            if need < 0:
                return []
            first = {}
            for r in g:
                first.setdefault(hb[r][1], r)
            # a removed edge can only come back between the first nodes carrying its two names
            keep = [e for e in E if e in Ea and first[hb[e[0]][1]] == e[0] and first[hb[e[1]][1]] == e[1]]
            return [rem + list(x) for x in itertools.combinations(keep, need)]
        o1, o2 = options(E1, E1a, b1), options(E2, E2a, b2)
        if len(o1) * len(o2) > 24:
            return None
        pr = lambda es: '[' + '; '.join('(%d, %d)' % e for e in es) + ']'
        return ['(XEdges %s %s)' % (pr(x), pr(y)) for x in o1 for y in o2]
    if fn in ('exchange_parents_one_crossover', 'exchange_parents_both_crossover'):
        ctor = 'XParentsOne' if fn.endswith('one_crossover') else 'XParentsBoth'
        inc = [r for r in b2 if hb[r][2] or any(r in hb[c][2] for c in b2)]
        if not inc:
            return ['(%s None)' % ctor]
        return ['(%s (Some %d))' % (ctor, r) for r in inc]
    if fn == 'subgraph_crossover':
        # the links cut in each parent = its links that are gone; any of them may have been the first
        # (target, source); the order of the others does not matter; at most one connection per child
        def removed(g):
            return [(p, c) for c in g for p in hb[c][2] if p not in ha[c][2]]
        pr = lambda es: ('[' + '; '.join('(%d, %d)' % e for e in es) + ']') if es else '(@nil (nat * nat))'

        def options(g):
            rem = removed(g)
            if not rem:
                return [('(@None (nat * nat))', '(@nil (nat * nat))')]
            return [('(Some (%d, %d))' % e, pr([x for x in rem if x != e])) for e in rem]
        o1, o2 = options(b1), options(b2)
        if len(o1) * len(o2) * 4 > 256:
            return None
        coins = ['[(0, 0, true)]', '[(0, 0, false)]']
        return ['(XSubgraph (mkSub %s %s %s %s %s %s))' % (f1, c1, f2, c2, k1, k2)
                for f1, c1 in o1 for f2, c2 in o2 for k1 in coins for k2 in coins]
    return None


# ----------------------------------------------------------------------------------------
# case generation
# ----------------------------------------------------------------------------------------
def mutation_spec(rng, fn, par, labels=None):
    n = len(par)
    ntypes = rng.randint(1, 3)
    advice = rng.choice(list(ADVICE))
    none_p = rng.choice([0.0, 0.0, 0.35])
    rgf = rng.choice(['own', 'own', 'default'])
    return {'fn': fn, 'par': par,
            'labels': labels or random_labels(rng, n, rng.randint(1, 3), data_source=(advice == 'with_direct_children')),
            'md': rng.randint(1, 6), 'min_ar': rng.randint(1, 2), 'max_ar': rng.randint(2, 4), 'ntypes': ntypes,
            'none_p': none_p, 'advice': advice, 'attempts': rng.choice([1, 3, 100]), 'rgf': rgf,
            'strength': rng.choice(['weak', 'mean', 'strong']), 'share': rng.choice(['none', 'ctor', 'setter']),
            'gclass': rng.choice(['plain', 'plain', 'journal', 'optsub']), 'reseed': rng.random() < 0.4,
            'seed': rng.randrange(1 << 30)}


# DAGs with a skip edge (root <- mid <- src plus root <- src, both parent orders), diamonds with a
# shortcut, a ladder: simple_mutation walks the OLD parent lists of replaced nodes, so a node is met
# again after it was replaced; with MutationStrengthEnum.strong every met node is replaced
SKIP_SHAPES = [
    [[1, 2], [2], []], [[2, 1], [2], []],
    [[1, 2, 3], [3], [3], []], [[3, 1, 2], [3], [3], []], [[1, 3, 2], [3], [3], []],
    [[1, 3], [2, 3], [3], []], [[3, 1], [3, 2], [3], []],
    [[1, 2], [2, 3], [3, 4], [4], []], [[2, 1], [3, 2], [4, 3], [4], []],
    [[1, 2], [3], [3, 1], []],
]


# siblings with one parent set: the donor's nodes_from is handed to the sibling (see build)
SHARED_SHAPES = [
    [[1, 2], [4], [3], [4], []],            # r <- b, e ; b <- a ; e <- c ; c <- a   (b and c share [a])
    [[1, 2], [3], [3], []],                 # diamond
    [[1, 2], [3, 4], [3, 4], [], []],       # two shared parents
    [[1, 2, 3], [4], [4], [4], []],         # three siblings
    [[2], [2], []],                         # two sinks with one parent
    [[1], [2, 3], [4], [4], []],            # shared deeper down
]


def random_graph_spec(rng, nmax=10):
    n = rng.randint(1, nmax)
    if rng.random() < 0.5:
        return random_valid_dag(rng, n)
    return random_dag(rng, n, rng.choice([0.15, 0.3, 0.6]))


def crossover_spec(rng, fn, par, par2=None):
    rel = rng.choice(['ind', 'copy', 'mutcopy'])
    k = rng.randint(1, 3)
    spec = {'fn': fn, 'par': par, 'labels': random_labels(rng, len(par), k), 'rel': rel, 'md': rng.randint(1, 6),
            'share': rng.choice(['none', 'ctor', 'setter']),
            'gclass': rng.choice(['plain', 'plain', 'journal', 'optsub']), 'reseed': rng.random() < 0.4,
            'inplace': (False if fn == 'subtree_crossover' and rng.random() < 0.4 else None),
            'seed': rng.randrange(1 << 30), 'premut': rng.choice(['single_change', 'single_edge', 'single_add',
                                                                   'single_drop', 'tree_growth'])}
    if rel == 'ind':
        p2 = par2 if par2 is not None else random_graph_spec(rng, 8)
        spec['par2'] = p2
        spec['labels2'] = random_labels(rng, len(p2), k)
    return spec


def classify_violation(kind, spec, info):
    """no known finding is attached to C17 (the defects found while building were repaired in /repo)"""
    return None


MUT_FN = 'fun c => match c with (k, kn, s, cs, o) => mut_check k kn s cs o end'
CX_FN = 'fun c => match c with (kn, s, cs, o) => cx_check kn s cs o end'


def evaluate(ctx, group, kind, specs):
    terms, metas, term_of = [], [], {}
    for spec in specs:
        term, info = (run_mutation_case if kind == 'mut' else run_crossover_case)(spec)
        if term is None and info.get('copy_failed'):
            ctx.error(group, 'copy.deepcopy of a valid input graph raised %s (spec %r)' % (info['copy_failed'], spec))
            continue
        if term is None:
            ctx.count(group, key=repr(sorted(spec.items())), nontrivial=False, fn=spec['fn'], premutation='ill-formed')
            ctx.violate(group, {'kind': kind, 'spec': spec, 'info': info},
                        'the built-in mutation %s applied to a deepcopy returned an ill-formed or cyclic graph' % spec['premut'])
            continue
        terms.append(term)
        metas.append((spec, info))
        term_of[id(spec)] = term
    res = ctx.coq_cases(group, REQ, MUT_FN if kind == 'mut' else CX_FN, terms, 3, shard=250, preamble=PRE,
                        case_ty=('mkind * list nat * state * list mcall * obs' if kind == 'mut'
                                 else 'list nat * cstate * list xcall * cobs'))
    for (spec, info), (ag, ho, dom) in zip(metas, res):
        modelled = info.get('cands') is not None
        ctx.count(group, key=repr(sorted(spec.items())), nontrivial=bool(dom and info['changed']), fn=spec['fn'],
                  nodes=info['n'], changed=info['changed'], raised=bool(info['raised']),
                  modelled=modelled, **({'relation': spec['rel']} if kind == 'cx' else {'advice': spec['advice']}))
        case = {'kind': kind, 'spec': spec, 'info': {k: v for k, v in info.items()}}
        if not (ag and ho):
            case['coq_term'] = term_of[id(spec)]
        if not dom:
            ctx.error(group, 'generated input outside the domain (not a non-empty well-formed DAG): %r' % (spec,))
        if kind == 'mut' and spec['fn'] == 'none' and not info['raised'] and not info['same_object']:
            ctx.violate(group, case, 'no_mutation returned another object than its argument')
        if not ho:
            what = 'raised %s' % info['raised'] if info['raised'] else 'result violates the property clauses'
            ctx.violate(group, case, '%s: %s' % (spec['fn'], what), finding_key=classify_violation(kind, spec, info))
        elif modelled and not ag and not info['raised']:
            ctx.disagree(group, case, 'model and implementation differ for %s' % spec['fn'])
    return list(zip(metas, res))


def run(ctx):
    rng = ctx.rng
    ctx.rule = ('one case = one call of a built-in mutation function (10 repository entries) or crossover function (6) '
                'of /repo on freshly built DAGs: all DAG shapes with <= 4 nodes (75 shapes, each listed sink-first, sink-last and '
                'sink-in-the-middle; nodes with equal parent sets optionally built from the live nodes_from of a sibling '
                'through the constructor or the setter) and random DAGs with <= 10 nodes (valid single-sink with shared ancestors, and merely '
                'well-formed: several sinks, isolated nodes) x max_depth 1..6 x arity bounds x node factories with '
                '1..3 node types (35% of them answering None at random) x own / repository random graph factory x the five '
                'RemoveType advices x attempts 1/3/100 x mutation strength weak/mean/strong x seeds; simple_mutation additionally on '
                '10 skip-edge / shortcut-diamond / ladder DAGs (both parent orders) x 3 strengths x 1..3 node types; crossovers on independent pairs, on deepcopies and on '
                'mutated deepcopies of one ancestor (shared uids); every mutation also with the repository DefaultOptNodeFactory built from a '
                'list / tuple / generator / map / iterator / set / frozenset / dict / dict keys / dict values of node types. distinct = distinct call specification; '
                'non-trivial = input in the domain and the call changed the graph')
    ctx.trusted_extra = [
        'choice inference: the random decisions of a function are reconstructed from our own node factory / random '
        'graph factory / advisor callbacks and from the before/after difference of the snapshots',
        'modelled, not verified: copy.deepcopy (isomorphic fresh objects keeping uids), uuid4 (fresh uids), the depth '
        'tests of single_edge / single_add / replace_subtrees and the `new_graph == graph` test (choices: the property '
        'does not speak about depth), the data_source text filter of single_drop (oracle), products of the node factory '
        '(new parentless node) and of the random graph factory (any fresh single-sink DAG)',
        'subgraph_crossover: the pairs cut by its while loop are inferred as the links that disappeared from each parent '
        '(any of them may be the first one, order irrelevant); the search for shortest simple paths itself is not modelled',
    ]
    shapes = [p for n in range(1, 5) for p in small_dags(n)]
    # ---- mutations: every small shape x every function, then random graphs
    m_small = []
    reps = ctx.budget(0, 5)       # random listings on top of sink-first / sink-last / sink-in-the-middle
    for fn in MUTATIONS:
        for par in shapes:
            for lst in listings(par) + [permute(rng, par) for _ in range(reps)]:
                m_small.append(mutation_spec(rng, fn, lst))
    evaluate(ctx, 'mutations-small', 'mut', m_small)
    ctx.set_exhaustive('mutations-small', True)
    # ---- graphs in which a node was built from another node's live nodes_from (constructor / setter)
    m_sh, c_sh = [], []
    for par in SHARED_SHAPES:
        for lst in listings(par):
            for share in ('ctor', 'setter'):
                for fn in MUTATIONS:
                    for _ in range(ctx.budget(1, 3)):
                        spec = mutation_spec(rng, fn, lst)
                        spec['share'] = share
                        m_sh.append(spec)
                for fn in CROSSOVERS:
                    spec = crossover_spec(rng, fn, lst, par2=rng.choice(SHARED_SHAPES))
                    spec['share'] = share
                    c_sh.append(spec)
    evaluate(ctx, 'shared-parents', 'mut', m_sh)
    evaluate(ctx, 'shared-parents-cx', 'cx', c_sh)
    # ---- simple_mutation on skip-edge DAGs x every strength x 1..3 node types
    m_skip = []
    for par in SKIP_SHAPES:
        for strength in ('weak', 'mean', 'strong'):
            for ntypes in (1, 2, 3):
                for k in range(ctx.budget(2, 8)):
                    spec = mutation_spec(rng, 'simple', par if k % 2 == 0 else permute(rng, par))
                    spec['strength'], spec['ntypes'] = strength, ntypes
                    spec['none_p'] = 0.0 if k < 1 else spec['none_p']
                    m_skip.append(spec)
    evaluate(ctx, 'simple-skip-edges', 'mut', m_skip)
    m_rand = []
    for _ in range(ctx.budget(120, 4500)):
        par = random_graph_spec(rng)
        for fn in MUTATIONS:
            m_rand.append(mutation_spec(rng, fn, par))
    out = evaluate(ctx, 'mutations-random', 'mut', m_rand)
    for (spec, info), r in out[:2]:
        ctx.sample({'spec': spec, 'info': info, 'agree,holds,domain': r})
    # ---- crossovers
    c_small = []
    for fn in CROSSOVERS:
        for par in shapes:
            for lst in listings(par) + [permute(rng, par) for _ in range(reps)]:
                c_small.append(crossover_spec(rng, fn, lst, par2=rng.choice(listings(rng.choice(shapes)))))
    evaluate(ctx, 'crossovers-small', 'cx', c_small)
    c_rand = []
    for _ in range(ctx.budget(90, 3000)):
        par = random_graph_spec(rng, 8)
        for fn in CROSSOVERS:
            c_rand.append(crossover_spec(rng, fn, par))
    out = evaluate(ctx, 'crossovers-random', 'cx', c_rand)
    for (spec, info), r in out[:2]:
        ctx.sample({'spec': spec, 'info': info, 'agree,holds,domain': r})
    # ---- the repository's random graph factory on a node factory that may answer None
    d = []
    for _ in range(ctx.budget(10, 60)):
        spec = mutation_spec(rng, rng.choice(['tree_growth', 'growth', 'local_growth']), random_graph_spec(rng, 5))
        spec['rgf'], spec['none_p'] = 'default-none', 0.35
        d.append(spec)
    evaluate(ctx, 'default-rgf-none', 'mut', d)
    # ---- the repository's DefaultOptNodeFactory built from every legal kind of Iterable[str]
    fc = []
    for container in CONTAINERS:
        for fn in MUTATIONS:
            for k in range(ctx.budget(3, 12)):
                par = rng.choice(SKIP_SHAPES + SHARED_SHAPES) if k == 0 else random_graph_spec(rng, 6)
                spec = mutation_spec(rng, fn, par)
                spec['container'], spec['none_p'] = container, 0.0
                spec['ntypes'] = rng.randint(1, 3)
                fc.append(spec)
    evaluate(ctx, 'factory-containers', 'mut', fc)
    canary(ctx)


def canary(ctx):
    """a deliberately wrong observation: no_mutation reported to have relabelled a node"""
    ctx.canaries += 1
    spec = {'fn': 'none', 'par': [[1], []], 'labels': ['a', 'b'], 'md': 3, 'min_ar': 1, 'max_ar': 2, 'ntypes': 1,
            'none_p': 0.0, 'advice': 'node_rewire', 'attempts': 1, 'rgf': 'own', 'seed': 1}
    term, info = run_mutation_case(spec)
    good = ctx.coq_cases('canary', REQ, MUT_FN, [term], 3, preamble=PRE)[0]
    bad_term = term.replace('(OOk [(mkNode 0 0 ', '(OOk [(mkNode 0 1 ', 1)
    assert bad_term != term
    bad = ctx.coq_cases('canary', REQ, MUT_FN, [bad_term], 3, preamble=PRE)[0]
    if good == (True, True, True) and bad[0] is False and bad[1] is False:
        ctx.canaries_caught += 1


def replay(ctx, payload):
    """uuid4 values (and with them set / hash orders inside GOLEM) differ from run to run, so a
    recorded call is re-run with its own seed and a few neighbouring seeds"""
    v = payload.get('violation') or payload.get('first_disagreement') or payload
    case = v.get('case') if isinstance(v, dict) else None
    if not case or 'spec' not in case:
        return
    specs = []
    for k in range(6):
        sp = dict(case['spec'])
        sp['seed'] = sp['seed'] + k
        specs.append(sp)
    evaluate(ctx, 'replay', case['kind'], specs)
