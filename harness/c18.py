"""C18 - adapters translate graphs and functions faithfully.
Implementation: golem.core.adapter.{adapter, nx_adapter, adapt_registry}.
Model: coq/theories/Adapter/Adapter.v (agree_xxx / holds_xxx oracles of Part 5)."""
import collections
import collections.abc
import functools
import types

import networkx as nx
from networkx.algorithms.isomorphism import DiGraphMatcher

from common import c_bool, c_list, c_str, c_Z
from common import c_nat as _c_nat

from golem.core.adapter.adapt_registry import AdaptRegistry, register_native
from golem.core.adapter.adapter import DirectAdapter, IdentityAdapter
from golem.core.adapter.nx_adapter import BaseNetworkxAdapter, DumbNetworkxAdapter
from golem.core.optimisers.graph import OptGraph, OptNode
from golem.core.optimisers.opt_history_objects.generation import Generation
from golem.core.optimisers.opt_history_objects.individual import Individual

REQ = ['Adapter.Adapter']


def c_nat(n):
    return 'NF' if n == N0 else _c_nat(n)
N0 = 200            # bound of the identities of input objects; new objects are reported as N0
PRE = 'Definition NF : nat := %d%%nat.' % N0   # one constant instead of a 200-fold S(..) numeral per occurrence


class MyG(OptGraph):
    """domain graph class of DirectAdapter(MyG, MyN)"""


class MyN(OptNode):
    pass


class SubG(OptGraph):
    """a subclass of OptGraph that is nobody's domain class"""


class JournalG(OptGraph):
    """domain graph whose postprocess_nodes callback is a bound method of the graph itself"""

    def __init__(self, nodes=()):
        self.journal = []
        super().__init__(nodes, postprocess_nodes=self._record)

    def _record(self, graph, nodes):
        self.journal.append(len(nodes))


class Counter:
    """a stateful callable used as postprocess_nodes"""

    def __init__(self):
        self.calls = 0

    def __call__(self, graph, nodes):
        self.calls += 1


class CounterG(OptGraph):
    def __init__(self, nodes=()):
        self.counter = Counter()
        super().__init__(nodes, postprocess_nodes=self.counter)


def plain_post(graph, nodes):
    return None


class FunG(OptGraph):
    def __init__(self, nodes=()):
        super().__init__(nodes, postprocess_nodes=plain_post)


DOMAIN_CLS = {True: MyG, 'journal': JournalG, 'counter': CounterG, 'fun': FunG}


# ----------------------------------------------------------------------------------------
# identities
# ----------------------------------------------------------------------------------------
class Ids:
    """numbering of the mutable objects of an input (keeps them alive)"""

    def __init__(self):
        self.m = {}
        self.keep = []
        self.n = 0

    def new(self, *objs):
        k = self.n
        self.n += 1
        for o in objs:
            self.m[id(o)] = k
            self.keep.append(o)
        assert self.n < N0
        return k

    def of(self, *objs):
        return min(self.m.get(id(o), N0) for o in objs)


def number_value(v, ids):
    if isinstance(v, list):
        ids.new(v)
        for x in v:
            number_value(x, ids)
    elif isinstance(v, dict):
        ids.new(v)
        for x in v.values():
            number_value(x, ids)


def number_nx(G, ids):
    for k in G.nodes:
        d = G.nodes[k]
        ids.new(d)
        for v in d.values():
            if isinstance(v, OptNode):
                continue
            number_value(v, ids)


def number_opt(g, ids):
    ids.new(g, getattr(g, 'operator', g), g.nodes)
    if 'counter' in g.__dict__:
        ids.new(g.counter)
    for nd in g.nodes:
        ids.new(nd, nd.content)
        number_value(nd.content.get('name'), ids)
        p = nd.content.get('params')
        if p is not None:
            number_value(p, ids)
        ids.new(nd.nodes_from)


# ----------------------------------------------------------------------------------------
# observation -> Coq terms
# ----------------------------------------------------------------------------------------
def value_coq(v, ids):
    if v is None:
        return 'PNone'
    if isinstance(v, bool):
        return '(PBool %s)' % c_bool(v)
    if isinstance(v, int):
        return '(PInt %s)' % c_Z(v)
    if isinstance(v, str):
        return '(PStr %s)' % c_str(v)
    if isinstance(v, list):
        return '(PList %s %s)' % (c_nat(ids.of(v)), c_list([value_coq(x, ids) for x in v], 'value'))
    if isinstance(v, dict):
        return '(PDict %s %s)' % (c_nat(ids.of(v)), items_coq(v, ids))
    raise TypeError('unsupported attribute value %r' % (v,))


def items_coq(d, ids):
    return c_list(['(%s, %s)' % (c_str(k), value_coq(x, ids)) for k, x in d.items()], '(string * value)')


def node_coq(nd, ids, pos, node_cls):
    """pos: uid -> number"""
    p = nd.content.get('params')
    params = '(@None (nat * attrs))' if p is None else '(Some (%s, %s))' % (c_nat(ids.of(p)), items_coq(p, ids))
    cls = 0 if type(nd) is OptNode else (1 if type(nd) is node_cls else 2)
    return '(mkN %s %s %s %s %s %s %s)' % (
        c_nat(ids.of(nd, nd.content)), c_nat(pos[nd.uid]), c_nat(cls), value_coq(nd.content.get('name'), ids),
        params, c_nat(ids.of(nd.nodes_from)), c_list([c_nat(pos[q.uid]) for q in nd.nodes_from], 'nat'))


def positions(g):
    return {nd.uid: i for i, nd in enumerate(g.nodes)}


def opt_coq(g, ids, pos=None, node_cls=MyN):
    pos = pos or positions(g)
    return c_list([node_coq(nd, ids, pos, node_cls) for nd in g.nodes], 'onode')


def post_coq(g, ids, kind, target=None):
    """the postprocess_nodes callback; kind is known from how the graph was built; target: identity of the
    object an edit of g writes to (default: the graph's own / its own counter)"""
    if kind == 'journal':
        return '(PostBound %s)' % c_nat(ids.of(g, g.operator, g.nodes) if target is None else target)
    if kind == 'counter':
        return '(PostObj %s)' % c_nat(ids.of(g.counter) if target is None else target)
    if kind == 'fun':
        return '(PostFun %s)' % c_nat(0)
    return 'PostDefault'


def cgraph_coq(g, ids, pos, graph_cls=MyG, node_cls=MyN, post='PostDefault'):
    cls = 0 if type(g) is OptGraph else (1 if type(g) is graph_cls else 2)
    return '(mkC %s %s %s %s)' % (c_nat(ids.of(g, getattr(g, 'operator', g), g.nodes)), c_nat(cls), post,
                                  opt_coq(g, ids, pos, node_cls))


def key_coq(k, pos=None):
    if pos is not None:
        return '(KUid %s)' % c_nat(pos[k])
    return '(KStr %s)' % c_str(k)


def nx_edges(G):
    """canonical edge listing: for each node (in node order) its predecessors in insertion order"""
    return [(u, v) for v in G.nodes for u in G.pred[v]]


def nx_coq(G, ids, pos=None, edges=None):
    nodes = c_list(['(%s, (%s, %s))' % (key_coq(k, pos), c_nat(ids.of(G.nodes[k])), items_coq(G.nodes[k], ids))
                    for k in G.nodes], '(key * nxattrs)')
    es = nx_edges(G) if edges is None else edges
    return '(mkG %s %s)' % (nodes, c_list(['(%s, %s)' % (key_coq(u, pos), key_coq(v, pos)) for u, v in es], '(key * key)'))


def dumb_nx_coq(G, ids, pos, node_cls=MyN):
    nodes = c_list(['(%s, %s)' % (key_coq(k, pos), node_coq(G.nodes[k]['data'], ids, pos, node_cls)) for k in G.nodes],
                   '(key * onode)')
    return '(mkG %s %s)' % (nodes, c_list(['(%s, %s)' % (key_coq(u, pos), key_coq(v, pos)) for u, v in nx_edges(G)],
                                          '(key * key)'))


def canon_value(v):
    """type-strict canonical form (python == identifies True and 1)"""
    if isinstance(v, dict):
        return ('d',) + tuple((k, canon_value(x)) for k, x in v.items())
    if isinstance(v, list):
        return ('l',) + tuple(canon_value(x) for x in v)
    return (type(v).__name__, v)


def canon_attrs(d):
    return tuple(sorted((k, canon_value(v)) for k, v in d.items()))


# ----------------------------------------------------------------------------------------
# generators
# ----------------------------------------------------------------------------------------
WORDS = ['a', 'b', 'c', 'lr', 'knn', 'pca', 'x1', 'rf', 'n', 'k', 'alpha', 'depth']
PKEYS = ['a', 'b', 'k', 'alpha', 'depth', 'w']


def gen_value(r, depth=0):
    c = r.random()
    if depth >= 2 or c < 0.55:
        return r.choice([None, True, False, 0, 1, 7, -3, 'x', '', 'lr', 12345])
    if c < 0.8:
        return [gen_value(r, depth + 1) for _ in range(r.randint(0, 3))]
    return {k: gen_value(r, depth + 1) for k in r.sample(PKEYS, r.randint(0, 3))}


def gen_params(r, allow_name=False):
    d = {k: gen_value(r) for k in r.sample(PKEYS, r.choice([0, 0, 1, 1, 2, 3]))}
    if allow_name and r.random() < 0.5:
        items = list(d.items())
        items.insert(r.randint(0, len(items)), ('name', r.choice(['zz', '', None, 5])))
        d = dict(items)
    return d


def gen_name(r, odd):
    """a node name; odd: also values outside the guard"""
    if odd and r.random() < 0.4:
        return r.choice(['', None, 5, 0, True, -12])
    return r.choice(WORDS)


def gen_edges(r, n, cyclic):
    pairs = [(i, j) for i in range(n) for j in range(n)]
    if not cyclic:
        pairs = [(i, j) for i, j in pairs if i < j]
    dens = r.choice([0.0, 0.15, 0.3, 0.5])
    es = [p for p in pairs if r.random() < dens]
    r.shuffle(es)
    return es


def gen_nx_desc(r, nmax, odd):
    """JSON description of a NetworkX digraph: nodes [(key, attrs)], edges [(i, j)] in insertion order"""
    n = r.choice([0, 1, 1, 2, 2, 3, 3, 4, 5, 6, 8, nmax])
    keys = r.sample(['n%d' % i for i in range(30)] + ['u', 'v', 'w', 'name', ''], n)
    nodes = []
    for k in keys:
        a = gen_params(r)
        if r.random() < 0.7:
            items = list(a.items())
            items.insert(r.randint(0, len(items)), ('name', gen_name(r, odd)))
            a = dict(items)
        nodes.append([k, a])
    perm = list(range(n))
    if r.random() < 0.5:
        r.shuffle(perm)       # edges need not follow the listing order
    cyclic = r.random() < 0.5
    es = [[perm[i], perm[j]] for i, j in gen_edges(r, n, cyclic)]
    return {'nodes': nodes, 'edges': es, 'cyclic': cyclic, 'odd': odd}


def build_nx(desc):
    import copy
    G = nx.DiGraph()
    for k, a in desc['nodes']:
        G.add_node(k)
        G.nodes[k].update(copy.deepcopy(a))
    es = []
    for i, j in desc['edges']:
        u, v = desc['nodes'][i][0], desc['nodes'][j][0]
        G.add_edge(u, v)
        es.append((u, v))
    return G, es


def gen_opt_desc(r, nmax, odd):
    """JSON description of an internal graph: nodes [(name | '<absent>', params | None)], parents"""
    n = r.choice([0, 1, 1, 2, 2, 3, 3, 4, 5, 6, 8, nmax])
    nodes = []
    for _ in range(n):
        name = gen_name(r, odd)
        if r.random() < 0.1:
            name = '<absent>'
        params = None if r.random() < 0.3 else gen_params(r, allow_name=odd and r.random() < 0.3)
        nodes.append([name, params])
    cyclic = r.random() < 0.4
    parents = [[] for _ in range(n)]
    for i, j in gen_edges(r, n, cyclic):
        parents[j].append(i)      # i is a parent of j
    return {'nodes': nodes, 'parents': parents, 'cyclic': cyclic, 'odd': odd}


def build_opt(desc, graph_cls=OptGraph, node_cls=OptNode):
    import copy
    nds = []
    for name, params in desc['nodes']:
        content = {}
        if name != '<absent>':
            content['name'] = name
        if params is not None:
            content['params'] = copy.deepcopy(params)
        nds.append(node_cls(content))
    for nd, ps in zip(nds, desc['parents']):
        nd.nodes_from = [nds[i] for i in ps]
    return graph_cls(nds)


# ----------------------------------------------------------------------------------------
# conversions
# ----------------------------------------------------------------------------------------
def find_nx_iso(G, G2, pos):
    gm = DiGraphMatcher(G, G2, node_match=lambda a, b: canon_attrs(a) == canon_attrs(b))
    if gm.is_isomorphic():
        return [(k, pos[gm.mapping[k]]) for k in G.nodes]
    return []


def opt_as_nx(g):
    H = nx.DiGraph()
    for i, nd in enumerate(g.nodes):
        H.add_node(i, name=nd.name, params=canon_attrs(nd.parameters))
    pos = positions(g)
    for nd in g.nodes:
        for p in nd.nodes_from:
            H.add_edge(pos[p.uid], pos[nd.uid])
    return H


def find_opt_iso(g, g2):
    gm = DiGraphMatcher(opt_as_nx(g), opt_as_nx(g2), node_match=lambda a, b: a == b)
    if gm.is_isomorphic():
        return sorted(gm.mapping.items())
    return []


def phi_coq(phi):
    return c_list(['(%s, (KUid %s))' % (key_coq(k), c_nat(u)) for k, u in phi], '(key * key)')


def psi_coq(psi):
    return c_list(['(%s, %s)' % (c_nat(a), c_nat(b)) for a, b in psi], '(nat * nat)')


NX_TY = 'nxg nxattrs * optg * optg * nxg nxattrs * list (key * key)'
NX_FN = ('fun c => match c with (G, go, gi, Go, phi) => [agree_nx_adapt %d G go; agree_nx_restore %d gi Go; '
         'fresh_opt %d go; fresh_nx %d Go; holds_nx_rt G Go phi] end' % (N0, N0, N0, N0)).replace('%d' % N0, 'NF')


def nx_pipeline(desc, tamper=False, ad=None):
    """G -> adapt -> restore with BaseNetworkxAdapter; returns the Coq case and facts"""
    ad = ad or BaseNetworkxAdapter()
    G, es = build_nx(desc)
    ids = Ids()
    number_nx(G, ids)
    G_c = nx_coq(G, ids, edges=es)
    g = ad.adapt(G)
    go_c = opt_coq(g, ids)
    # G must not have been modified
    unchanged = nx_coq(G, ids, edges=es) == G_c
    ids2 = Ids()
    number_opt(g, ids2)
    gi_c = opt_coq(g, ids2)
    G2 = ad.restore(g)
    pos = positions(g)
    if tamper:
        k = next(iter(G2.nodes))
        G2.nodes[k]['tampered'] = 1
    Go_c = nx_coq(G2, ids2, pos)
    shares_G = any(ids.of(G2.nodes[k]) < N0 for k in G2.nodes) or G2 is G
    phi = find_nx_iso(G, G2, pos)
    case = '(%s, %s, %s, %s, %s)' % (G_c, go_c, gi_c, Go_c, phi_coq(phi))
    return case, {'unchanged': unchanged and not shares_G, 'n': len(desc['nodes']), 'm': len(desc['edges'])}


OPT_TY = 'optg * nxg nxattrs * nxg nxattrs * optg * list (nat * nat)'
OPT_FN = ('fun c => match c with (g, Go, Gi, go, psi) => [agree_nx_restore %d g Go; agree_nx_adapt %d Gi go; '
          'fresh_nx %d Go; fresh_opt %d go; holds_opt_rt g go psi] end' % (N0, N0, N0, N0)).replace('%d' % N0, 'NF')


def opt_pipeline(desc, ad=None):
    """g -> restore -> adapt with BaseNetworkxAdapter"""
    ad = ad or BaseNetworkxAdapter()
    g = build_opt(desc)
    ids = Ids()
    number_opt(g, ids)
    pos = positions(g)
    g_c = opt_coq(g, ids)
    G = ad.restore(g)
    Go_c = nx_coq(G, ids, pos)
    unchanged = opt_coq(g, ids) == g_c
    ids2 = Ids()
    number_nx(G, ids2)
    Gi_c = nx_coq(G, ids2, pos)
    g2 = ad.adapt(G)
    go_c = opt_coq(g2, ids2)
    psi = find_opt_iso(g, g2)
    case = '(%s, %s, %s, %s, %s)' % (g_c, Go_c, Gi_c, go_c, psi_coq(psi))
    return case, {'unchanged': unchanged, 'n': len(g.nodes)}


DUMB_TY = 'optg * nxg onode * optg'
DUMB_FN = 'fun c => match c with (g, Go, go) => [agree_opt_dumb NF g Go go; holds_opt_dumb g go] end'


def dumb_pipeline(desc, ad=None):
    ad = ad or DumbNetworkxAdapter()
    g = build_opt(desc)
    ids = Ids()
    number_opt(g, ids)
    pos = positions(g)
    g_c = opt_coq(g, ids)
    G = ad.restore(g)
    Go_c = dumb_nx_coq(G, ids, pos)
    g2 = ad.adapt(G)
    go_c = opt_coq(g2, ids, pos)
    return '(%s, %s, %s)' % (g_c, Go_c, go_c), {'n': len(g.nodes)}


DIRECT_TY = 'nat * nat * cgraph * cgraph * bool * bool'
DIRECT_FN = ('fun c => match c with (gc, nc, x, y, i, o) => [agree_direct NF gc nc x y; '
             'holds_direct_edits NF gc nc x y i o] end')


def _state(g, ids, pos):
    """every observable of a graph incl. what its callbacks write to"""
    return (opt_coq(g, ids, pos), type(g).__name__, list(g.__dict__['journal']) if 'journal' in g.__dict__ else None,
            g.counter.calls if 'counter' in g.__dict__ else None)


def _edit(g):
    """a structural edit that fires postprocess_nodes; False when there is nothing to edit"""
    if not g.nodes:
        return False
    g.delete_node(g.nodes[0])
    return True


def _direct_step(convert, x, kind, gc, graph_cls):
    """one conversion x -> y, then edits: of y (x must not notice, y's own callback must fire on y), of x
    (y must not notice).  Returns the Coq case, y, facts."""
    ids = Ids()
    number_opt(x, ids)
    pos = positions(x)
    x_c = cgraph_coq(x, ids, pos, graph_cls, post=post_coq(x, ids, kind))
    y = convert(x)
    assert y is not x
    y_nodes = opt_coq(y, ids, pos)
    y_gid = ids.of(y, y.operator, y.nodes)
    y_cls = 0 if type(y) is OptGraph else (1 if type(y) is graph_cls else 2)
    unchanged = cgraph_coq(x, ids, pos, graph_cls, post=post_coq(x, ids, kind)) == x_c
    # edit the output
    sx, sy = _state(x, ids, pos), _state(y, ids, pos)
    target = N0
    in_ok = out_ok = True
    try:
        edited = _edit(y)
    except Exception:
        edited = False
    if edited:
        in_ok = _state(x, ids, pos) == sx
        if kind == 'journal':
            if x.journal != sx[2]:
                target = ids.of(x, x.operator, x.nodes)
            in_ok = in_ok and len(y.journal) == len(sy[2]) + 1
        elif kind == 'counter':
            if x.counter.calls != sx[3]:
                target = ids.of(x.counter)
            in_ok = in_ok and y.counter.calls == sy[3] + 1
        # ... and the input
        sy2 = _state(y, ids, pos)
        try:
            if _edit(x):
                out_ok = _state(y, ids, pos) == sy2
        except Exception:
            pass
    y_c = '(mkC %s %s %s %s)' % (c_nat(y_gid), c_nat(y_cls), post_coq(y, ids, kind, target), y_nodes)
    case = '(%s, %s, %s, %s, %s, %s)' % (c_nat(gc), c_nat(gc), x_c, y_c, c_bool(in_ok), c_bool(out_ok))
    return case, y, {'unchanged': unchanged, 'edited': edited, 'in_ok': in_ok, 'out_ok': out_ok}


def direct_pipeline(desc, sub):
    """two single steps: adapt(g) and restore(adapt(g)), each followed by edits on both sides.
    sub: False = DirectAdapter(); True = DirectAdapter(MyG, MyN); 'journal' / 'counter' / 'fun' = domain graph
    class whose postprocess_nodes is a bound method of the graph / a stateful callable / a plain function"""
    graph_cls = DOMAIN_CLS.get(sub, OptGraph)
    ad = DirectAdapter(graph_cls, MyN) if sub else DirectAdapter()
    kind = sub if isinstance(sub, str) else None
    g = build_opt(desc, graph_cls, MyN if sub else OptNode)
    n = len(g.nodes)
    c1, a, f1 = _direct_step(ad.adapt, g, kind, 0, graph_cls)
    c2, rr, f2 = _direct_step(ad.restore, a, kind, 1 if sub else 0, graph_cls)
    return [c1, c2], {'unchanged': f1['unchanged'] and f2['unchanged'], 'n': n, 'edited': f1['edited'] or f2['edited']}


IDENT_TY = 'cgraph * cgraph * cgraph'
IDENT_FN = 'fun c => match c with (g, a, r) => [agree_identity g a r] end'


def identity_pipeline(desc):
    ad = IdentityAdapter()
    g = build_opt(desc)
    ids = Ids()
    number_opt(g, ids)
    pos = positions(g)
    x_c = cgraph_coq(g, ids, pos)
    a = ad.adapt(g)
    r = ad.restore(g)
    return '(%s, %s, %s)' % (x_c, cgraph_coq(a, ids, pos), cgraph_coq(r, ids, pos)), {'same': a is g and r is g}


# ----------------------------------------------------------------------------------------
# wrapped calls
# ----------------------------------------------------------------------------------------
KINDS = ['ANx', 'ADumb', 'ADirectSub', 'ADirectDefault', 'AIdentity']


def make_adapter(kind):
    return {'ANx': BaseNetworkxAdapter, 'ADumb': DumbNetworkxAdapter, 'ADirectSub': lambda: DirectAdapter(MyG, MyN),
            'ADirectDefault': DirectAdapter, 'AIdentity': IdentityAdapter}[kind]()


EMPTY_TOK = 99      # token of the EMPTY graph (graphs define __len__, an empty one is falsy)


def make_graph(kind, cls, tok):
    """a graph object of class `cls` (relative to the adapter kind) whose structure encodes tok"""
    if tok == EMPTY_TOK:
        if cls == 'KOpt':
            return OptGraph()
        if cls == 'KSub':
            return SubG()
        return MyG() if kind == 'ADirectSub' else nx.DiGraph()
    name = 'tok%d' % tok
    if cls == 'KOpt':
        return OptGraph(OptNode(name, [OptNode('leaf')]))
    if cls == 'KSub':
        return SubG(OptNode(name, [OptNode('leaf')]))
    if kind == 'ADirectSub':
        return MyG(MyN(name, [MyN('leaf')]))
    G = nx.DiGraph()
    if kind == 'ADumb':
        a, b = OptNode(name), OptNode('leaf')
        G.add_node('r', data=a)
        G.add_node('l', data=b)
    else:
        G.add_node('r', name=name)
        G.add_node('l', name='leaf')
    G.add_edge('l', 'r')
    return G


def graph_token(obj):
    if isinstance(obj, nx.DiGraph):
        names = [(d['data'].name if 'data' in d else d.get('name', '')) for _, d in obj.nodes(data=True)]
    else:
        names = [nd.name for nd in obj.nodes]
    if not names:
        return EMPTY_TOK
    toks = [int(s[3:]) for s in names if s.startswith('tok')]
    assert len(toks) == 1 and len(names) == 2, names
    return toks[0]


def graph_class(kind, obj):
    if type(obj) is OptGraph:
        return 'KOpt'
    if kind == 'ADirectSub':
        if type(obj) is MyG:
            return 'KDom'
    elif type(obj) is nx.DiGraph:
        return 'KDom'
    if isinstance(obj, OptGraph):
        return 'KSub'
    raise TypeError('unexpected graph class %r' % type(obj))


SCALARS = [0, 5, -1, 2.5, '', 'abc', 'x', b'', {'k': 1}, {1, 2}, True, range(3), range(0), b'ab', 'tok1']


class MySeq(collections.abc.Sequence):
    """a user-defined Sequence (neither list nor tuple nor UserList)"""

    def __init__(self, items):
        self._items = list(items)

    def __getitem__(self, i):
        return self._items[i]

    def __len__(self):
        return len(self._items)

    def __repr__(self):
        return 'MySeq(%r)' % (self._items,)


# the other Sequence kinds; the number is the `kind` of VUserSeq
USEQ_KINDS = {'userlist': 1, 'generation': 2, 'deque': 3, 'myseq': 4}


def build_useq(name, items):
    if name == 'generation' and all(isinstance(x, Individual) for x in items):
        return Generation(items, generation_num=3, label='final_choices')
    if name == 'deque':
        return collections.deque(items)
    if name == 'myseq':
        return MySeq(items)
    return collections.UserList(items)


def build_val(kind, d):
    """description -> python object.  d: ['g', cls, tok] | ['i', cls, tok, m] | ['seq', [..]] | ['tup', [..]] |
    ['useq', kindname, [..]] | ['none'] | ['s', index]"""
    t = d[0]
    if t == 'useq':
        return build_useq(d[1], [build_val(kind, x) for x in d[2]])
    if t == 'g':
        return make_graph(kind, d[1], d[2])
    if t == 'i':
        return Individual(make_graph(kind, d[1], d[2]), metadata={'m': d[3]})
    if t == 'seq':
        return [build_val(kind, x) for x in d[1]]
    if t == 'tup':
        return tuple(build_val(kind, x) for x in d[1])
    if t == 'none':
        return None
    return SCALARS[d[1]]


def val_coq(kind, v):
    """canonical form of what a function received / returned, read off the python object"""
    if v is None:
        return 'VNone'
    if isinstance(v, Individual):
        return '(VInd %s %s %s)' % (graph_class(kind, v.graph), c_nat(graph_token(v.graph)), c_nat(v.metadata['m']))
    if isinstance(v, (nx.DiGraph, OptGraph)):
        return '(VGraph %s %s)' % (graph_class(kind, v), c_nat(graph_token(v)))
    if type(v) is list:
        return '(VSeq %s)' % c_list([val_coq(kind, x) for x in v], 'tval')
    if type(v) is tuple:
        return '(VTuple %s)' % c_list([val_coq(kind, x) for x in v], 'tval')
    for cls, name in ((Generation, 'generation'), (collections.UserList, 'userlist'), (collections.deque, 'deque'),
                      (MySeq, 'myseq')):
        if type(v) is cls:
            return '(VUserSeq %s %s)' % (c_nat(USEQ_KINDS[name]), c_list([val_coq(kind, x) for x in v], 'tval'))
    return '(VScalar %s)' % c_str(type(v).__name__ + ':' + repr(v))


def gen_graph_desc(r, classes):
    return ['g', r.choice(classes), EMPTY_TOK if r.random() < 0.12 else r.randint(0, 9)]


def gen_val_desc(r, classes, top=True):
    c = r.random()
    if c < 0.3:
        return gen_graph_desc(r, classes)
    if c < 0.38:
        return ['i', r.choice(classes), r.randint(0, 9), r.randint(0, 3)]
    if c < 0.5:
        return ['none']
    if c < 0.68 or not top:
        return ['s', r.randrange(len(SCALARS))]
    kind = r.choice(['seq', 'tup', 'useq'])
    n = r.choice([0, 1, 2, 3])
    c2 = r.random()
    inds = False
    if c2 < 0.4:
        cls = r.choice(classes)
        items = [['g', cls, r.randint(0, 9)] for _ in range(n)]
    elif c2 < 0.55:
        items = [['i', r.choice(classes), r.randint(0, 9), r.randint(0, 3)] for _ in range(n)]
        inds = True
    elif c2 < 0.8:
        items = [['s', r.randrange(len(SCALARS))] for _ in range(n)]
    else:  # heterogeneous, possibly with a nested sequence of graphs
        items = [gen_val_desc(r, classes, top=False) for _ in range(n)]
        if n and r.random() < 0.4:
            inner = [['g', r.choice(classes), r.randint(0, 9)] for _ in range(r.choice([1, 2]))]
            items[r.randrange(n)] = r.choice([['seq', inner], ['tup', inner], ['useq', 'deque', inner]])
    if kind == 'useq':
        name = r.choice(['userlist', 'deque', 'myseq', 'generation']) if (inds or n == 0) else \
            r.choice(['userlist', 'deque', 'myseq'])
        return ['useq', name, items]
    return [kind, items]


def gen_call_desc(r):
    kind = r.choice(KINDS)
    adapting = r.random() < 0.6
    classes = ['KOpt', 'KOpt', 'KDom', 'KDom', 'KSub']
    args = [gen_val_desc(r, classes) for _ in range(r.choice([0, 1, 1, 2, 3]))]
    kwargs = [[k, gen_val_desc(r, classes)] for k in r.sample(['graph', 'x', 'pop', 'flag'], r.choice([0, 0, 1, 2]))]
    c = r.random()
    if c < 0.3:
        raw = gen_graph_desc(r, classes)
    elif c < 0.5:
        raw = ['tup', [gen_val_desc(r, classes, top=(r.random() < 0.3)) for _ in range(r.choice([0, 1, 2, 3]))]]
    else:
        raw = gen_val_desc(r, classes)
    return {'kind': kind, 'adapting': adapting, 'args': args, 'kwargs': kwargs, 'raw': raw}


def is_plain(d):
    return d[0] in ('none', 's')


CALL_FN = 'fun c => [agree_call c; holds_call c]'


def run_call(desc, tamper=False):
    kind = desc['kind']
    ad = make_adapter(kind)
    args = [build_val(kind, d) for d in desc['args']]
    kwargs = {k: build_val(kind, d) for k, d in desc['kwargs']}
    raw = build_val(kind, desc['raw'])
    rec = []

    def domain_function(*a, **kw):
        rec.append((a, dict(kw)))
        return raw

    wrapped = ad.adapt_func(domain_function) if desc['adapting'] else ad.restore_func(domain_function)
    assert wrapped is not domain_function
    args_c = c_list([val_coq(kind, v) for v in args], 'tval')
    kw_c = c_list(['(%s, %s)' % (c_str(k), val_coq(kind, v)) for k, v in kwargs.items()], '(string * tval)')
    raw_c = val_coq(kind, raw)
    try:
        out = wrapped(*args, **kwargs)
        out_c = '(Ok %s)' % val_coq(kind, out)
        raised = False
    except AssertionError:
        raise
    except Exception:
        out, out_c, raised = None, '(@Raise tval)', True
    untouched = True
    if rec:
        a, kw = rec[0]
        inner_c = '(Ok (%s, %s))' % (c_list([val_coq(kind, v) for v in a], 'tval'),
                                     c_list(['(%s, %s)' % (c_str(k), val_coq(kind, v)) for k, v in kw.items()],
                                            '(string * tval)'))
        for d, v, w in zip(desc['args'], args, a):
            if is_plain(d) and v is not w:
                untouched = False
        for (k, d) in desc['kwargs']:
            if is_plain(d) and kwargs[k] is not kw[k]:
                untouched = False
        if len(a) != len(args) or list(kw) != list(kwargs):
            untouched = False
    else:
        inner_c = '(@Raise (list tval * list (string * tval)))'
    if not raised:
        if is_plain(desc['raw']) and out is not raw:
            untouched = False
        if desc['raw'][0] == 'tup' and type(out) is tuple and len(out) == len(raw):
            for d, v, w in zip(desc['raw'][1], raw, out):
                if is_plain(d) and v is not w:
                    untouched = False
    if tamper:
        out_c = '(Ok (VScalar "tampered"))'
    case = '(mkCall %s %s %s %s %s %s %s %s)' % (kind, c_bool(desc['adapting']), args_c, kw_c, inner_c, raw_c, out_c,
                                                c_bool(untouched))
    return case, {'raised': raised, 'called': bool(rec)}


# ----------------------------------------------------------------------------------------
# registry
# ----------------------------------------------------------------------------------------
def gen_term(r, nfun, depth=None):
    depth = r.choice([0, 0, 1, 1, 2, 3, 5]) if depth is None else depth
    t = ['f', r.randrange(nfun)]
    for _ in range(depth):
        t = [r.choice(['p', 'm']), t]
    return t


# ---- callable classes: ids of the objects of one family and their attribute lookup chains
#   20 Op (class), 21 SubOp(Op), 22 OtherOp (unrelated class); 30, 32 instances of Op, 31 of SubOp, 33 of OtherOp;
#   40 the function Op.__call__ (inherited by SubOp), 41 OtherOp.__call__
FAMILY_CHAIN = {20: [], 21: [20], 22: [], 30: [20], 31: [21, 20], 32: [20], 33: [22]}
CALL_FUNCTION = {30: 40, 31: 40, 32: 40, 33: 41}
ROOT_CLASSES = (20, 22)


def make_family(rec):
    """fresh classes per case: the native mark set on a class must not leak into other cases"""
    class Op:
        def __init__(self, *a):
            if a:                       # called as a callable by the adapter: Op(graph)
                rec.append(a[-1])

        def __call__(self, *a, **kw):
            rec.append(a[-1] if a else None)

    class SubOp(Op):
        pass

    class OtherOp:
        def __init__(self, *a):
            if a:
                rec.append(a[-1])

        def __call__(self, *a, **kw):
            rec.append(a[-1] if a else None)
    return {20: Op, 21: SubOp, 22: OtherOp, 30: Op(), 31: SubOp(), 32: Op(), 33: OtherOp()}


def term_coq(t):
    if t[0] == 'f':
        return '(CFun %s)' % c_nat(t[1])
    if t[0] == 'c':     # a class or an instance of the family
        return '(CInst %s %s)' % (c_nat(t[1]), c_list([c_nat(b) for b in FAMILY_CHAIN[t[1]]], 'nat'))
    if t[0] == 'bc':    # the bound method instance.__call__
        return '(CMethod (CFun %s))' % c_nat(CALL_FUNCTION[t[1]])
    if t[0] == 'w':     # closure handed out by adapt_func (True) / restore_func (False): ['w', id, adapting, inner]
        return '(CWrap %s %s %s)' % (c_nat(t[1]), c_bool(t[2]), term_coq(t[3]))
    return '(%s %s)' % ('CPartial' if t[0] == 'p' else 'CMethod', term_coq(t[1]))


class Holder:
    def method(self, *a, **kw):
        return None


import dataclasses  # noqa: E402


@dataclasses.dataclass
class EqOp:
    """a callable operator with VALUE equality (and therefore unhashable): two instances with equal fields
    are distinct objects that compare equal"""
    setting: str
    rec: list = dataclasses.field(default=None, compare=False, repr=False)

    def __call__(self, *a, **kw):
        if self.rec is not None:
            self.rec.append(a[-1] if a else None)


class HashEqOp:
    """the hashable flavour: __eq__ / __hash__ by value, equal instances also hash equally.  (A FROZEN dataclass
    cannot be registered at all: register_native raises FrozenInstanceError because the native mark is an
    attribute set on the callable - see docs/C18.md.)"""

    def __init__(self, setting, rec=None):
        self.setting, self.rec = setting, rec

    def __eq__(self, other):
        return type(other) is HashEqOp and other.setting == self.setting

    def __hash__(self):
        return hash(self.setting)

    def __call__(self, *a, **kw):
        if self.rec is not None:
            self.rec.append(a[-1] if a else None)


NFUN = 9     # 0..4 functions / callable object / lambda, 5 == 6 and 7 == 8 are pairs of equal callable objects
EQ_PAIRS = [(5, 6), (7, 8)]


def equal_objects(rec=None):
    a, b, c, d = EqOp('x', rec), EqOp('x', rec), HashEqOp('y', rec), HashEqOp('y', rec)
    assert a == b and a is not b and c == d and c is not d and hash(c) == hash(d)
    return [a, b, c, d]


class CallableObject:
    def __call__(self, *a, **kw):
        return None


def fresh_functions():
    def f0(*a, **kw):
        return None

    def f1(graph=None):
        return graph
    h = Holder()
    # the function underlying a real bound method, a callable object, a lambda
    return [f0, f1, types.FunctionType(Holder.method.__code__, globals(), 'method_copy'), CallableObject(),
            (lambda *a: None)] + equal_objects(), h


def build_term(t, funs, holder):
    if t[0] == 'f':
        return funs[t[1]]
    if t[0] in ('c', 'bc'):
        if not hasattr(holder, 'family'):
            holder.family = make_family(getattr(holder, 'rec', []))
        return holder.family[t[1]] if t[0] == 'c' else holder.family[t[1]].__call__
    inner = build_term(t[1], funs, holder)
    if t[0] == 'p':
        return functools.partial(inner, 1)
    # bound to the plain holder, or to one of two EQUAL holder objects
    selfs = [holder, _EQ_HOLDERS[0], _EQ_HOLDERS[1]]
    return types.MethodType(inner, selfs[len(repr(t)) % 3])


_EQ_HOLDERS = [EqOp('holder'), EqOp('holder')]


def gen_eq_ops(r):
    """histories about a pair of equal callable objects: one / both / neither registered, in any order,
    bare or wrapped"""
    a, b = r.choice(EQ_PAIRS)
    def w(i):
        t = ['f', i]
        for _ in range(r.choice([0, 0, 0, 1, 2])):
            t = [r.choice(['p', 'm']), t]
        return t
    ops = []
    for _ in range(r.choice([0, 1, 2, 2, 3, 4])):
        ops.append([r.choice(['reg', 'reg', 'reg', 'unreg']), w(r.choice([a, b]))])
    return ops, w(r.choice([a, b]))


def gen_registry_desc(r):
    nfun = NFUN
    c = r.random()
    if c < 0.25:
        ops, q = gen_eq_ops(r)
        return {'ops': ops, 'query': q, 'decorator': r.random() < 0.5}
    if c < 0.5:
        ops, q = gen_family_ops(r)
        return {'ops': ops, 'query': q, 'decorator': r.random() < 0.5}
    ops = []
    for _ in range(r.choice([0, 1, 1, 2, 3, 4])):
        ops.append([r.choice(['reg', 'reg', 'reg', 'unreg']), gen_term(r, nfun)])
    if ops and r.random() < 0.5:
        q = ['f', _underlying(ops[-1][1])]
        for _ in range(r.choice([0, 1, 2, 4])):
            q = [r.choice(['p', 'm']), q]
    else:
        q = gen_term(r, nfun)
    return {'ops': ops, 'query': q, 'decorator': r.random() < 0.5}


BASE_TERMS = ('f', 'c', 'bc', 'w')


def _cleanup(reg, objs, holder):
    """take every mark off again (classes before instances; an inherited-only mark makes unregister raise)"""
    fam = getattr(holder, 'family', {})
    extra = [fam[k] for k in (20, 21, 22) if k in fam] + [fam[k] for k in (30, 31, 32, 33) if k in fam] + \
        [fam[k].__call__ for k in (30, 33) if k in fam]
    for o in extra + list(objs):
        try:
            reg.unregister_native(o)
        except Exception:
            pass


def _underlying(t):
    while t[0] not in BASE_TERMS:
        t = t[1]
    return t[1]


def _base(t):
    while t[0] not in BASE_TERMS:
        t = t[1]
    return t


def may_unregister(t):
    """unregister_native on an object that only INHERITS the mark from its class raises AttributeError in the
    implementation (hasattr finds the class attribute, delattr on the instance fails): not generated"""
    b = _base(t)
    return b[0] != 'c' or b[1] in ROOT_CLASSES


def gen_family_term(r):
    c = r.random()
    t = ['c', r.choice([20, 21, 22])] if c < 0.3 else (['bc', r.choice([30, 31, 33])] if c < 0.45 else
                                                      ['c', r.choice([30, 31, 32, 33])])
    for _ in range(r.choice([0, 0, 0, 1, 2])):
        t = [r.choice(['p', 'm']), t]
    return t


def gen_family_ops(r):
    """histories about callable classes: the class / a subclass / an instance / a bound __call__ registered"""
    ops = []
    for _ in range(r.choice([1, 1, 2, 2, 3, 4])):
        t = gen_family_term(r)
        what = r.choice(['reg', 'reg', 'reg', 'unreg'])
        if what == 'unreg' and not may_unregister(t):
            what = 'reg'
        ops.append([what, t])
    return ops, gen_family_term(r)


REG_FN = 'fun c => match c with (ops, q, n, s) => [agree_registry ops q n s; holds_registry ops q n s] end'
REG_TY = 'list reg_op * callable * bool * bool'


def run_registry(desc, tamper=False):
    funs, holder = fresh_functions()
    reg = AdaptRegistry()
    raised = None
    native = same = False
    try:
        for op, t in desc['ops']:
            o = build_term(t, funs, holder)
            if op == 'reg':
                back = register_native(o) if desc['decorator'] else reg.register_native(o)
                if back is not o:
                    raised = 'register_native did not return its argument'
            else:
                reg.unregister_native(o)
        q = build_term(desc['query'], funs, holder)
        native = bool(AdaptRegistry.is_native(q))
        same = BaseNetworkxAdapter().adapt_func(q) is q
    except Exception as ex:   # the registry never raises on these callables
        raised = '%s: %s' % (type(ex).__name__, ex)
    finally:
        _cleanup(reg, funs, holder)
    if tamper:
        native = not native
    ops_c = c_list(['(%s %s)' % ('RegOp' if op == 'reg' else 'UnregOp', term_coq(t)) for op, t in desc['ops']], 'reg_op')
    return ('(%s, %s, %s, %s)' % (ops_c, term_coq(desc['query']), c_bool(native), c_bool(same)),
            {'native': native, 'raised': raised})


# ---- one adapter instance re-used after conversions that failed part-way
class Bomb:
    """an attribute value that cannot be deep-copied"""

    def __deepcopy__(self, memo):
        raise RuntimeError('cannot be copied')


def poison(ad, kind, r_nodes):
    """make one adapt() / restore() call on `ad` fail part-way; the exception is caught (returns its name)"""
    n = max(2, r_nodes)
    try:
        if kind == 'adapt_bomb':          # the LAST node cannot be converted: the first ones already were
            G = nx.DiGraph()
            for i in range(n):
                G.add_node('p%d' % i, name='poison', w=[i])
            G.nodes['p%d' % (n - 1)]['w'] = Bomb()
            for i in range(n - 1):
                G.add_edge('p%d' % i, 'p%d' % (i + 1))
            ad.adapt(G)
        elif kind == 'adapt_missing_data':   # DumbNetworkxAdapter: node data without the 'data' key
            G = nx.DiGraph()
            for i in range(n):
                G.add_node('p%d' % i, data=OptNode('poison'))
            del G.nodes['p%d' % (n - 1)]['data']
            ad.adapt(G)
        elif kind == 'restore_bomb':
            nds = [OptNode({'name': 'poison', 'params': {'w': [i]}}) for i in range(n)]
            nds[-1].content['params']['w'] = Bomb()
            for a, b in zip(nds, nds[1:]):
                b.nodes_from = [a]
            ad.restore(OptGraph(nds))
        elif kind == 'restore_params_none':
            nds = [OptNode({'name': 'poison', 'params': {}}) for i in range(n)]
            nds[-1].content['params'] = None
            ad.restore(OptGraph(nds))
        elif kind == 'adapt_func_raises':    # a wrapped function that raises inside the wrapper
            def boom(graph):
                raise ValueError('domain function failed')
            ad.adapt_func(boom)(OptGraph(OptNode('poison')))
    except AssertionError:
        raise
    except Exception as ex:
        return type(ex).__name__
    return None


def gen_reuse_desc(r):
    dumb = r.random() < 0.25
    kinds = ['adapt_missing_data', 'adapt_func_raises'] if dumb else \
        ['adapt_bomb', 'adapt_bomb', 'restore_bomb', 'restore_params_none', 'adapt_func_raises']
    return {'dumb': dumb, 'poison': [[r.choice(kinds), r.randint(2, 4)] for _ in range(r.choice([1, 1, 2]))],
            'nx': gen_nx_desc(r, 6, odd=False), 'opt': gen_opt_desc(r, 6, odd=False), 'opt_first': r.random() < 0.5}


def reuse_pipeline(desc):
    """the same adapter instance after failed conversions: ordinary round trips must be those of a fresh one"""
    ad = DumbNetworkxAdapter() if desc['dumb'] else BaseNetworkxAdapter()
    raised = [poison(ad, kind, n) for kind, n in desc['poison']]
    if desc['dumb']:
        return [('dumb', dumb_pipeline(desc['opt'], ad=ad))], raised
    runs = [('nx', nx_pipeline(desc['nx'], ad=ad)), ('opt', opt_pipeline(desc['opt'], ad=ad))]
    if desc['opt_first']:
        runs.reverse()
    return runs, raised


# ---- sessions on ONE adapter instance: adapt_func / restore_func interleaved with register / unregister
class RecHolder:
    def __init__(self, rec):
        self.rec = rec

    def method(self, *a, **kw):
        self.rec.append(a[-1] if a else None)


class RecCallable:
    def __init__(self, rec):
        self.rec = rec

    def __call__(self, *a, **kw):
        self.rec.append(a[-1] if a else None)


def recording_functions(rec):
    """callables that record the last positional argument they were given"""
    def f0(*a, **kw):
        rec.append(a[-1] if a else None)

    def f1(*a):
        rec.append(a[-1] if a else None)
    def f2(x=None, *a, **kw):
        rec.append(a[-1] if a else x)
    h = RecHolder(rec)
    return [f0, f1, f2, RecCallable(rec), (lambda *a: rec.append(a[-1] if a else None))] + equal_objects(rec), h


def gen_session_desc(r):
    """steps refer to entries of a table: first the pool terms, then (appended as the session runs) the
    objects handed out by earlier adapt_func / restore_func steps and partials / bound methods of entries;
    an index is taken modulo the current table size, `recent` steps pick among the last entries"""
    nfun = NFUN
    pool = [gen_term(r, nfun, depth=r.choice([0, 0, 1, 1, 2, 3])) for _ in range(r.choice([1, 2, 3]))]
    if r.random() < 0.35:      # both members of a pair of equal callable objects, bare and wrapped
        a, b = r.choice(EQ_PAIRS)
        pool += [['f', a], ['f', b], [r.choice(['p', 'm']), ['f', r.choice([a, b])]]]
    if r.random() < 0.35:      # a callable class, a subclass, instances, a bound __call__
        pool += [['c', r.choice([20, 21])], ['c', 30], ['c', r.choice([31, 32, 33])], gen_family_term(r)]
    for t in list(pool)[:2]:
        q = list(_base(t))
        for _ in range(r.choice([0, 1, 2])):
            q = [r.choice(['p', 'm']), q]
        pool.append(q)
    steps = []
    for _ in range(r.randint(3, 10)):
        what = r.choice(['reg', 'reg', 'unreg', 'adapt', 'adapt', 'adapt', 'restore', 'restore', 'partial', 'method'])
        steps.append([what, r.randrange(1000), r.random() < 0.6])
    return {'pool': pool, 'steps': steps, 'decorator': r.random() < 0.5}


SESSION_FN = ('fun c => match c with (ops, ad, q, n, s, d) => [agree_session ops ad q n s d; holds_session ops ad q n s d] end')
SESSION_TY = 'list reg_op * bool * callable * bool * bool * bool'


def run_session(desc):
    """one adapter instance, one python object per table entry (re-used by every step that names it).
    Returns one Coq case per adapt / restore step."""
    rec = []
    funs, holder = recording_functions(rec)
    reg = AdaptRegistry()
    ad = BaseNetworkxAdapter()
    terms = [list(t) for t in desc['pool']]
    objs = [build_term(t, funs, holder) for t in terms]
    ops, out = [], []
    fresh = 100
    try:
        for k, (what, pick, recent) in enumerate(desc['steps']):
            n = len(objs)
            i = (n - 1 - pick % min(3, n)) if recent else pick % n
            o, t = objs[i], terms[i]
            if what == 'reg':
                (register_native if desc['decorator'] else reg.register_native)(o)
                ops.append(('RegOp', t))
            elif what == 'unreg':
                if not may_unregister(t):       # see may_unregister: would raise AttributeError
                    continue
                reg.unregister_native(o)
                ops.append(('UnregOp', t))
            elif what == 'partial':
                objs.append(functools.partial(o, 1))
                terms.append(['p', t])
            elif what == 'method':
                objs.append(types.MethodType(o, holder))
                terms.append(['m', t])
            else:
                adapting = what == 'adapt'
                native = bool(AdaptRegistry.is_native(o))
                res = ad.adapt_func(o) if adapting else ad.restore_func(o)
                same = res is o
                del rec[:]
                res(make_graph('ANx', 'KOpt' if adapting else 'KDom', 1))
                assert len(rec) == 1, rec
                recv_dom = type(rec[0]) is nx.DiGraph
                assert recv_dom or type(rec[0]) is OptGraph, type(rec[0])
                ops_c = c_list(['(%s %s)' % (op, term_coq(tt)) for op, tt in ops], 'reg_op')
                out.append(('(%s, %s, %s, %s, %s, %s)' % (ops_c, c_bool(adapting), term_coq(t), c_bool(native),
                                                          c_bool(same), c_bool(recv_dom)),
                            {'step': k, 'what': what, 'native': native, 'same': same, 'recv_dom': recv_dom,
                             'history': len(ops), 'nesting': repr(t).count("'w'")}))
                if not same:            # a new function object: later steps may use it like any callable
                    fresh += 1
                    objs.append(res)
                    terms.append(['w', fresh, adapting, t])
    finally:
        _cleanup(reg, objs + funs, holder)
    return out


def real_method_checks():
    """bound methods / partials created by the language itself (not through MethodType)"""
    bad = []
    reg = AdaptRegistry()
    h, h2 = Holder(), Holder()
    try:
        register_native(h.method)
        for what, o in [('same bound method', h.method), ('method of another instance', h2.method),
                        ('plain function', Holder.method), ('partial of method', functools.partial(h.method, 1)),
                        ('partial of partial', functools.partial(functools.partial(Holder.method, h), 2))]:
            if not AdaptRegistry.is_native(o) or BaseNetworkxAdapter().adapt_func(o) is not o:
                bad.append(what)
        reg.unregister_native(functools.partial(h2.method))
        if AdaptRegistry.is_native(h.method):
            bad.append('unregister through partial')
    finally:
        reg.unregister_native(Holder.method)
    return bad


# ----------------------------------------------------------------------------------------
# driver
# ----------------------------------------------------------------------------------------
KEY_NAME_ATTR = 'C18.name-attr-empty-or-nonstring'
KEY_PARAM_NAME = 'C18.param-called-name'
# the same pipelines, but the round-trip clause is evaluated WITHOUT the guard
NX_FN_UNGUARDED = NX_FN.replace('holds_nx_rt G Go phi', 'nx_iso_b nx_attr_eqb phi G Go')
OPT_FN_UNGUARDED = OPT_FN.replace('holds_opt_rt g go psi', 'opt_iso_b psi g go')


def gen_known_name_attr(r, i):
    """a digraph inside the guard except that >= 1 node has a 'name' attribute that is '' / None / not a string"""
    desc = gen_nx_desc(r, 6, odd=False)
    if not desc['nodes']:
        desc['nodes'].append(['n0', {}])
    bad = [['', None, 5, 0, True, -12][i % 6]] + [r.choice(['', None, 5, 0, True, -12]) for _ in range(r.randint(0, 2))]
    for v in bad:
        a = r.choice(desc['nodes'])[1]
        a['name'] = v
    desc['odd'] = True
    return desc


def in_name_attr_class(desc):
    return any('name' in a and not (isinstance(a['name'], str) and a['name'] != '') for _, a in desc['nodes'])


def gen_known_param_name(r, i):
    """an internal graph inside the guard except that >= 1 node has a parameter whose key is 'name'"""
    desc = gen_opt_desc(r, 6, odd=False)
    if not desc['nodes']:
        desc['nodes'].append(['lr', None])
        desc['parents'].append([])
    for _ in range(r.randint(1, 2)):
        nd = r.choice(desc['nodes'])
        if i % 3 == 0:
            nd[0] = r.choice(['', '<absent>', None])      # unnamed node: the parameter becomes the node name
        nd[1] = dict(nd[1] or {})
        nd[1]['name'] = r.choice(['zz', 'lr', '', None, 5])
    desc['odd'] = True
    return desc


def in_param_name_class(desc):
    return any(p is not None and 'name' in p for _, p in desc['nodes'])


def _shard(n, base):
    """fewer, bigger shards when there are many cases (coqc start-up dominates otherwise); capped
    because a shard of 400 graph cases already needs ~0.6 GB in coqc"""
    return max(base, min(400, -(-n // 48)))


def _safe(ctx, group, desc, fn, *args):
    """run one pipeline; a conversion that raises on a generated input is a failing input"""
    try:
        return fn(desc, *args)
    except AssertionError:
        raise
    except Exception as ex:
        ctx.violate(group, desc, 'conversion raised %s: %s' % (type(ex).__name__, ex))
        return None


def _flag(ctx, group, case, res, names, viol_from):
    """res: tuple of booleans named by `names`; the first viol_from are agreements, the rest property clauses"""
    for i, (ok, nm) in enumerate(zip(res, names)):
        if ok:
            continue
        if i < viol_from:
            ctx.disagree(group, case, 'model and implementation differ: ' + nm)
        else:
            ctx.violate(group, case, nm)


NX_NAMES = ['adapt(G) differs from the model', 'restore(adapt(G)) differs from the model',
            'BaseNetworkxAdapter.adapt output shares an object with its input',
            'BaseNetworkxAdapter.restore output shares an object with its input',
            'restore(adapt(G)) is not isomorphic to G with equal attributes']
OPT_NAMES = ['restore(g) differs from the model', 'adapt(restore(g)) differs from the model',
             'BaseNetworkxAdapter.restore output shares an object with its input',
             'BaseNetworkxAdapter.adapt output shares an object with its input',
             'adapt(restore(g)) does not preserve structure, names and parameters']


def run(ctx):
    r = ctx.rng
    ctx.rule = ('random NetworkX digraphs / internal graphs with 0..10 nodes (cyclic or not, self loops, names present / '
                'absent / outside the guard, nested attribute values) through BaseNetworkxAdapter, DumbNetworkxAdapter, '
                'DirectAdapter (default and with a domain subclass), IdentityAdapter; wrapped calls over 5 adapter kinds '
                'with graph / individual / sequence / tuple / None / scalar / empty / string arguments (positional and '
                'keyword) and results; register / unregister histories over partial / bound-method nestings; sessions on ONE '
                'adapter instance interleaving adapt_func / restore_func (outcome called with a graph) with register / '
                'unregister on re-used callable objects and on the closures handed out by earlier steps (nesting up to 4); '
                'adapter instances re-used for ordinary round trips after adapt / restore / wrapped calls that raised '
                'part-way.  distinct = '
                'distinct generated description; non-trivial = at least 2 nodes and 1 edge (conversions), at least one '
                'graph-bearing argument or result (calls), a wrapped query or a non-empty history (registry)')
    ctx.trusted_extra = [
        'object identities are observed with `is` over node objects, content / params dicts, parent lists, nested '
        'containers, graph objects; the model represents them by numbers (deepcopy = shift into a fresh region)',
        'uuid4 modelled as a counter; NetworkX DiGraph modelled as ordered node list + predecessor-ordered edge list',
        'the isomorphism witnesses are found by networkx DiGraphMatcher and only CHECKED by the Coq oracle',
        'graph structure inside wrapped calls is abstracted to a token carried by a node name',
    ]
    nmax = 10
    # ---- NetworkX -> internal -> NetworkX
    n_nx = ctx.budget(900, 18000)
    cases, metas = [], []
    for i in range(n_nx):
        desc = gen_nx_desc(r, nmax, odd=(i % 5 == 4))
        out = _safe(ctx, 'nx_roundtrip', desc, nx_pipeline)
        if out is None:
            continue
        case, facts = out
        cases.append(case)
        metas.append((desc, facts))
    # canary: a tampered observation must be flagged
    canary_desc = {'nodes': [['a', {'name': 'lr', 'k': [1]}], ['b', {}]], 'edges': [[0, 1]], 'cyclic': False, 'odd': False}
    cases.append(nx_pipeline(canary_desc, tamper=True)[0])
    ctx.canaries += 1
    res = ctx.coq_cases('nx_roundtrip', REQ, NX_FN, cases, 5, case_ty=NX_TY, shard=_shard(len(cases), 150), preamble=PRE)
    if res[-1][1] is False and res[-1][4] is False:
        ctx.canaries_caught += 1
    for (desc, facts), rr in zip(metas, res[:-1]):
        guard_ok = all(('name' not in a) or (isinstance(a['name'], str) and a['name'] != '') for _, a in desc['nodes'])
        ctx.count('nx_roundtrip', key=desc, nontrivial=(facts['n'] >= 2 and facts['m'] >= 1), nodes=facts['n'],
                  cyclic=desc['cyclic'], inside_guard=guard_ok)
        _flag(ctx, 'nx_roundtrip', desc, rr, NX_NAMES, 2)
        if not facts['unchanged']:
            ctx.violate('nx_roundtrip', desc, 'conversion modified or re-used its input graph')
    for desc, facts in metas[:2]:
        ctx.sample({'group': 'nx_roundtrip', 'input': desc, 'result': 'agree, isomorphic, nothing shared'})

    # ---- internal -> NetworkX -> internal
    n_opt = ctx.budget(700, 14000)
    cases, metas = [], []
    for i in range(n_opt):
        desc = gen_opt_desc(r, nmax, odd=(i % 5 == 4))
        out = _safe(ctx, 'opt_roundtrip', desc, opt_pipeline)
        if out is None:
            continue
        case, facts = out
        cases.append(case)
        metas.append((desc, facts))
    res = ctx.coq_cases('opt_roundtrip', REQ, OPT_FN, cases, 5, case_ty=OPT_TY, shard=_shard(len(cases), 150), preamble=PRE)
    for (desc, facts), rr in zip(metas, res):
        ctx.count('opt_roundtrip', key=desc, nontrivial=(facts['n'] >= 2 and any(desc['parents'])), nodes=facts['n'],
                  cyclic=desc['cyclic'], odd=desc['odd'])
        _flag(ctx, 'opt_roundtrip', desc, rr, OPT_NAMES, 2)
        if not facts['unchanged']:
            ctx.violate('opt_roundtrip', desc, 'BaseNetworkxAdapter.restore modified its input graph')
    ctx.sample({'group': 'opt_roundtrip', 'input': metas[1][0], 'result': 'agree, same names / params / parents'})

    # ---- the two KNOWN findings: dedicated input classes, round-trip clause evaluated without the guard
    for group, gen, pipe, fn, ty, names, key, member in (
            ('known_name_attr', gen_known_name_attr, nx_pipeline, NX_FN_UNGUARDED, NX_TY, NX_NAMES, KEY_NAME_ATTR,
             in_name_attr_class),
            ('known_param_name', gen_known_param_name, opt_pipeline, OPT_FN_UNGUARDED, OPT_TY, OPT_NAMES, KEY_PARAM_NAME,
             in_param_name_class)):
        cases, metas = [], []
        for i in range(ctx.budget(36, 72)):
            desc = gen(r, i)
            assert member(desc)
            out = _safe(ctx, group, desc, pipe)
            if out is None:
                continue
            cases.append(out[0])
            metas.append((desc, out[1]))
        res = ctx.coq_cases(group, REQ, fn, cases, 5, case_ty=ty, shard=150, preamble=PRE)
        for (desc, facts), rr in zip(metas, res):
            ctx.count(group, key=desc, nontrivial=True, nodes=facts['n'], round_trips=rr[4])
            _flag(ctx, group, desc, rr[:4], names[:4], 2)
            if not rr[4]:
                ctx.violate(group, desc, names[4] + ' (input class of a known finding)', finding_key=key)
            if not facts['unchanged']:
                ctx.violate(group, desc, 'conversion modified or re-used its input graph')

    # ---- DumbNetworkxAdapter
    n_dumb = ctx.budget(400, 8000)
    cases, metas = [], []
    for i in range(n_dumb):
        desc = gen_opt_desc(r, nmax, odd=False)
        out = _safe(ctx, 'dumb', desc, dumb_pipeline)
        if out is None:
            continue
        case, facts = out
        cases.append(case)
        metas.append((desc, facts))
    res = ctx.coq_cases('dumb', REQ, DUMB_FN, cases, 2, case_ty=DUMB_TY, shard=_shard(len(cases), 150), preamble=PRE)
    for (desc, facts), rr in zip(metas, res):
        ctx.count('dumb', key=desc, nontrivial=(facts['n'] >= 2 and any(desc['parents'])), nodes=facts['n'])
        _flag(ctx, 'dumb', desc, rr, ['DumbNetworkxAdapter out-and-back differs from the model',
                                      'DumbNetworkxAdapter out-and-back does not preserve the graph'], 1)

    # ---- DirectAdapter (two single steps per graph), IdentityAdapter
    n_dir = ctx.budget(500, 10000)
    cases, metas = [], []
    for i in range(n_dir):
        desc = gen_opt_desc(r, nmax, odd=(i % 4 == 3))
        sub = [True, False, 'journal', False, 'counter', True, 'journal', 'fun'][i % 8]
        out = _safe(ctx, 'direct', desc, direct_pipeline, sub)
        if out is None:
            continue
        two, facts = out
        for step, c in zip(('adapt', 'restore'), two):
            cases.append(c)
            metas.append((desc, sub, step, facts))
    res = ctx.coq_cases('direct', REQ, DIRECT_FN, cases, 2, case_ty=DIRECT_TY, shard=_shard(len(cases), 200), preamble=PRE)
    for (desc, sub, step, facts), rr in zip(metas, res):
        case = {'graph': desc, 'domain_subclass': sub, 'step': step}
        ctx.count('direct', key=(desc, sub, step), nontrivial=(facts['n'] >= 2 and any(desc['parents'])), nodes=facts['n'],
                  step=step, domain_subclass=sub, edited=facts['edited'])
        _flag(ctx, 'direct', case, rr, ['DirectAdapter.%s differs from the model' % step,
                                        'DirectAdapter.%s loses content / classes, shares objects with its input, or an edit of one '
                                        'side (firing postprocess_nodes) changed the other side' % step], 1)
        if not facts['unchanged'] and step == 'adapt':
            ctx.violate('direct', case, 'DirectAdapter modified or re-used its input graph')
    n_id = ctx.budget(100, 2000)
    cases, metas = [], []
    for i in range(n_id):
        desc = gen_opt_desc(r, nmax, odd=True)
        out = _safe(ctx, 'identity', desc, identity_pipeline)
        if out is None:
            continue
        case, facts = out
        cases.append(case)
        metas.append((desc, facts))
    res = ctx.coq_cases('identity', REQ, IDENT_FN, cases, 1, case_ty=IDENT_TY, shard=_shard(len(cases), 200), preamble=PRE)
    for (desc, facts), rr in zip(metas, res):
        ctx.count('identity', key=desc, nontrivial=len(desc['nodes']) >= 1)
        if not rr[0] or not facts['same']:
            ctx.disagree('identity', desc, 'IdentityAdapter does not return its argument')

    # ---- wrapped calls
    n_calls = ctx.budget(1000, 20000)
    cases, metas = [], []
    for i in range(n_calls):
        desc = gen_call_desc(r)
        case, facts = run_call(desc)
        cases.append(case)
        metas.append((desc, facts))
    canary_call = {'kind': 'ANx', 'adapting': True, 'args': [['g', 'KOpt', 3]], 'kwargs': [], 'raw': ['g', 'KDom', 4]}
    cases.append(run_call(canary_call, tamper=True)[0])
    ctx.canaries += 1
    res = ctx.coq_cases('calls', REQ, CALL_FN, cases, 2, case_ty='call_obs', shard=_shard(len(cases), 250), preamble=PRE)
    if res[-1] == (False, False):
        ctx.canaries_caught += 1
    for (desc, facts), rr in zip(metas, res[:-1]):
        txt = repr(desc)
        ctx.count('calls', key=desc, nontrivial=("'g'" in txt or "'i'" in txt), kind=desc['kind'],
                  wrapper='adapt_func' if desc['adapting'] else 'restore_func', raised=facts['raised'],
                  n_args=len(desc['args']), n_kwargs=len(desc['kwargs']), result=desc['raw'][0],
                  other_sequence=("'useq'" in txt))
        _flag(ctx, 'calls', desc, rr, ['wrapped call differs from the model',
                                       'wrapped function did not receive converted graphs / untouched other arguments, or '
                                       'its result was not converted back'], 1)
    ctx.sample({'group': 'calls', 'input': metas[0][0], 'facts': metas[0][1]})

    # ---- registry
    n_reg = ctx.budget(600, 12000)
    cases, metas = [], []
    for i in range(n_reg):
        desc = gen_registry_desc(r)
        case, facts = run_registry(desc)
        cases.append(case)
        metas.append((desc, facts))
    canary_reg = {'ops': [['reg', ['p', ['f', 0]]]], 'query': ['m', ['f', 0]], 'decorator': True}
    cases.append(run_registry(canary_reg, tamper=True)[0])
    ctx.canaries += 1
    res = ctx.coq_cases('registry', REQ, REG_FN, cases, 2, case_ty=REG_TY, shard=_shard(len(cases), 300), preamble=PRE)
    if res[-1] == (False, False):
        ctx.canaries_caught += 1
    for (desc, facts), rr in zip(metas, res[:-1]):
        ctx.count('registry', key=desc, nontrivial=(desc['query'][0] != 'f' or bool(desc['ops'])), native=facts['native'],
                  query_wrappers=_depth(desc['query']), history=len(desc['ops']))
        _flag(ctx, 'registry', desc, rr, ['is_native / adapt_func differ from the model',
                                          'a callable registered as native (through partial / method wrappers) is not used '
                                          'as is, or an unregistered one is'], 1)
        if facts['raised']:
            ctx.violate('registry', desc, 'registry operation raised ' + facts['raised'])
    # ---- adapter instances re-used after a conversion that failed part-way
    batches = {'nx': ([], [], NX_FN, NX_TY, NX_NAMES, 5, 2), 'opt': ([], [], OPT_FN, OPT_TY, OPT_NAMES, 5, 2),
               'dumb': ([], [], DUMB_FN, DUMB_TY, ['DumbNetworkxAdapter out-and-back differs from the model',
                                                   'DumbNetworkxAdapter out-and-back does not preserve the graph'], 2, 1)}
    for i in range(ctx.budget(150, 3000)):
        desc = gen_reuse_desc(r)
        out = _safe(ctx, 'reuse', desc, reuse_pipeline)
        if out is None:
            continue
        runs, raised = out
        if None in raised:
            ctx.error('reuse', 'a poisoning call did not raise: %r' % (desc['poison'],))
        for which, (case, facts) in runs:
            batches[which][0].append(case)
            batches[which][1].append((desc, which))
    for which, (cases, metas, fn, ty, names, k, vf) in batches.items():
        res = ctx.coq_cases('reuse', REQ, fn, cases, k, case_ty=ty, shard=_shard(len(cases), 150), preamble=PRE)
        for (desc, w), rr in zip(metas, res):
            ctx.count('reuse', key=(desc, w), nontrivial=True, adapter='dumb' if desc['dumb'] else 'base',
                      poison='+'.join(sorted(set(kd for kd, _ in desc['poison']))))
            _flag(ctx, 'reuse', desc, rr, ['after a failed conversion on the same adapter instance: ' + nm for nm in names], vf)
    ctx.sample({'group': 'reuse', 'input': {'poison': [['adapt_bomb', 3]], 'then': 'ordinary nx and opt round trips on the same '
                                                                                 'BaseNetworkxAdapter instance'}})

    # ---- sessions on one adapter instance
    cases, metas = [], []
    for i in range(ctx.budget(250, 5000)):
        desc = gen_session_desc(r)
        out = _safe(ctx, 'sessions', desc, run_session)
        if out is None:
            continue
        for case, facts in out:
            cases.append(case)
            metas.append((desc, facts))
    res = ctx.coq_cases('sessions', REQ, SESSION_FN, cases, 2, case_ty=SESSION_TY, shard=_shard(len(cases), 300), preamble=PRE)
    for (desc, facts), rr in zip(metas, res):
        case = dict(desc, failing_step=facts['step'])
        ctx.count('sessions', key=(desc, facts['step']), nontrivial=facts['history'] > 0, wrapper=facts['what'],
                  native=facts['native'], history=min(facts['history'], 5), closure_nesting=facts['nesting'])
        _flag(ctx, 'sessions', case, rr, ['adapt_func / restore_func in a session differ from the model',
                                          'in a session on one adapter: a function registered as native is not used as is '
                                          '(or a domain function is not called with restored graphs) after the registry changed'], 1)
    if metas:
        ctx.sample({'group': 'sessions', 'input': metas[0][0], 'facts': metas[0][1]})
    bad = real_method_checks()
    ctx.count('registry', key='language-made bound methods', nontrivial=True)
    if bad:
        ctx.violate('registry', {'real_methods': bad}, 'native flag not found through: ' + ', '.join(bad))
    ctx.sample({'group': 'registry', 'input': metas[0][0], 'facts': metas[0][1]})


def _depth(t):
    n = 0
    while t[0] not in BASE_TERMS:
        t = t[1]
        n += 1
    return n


def _replay(ctx, payload):
    v = payload.get('violation') or payload.get('first_disagreement') or payload
    if not isinstance(v, dict) or not v.get('case'):
        return
    group, desc = v.get('group'), v['case']
    if group == 'nx_roundtrip':
        case, facts = nx_pipeline(desc)
        res = ctx.coq_cases('replay', REQ, NX_FN, [case], 5, case_ty=NX_TY, preamble=PRE)
        _flag(ctx, 'replay', desc, res[0], NX_NAMES, 2)
    elif group in ('known_name_attr', 'known_param_name'):
        nxg = group == 'known_name_attr'
        case, facts = (nx_pipeline if nxg else opt_pipeline)(desc)
        res = ctx.coq_cases('replay', REQ, NX_FN_UNGUARDED if nxg else OPT_FN_UNGUARDED, [case], 5,
                            case_ty=NX_TY if nxg else OPT_TY, preamble=PRE)
        _flag(ctx, 'replay', desc, res[0][:4], (NX_NAMES if nxg else OPT_NAMES)[:4], 2)
        if not res[0][4]:
            ctx.violate('replay', desc, (NX_NAMES if nxg else OPT_NAMES)[4], finding_key=KEY_NAME_ATTR if nxg else KEY_PARAM_NAME)
    elif group == 'opt_roundtrip':
        case, facts = opt_pipeline(desc)
        res = ctx.coq_cases('replay', REQ, OPT_FN, [case], 5, case_ty=OPT_TY, preamble=PRE)
        _flag(ctx, 'replay', desc, res[0], OPT_NAMES, 2)
    elif group == 'calls':
        case, facts = run_call(desc)
        res = ctx.coq_cases('replay', REQ, CALL_FN, [case], 2, case_ty='call_obs', preamble=PRE)
        _flag(ctx, 'replay', desc, res[0], ['wrapped call differs from the model', 'wrapped call violates the call spec'], 1)
    elif group == 'dumb':
        case, facts = dumb_pipeline(desc)
        res = ctx.coq_cases('replay', REQ, DUMB_FN, [case], 2, case_ty=DUMB_TY, preamble=PRE)
        _flag(ctx, 'replay', desc, res[0], ['dumb adapter differs from the model', 'dumb adapter does not preserve the graph'], 1)
    elif group == 'direct' and 'graph' in desc:
        two, facts = direct_pipeline(desc['graph'], desc['domain_subclass'])
        res = ctx.coq_cases('replay', REQ, DIRECT_FN, two, 2, case_ty=DIRECT_TY, preamble=PRE)
        for rr in res:
            _flag(ctx, 'replay', desc, rr, ['DirectAdapter differs from the model',
                                            'DirectAdapter loses content / classes or shares objects'], 1)
    elif group == 'reuse':
        runs, raised = reuse_pipeline(desc)
        table = {'nx': (NX_FN, NX_TY, NX_NAMES, 5, 2), 'opt': (OPT_FN, OPT_TY, OPT_NAMES, 5, 2),
                 'dumb': (DUMB_FN, DUMB_TY, ['dumb adapter differs from the model', 'dumb adapter does not preserve the graph'], 2, 1)}
        for which, (case, facts) in runs:
            fn, ty, names, k, vf = table[which]
            res = ctx.coq_cases('replay', REQ, fn, [case], k, case_ty=ty, preamble=PRE)
            _flag(ctx, 'replay', desc, res[0], ['after a failed conversion on the same adapter instance: ' + nm for nm in names], vf)
    elif group == 'sessions':
        out = run_session(desc)
        res = ctx.coq_cases('replay', REQ, SESSION_FN, [c for c, _ in out], 2, case_ty=SESSION_TY, preamble=PRE)
        for rr in res:
            _flag(ctx, 'replay', desc, rr, ['session differs from the model',
                                            'native / domain decision not honoured after the registry changed'], 1)
    elif group == 'registry' and 'ops' in desc:
        case, facts = run_registry(desc)
        res = ctx.coq_cases('replay', REQ, REG_FN, [case], 2, case_ty=REG_TY, preamble=PRE)
        _flag(ctx, 'replay', desc, res[0], ['registry differs from the model', 'native flag not honoured'], 1)
    else:
        return
    ctx.count('replay', key=desc, nontrivial=True)


def replay(ctx, payload):
    v = payload.get('violation') or payload.get('first_disagreement') or payload
    try:
        _replay(ctx, payload)
    except (AssertionError, ImportError):
        raise
    except Exception as ex:
        if ex.__class__.__name__ == 'CoqEvalError':
            raise
        ctx.violate('replay', v.get('case') if isinstance(v, dict) else None,
                    'conversion raised %s: %s' % (type(ex).__name__, ex))
